//! Generator of *construction paths*: a structural value `S` is turned into a sequence of Quiver
//! statements that builds it by a randomly chosen path per node (literal, computed, generic
//! function, union-typed site, spread, module import, process result, message). Two values with the
//! same `S` built by different paths must compare equal; values with different `S` must not.
use num_bigint::BigInt;
use qverif::{Rng, hex};
use std::collections::HashMap;

#[derive(Clone, Debug, PartialEq, Eq, Hash)]
pub enum S {
    Int(BigInt),
    Bin(Vec<u8>),
    Tup(Option<String>, Vec<(Option<String>, S)>),
    /// k-th ref of the program: 0..2 minted by the main process, 3..4 minted in child processes
    Ref(usize),
    /// closure made by maker k (0: add, 1: multiply, capturing an integer; 2: generic, capturing anything)
    Clo(usize, Box<S>),
    /// named function k, referenced with `&`
    FnRef(usize),
    /// handle of idle child process k (sim only)
    Proc(usize),
}

impl S {
    pub fn nil() -> S {
        S::Tup(None, vec![])
    }
    pub fn is_nil(&self) -> bool {
        matches!(self, S::Tup(None, f) if f.is_empty())
    }
    pub fn needs_sim(&self) -> bool {
        match self {
            S::Ref(k) => *k >= 3,
            S::Proc(_) => true,
            S::Tup(_, fs) => fs.iter().any(|(_, f)| f.needs_sim()),
            S::Clo(_, c) => c.needs_sim(),
            _ => false,
        }
    }
    /// Can the value travel in a typed message (we must write its type)?
    pub fn message_type(&self) -> Option<String> {
        Some(match self {
            S::Int(_) => "'int".into(),
            S::Bin(_) => "'bin".into(),
            S::Ref(_) => "'ref".into(),
            S::Tup(name, fs) => {
                let mut parts = vec![];
                for (l, f) in fs {
                    let t = f.message_type()?;
                    parts.push(match l {
                        Some(l) => format!("{l}: {t}"),
                        None => t,
                    });
                }
                match (name, fs.is_empty()) {
                    (Some(n), true) => n.clone(),
                    (Some(n), false) => format!("{n}[{}]", parts.join(", ")),
                    (None, _) => format!("[{}]", parts.join(", ")),
                }
            }
            S::Clo(..) | S::FnRef(_) | S::Proc(_) => return None,
        })
    }
    /// Literal pattern text matching exactly this value, if expressible (`a =<literal>`).
    pub fn literal_pattern(&self) -> Option<String> {
        Some(match self {
            S::Int(i) => i.to_string(),
            S::Bin(b) => format!("0x{}", hex(b)),
            S::Tup(name, fs) => {
                let mut parts = vec![];
                for (l, f) in fs {
                    let t = f.literal_pattern()?;
                    parts.push(match l {
                        Some(l) => format!("{l}: {t}"),
                        None => t,
                    });
                }
                match (name, fs.is_empty()) {
                    (Some(n), true) => n.clone(),
                    (Some(n), false) => format!("{n}[{}]", parts.join(", ")),
                    (None, _) => format!("[{}]", parts.join(", ")),
                }
            }
            _ => return None,
        })
    }
    pub fn depth(&self) -> usize {
        match self {
            S::Tup(_, fs) => 1 + fs.iter().map(|(_, f)| f.depth()).max().unwrap_or(0),
            S::Clo(_, c) => 1 + c.depth(),
            _ => 0,
        }
    }
}

/// Same rendering as the Lean driver's `renderSV` for the structural part the spec determines
/// (refs, functions, processes are compared through the runtime values, not through the spec).
pub fn gen_int(r: &mut Rng) -> BigInt {
    match r.below(8) {
        0 => BigInt::from(0),
        1 => BigInt::from(r.range(-3, 3)),
        2 => BigInt::from(r.range(-1000, 1000)),
        3 => BigInt::from(r.next() as i64),
        4 => BigInt::from(r.next()) * BigInt::from(r.next()) + BigInt::from(r.below(5)),
        5 => -(BigInt::from(r.next()) * BigInt::from(r.next())),
        _ => BigInt::from(r.range(0, 9)),
    }
}

pub fn gen_bin(r: &mut Rng) -> Vec<u8> {
    // half of the binaries are periodic (a unit of 1..3 bytes tiled 2..12 times) or zero-filled, so
    // that the same content can be built as different rope shapes (repeat with several
    // factorisations, zero-fill, slices of those, …)
    if r.below(2) == 0 {
        let ulen = 1 + r.usize(3);
        let unit: Vec<u8> = match r.below(4) {
            0 => vec![0u8; ulen],
            1 => vec![r.below(256) as u8; ulen],
            _ => r.bytes(ulen),
        };
        let count = [2usize, 3, 4, 6, 8, 12][r.usize(6)];
        return unit.iter().cycle().take(ulen * count).copied().collect();
    }
    let n = match r.below(8) {
        0 => 0,
        1 => 1,
        2 => 2,
        3 => 8,
        4 => 17,
        _ => r.usize(5),
    };
    match r.below(4) {
        0 => vec![0u8; n],
        _ => r.bytes(n),
    }
}

/// All `d` such that `b` is `b[..d]` repeated `len / d` times (including `d = len`).
pub fn periods(b: &[u8]) -> Vec<usize> {
    (1..=b.len()).filter(|d| b.len() % d == 0 && b.chunks(*d).all(|c| c == &b[..*d])).collect()
}

const NAMES: [&str; 4] = ["P", "Q", "Rr", "Pp"];
const LABELS: [&str; 4] = ["x", "y", "l", "xx"];

pub fn gen_spec(r: &mut Rng, depth: usize, sim: bool) -> S {
    let leaf = depth == 0 || r.below(10) < 3;
    if leaf {
        return match r.below(if sim { 16 } else { 14 }) {
            0..=3 => S::Int(gen_int(r)),
            4..=6 => S::Bin(gen_bin(r)),
            7 => S::nil(),
            8 => S::Tup(Some("Ok".into()), vec![]),
            9 => S::Tup(Some(NAMES[r.usize(NAMES.len())].into()), vec![]),
            10 | 11 => S::Ref(r.usize(if sim { 5 } else { 3 })),
            12 => {
                if r.below(3) == 0 {
                    // generic maker: captures any value (one function index for all instantiations)
                    S::Clo(2, Box::new(gen_spec(r, depth.min(2).saturating_sub(1), sim)))
                } else {
                    S::Clo(r.usize(2), Box::new(S::Int(BigInt::from(r.range(0, 3)))))
                }
            }
            13 => S::FnRef(r.usize(2)),
            _ => S::Proc(r.usize(2)),
        };
    }
    let arity = 1 + r.usize(3);
    let name = if r.below(4) == 0 { None } else { Some(NAMES[r.usize(NAMES.len())].to_string()) };
    let mut fields = vec![];
    let mut used: Vec<&str> = vec![];
    for _ in 0..arity {
        let label = if r.below(3) == 0 {
            None
        } else {
            let l = LABELS[r.usize(LABELS.len())];
            if used.contains(&l) {
                None
            } else {
                used.push(l);
                Some(l.to_string())
            }
        };
        fields.push((label, gen_spec(r, depth - 1, sim)));
    }
    S::Tup(name, fields)
}

/// A near miss of `s`: one small structural change (what an equality bug would confuse).
pub fn mutate(s: &S, r: &mut Rng, sim: bool) -> S {
    match s {
        S::Int(i) => match r.below(3) {
            0 => S::Int(i + 1),
            1 => S::Int(-i.clone() - 1),
            _ => S::Bin(i.to_signed_bytes_be()),
        },
        S::Bin(b) => {
            let mut b2 = b.clone();
            match r.below(4) {
                0 if !b2.is_empty() => {
                    let k = r.usize(b2.len());
                    b2[k] ^= 1 << r.below(8);
                }
                1 => b2.push(0),
                2 if !b2.is_empty() => {
                    b2.pop();
                }
                _ => b2.insert(0, 0),
            }
            S::Bin(b2)
        }
        S::Ref(k) => S::Ref((k + 1 + r.usize(2)) % if sim { 5 } else { 3 }),
        S::Clo(2, c) => S::Clo(2, Box::new(mutate(c, r, sim))),
        S::Clo(k, c) => {
            if r.below(2) == 0 {
                S::Clo(1 - k, c.clone())
            } else {
                // the makers capture an integer
                let c2 = match &**c {
                    S::Int(i) => S::Int(i + 1 + r.below(3) as i64),
                    other => other.clone(),
                };
                S::Clo(*k, Box::new(c2))
            }
        }
        S::FnRef(k) => S::FnRef(1 - k),
        S::Proc(k) => S::Proc(1 - k),
        S::Tup(name, fs) => {
            let choice = r.below(if fs.is_empty() { 2 } else { 7 });
            match choice {
                0 => {
                    // other name
                    let n2 = match name {
                        None => Some("P".to_string()),
                        Some(n) if n == "P" => Some("Pp".to_string()),
                        Some(_) if r.below(2) == 0 => None,
                        Some(_) => Some("P".to_string()),
                    };
                    S::Tup(n2, fs.clone())
                }
                1 => {
                    // extra field
                    let mut f2 = fs.clone();
                    f2.push((None, S::Int(BigInt::from(0))));
                    S::Tup(name.clone(), f2)
                }
                2 => {
                    // other label on one field
                    let mut f2 = fs.clone();
                    let k = r.usize(f2.len());
                    f2[k].0 = match &f2[k].0 {
                        None => Some("zz".to_string()),
                        Some(l) if l == "x" && r.below(2) == 0 => Some("xx".to_string()),
                        Some(_) if r.below(2) == 0 => None,
                        Some(_) => Some("zz".to_string()),
                    };
                    S::Tup(name.clone(), f2)
                }
                3 => {
                    // drop last field
                    let mut f2 = fs.clone();
                    f2.pop();
                    S::Tup(name.clone(), f2)
                }
                _ => {
                    // mutate one field value
                    let mut f2 = fs.clone();
                    let k = r.usize(f2.len());
                    f2[k].1 = mutate(&f2[k].1, r, sim);
                    S::Tup(name.clone(), f2)
                }
            }
        }
    }
}

pub struct Pb {
    pub sim: bool,
    pub aliases: Vec<String>,
    pub stmts: Vec<String>,
    pub modules: HashMap<Vec<String>, String>,
    pub msg_types: Vec<String>,
    n: usize,
    pub paths: Vec<&'static str>,
    /// module-name prefix (distinct per program so the REPL module cache never collides)
    pub uses_me: bool,
    pub tail_call_self: bool,
}

fn tuple_text(name: &Option<String>, parts: &[String]) -> String {
    match (name, parts.is_empty()) {
        (Some(n), true) => n.clone(),
        (Some(n), false) => format!("{n}[{}]", parts.join(", ")),
        (None, _) => format!("[{}]", parts.join(", ")),
    }
}

fn field_text(l: &Option<String>, e: &str) -> String {
    match l {
        Some(l) => format!("{l}: {e}"),
        None => e.to_string(),
    }
}

impl Pb {
    pub fn new(sim: bool) -> Pb {
        Pb {
            sim,
            aliases: vec![],
            stmts: vec![],
            modules: HashMap::new(),
            msg_types: vec![],
            n: 0,
            paths: vec![],
            uses_me: false,
            tail_call_self: false,
        }
    }

    fn fresh(&mut self, p: &str) -> String {
        self.n += 1;
        format!("{p}{}", self.n)
    }

    fn push(&mut self, s: String) {
        self.stmts.push(s);
    }

    fn path(&mut self, p: &'static str) {
        self.paths.push(p);
    }

    /// Fixed prelude: generic helpers, closure makers, named functions, refs, (sim) processes.
    pub fn prelude(&mut self, refs_main: bool) {
        self.push("id = #<'t>'t { ~ }".into());
        self.push("mkc0 = #'int { =n, #'int { [~, n] __integer_add__ } }".into());
        self.push("mkc1 = #'int { =n, #'int { [~, n] __integer_multiply__ } }".into());
        self.push("mkc2 = #<'t>'t { =c, #{ &c } }".into());
        self.push("fn0 = #'int { [~, 1] __integer_add__ }".into());
        self.push("fn1 = #'int { [~, 2] __integer_add__ }".into());
        if refs_main {
            self.push("r0 = %ref".into());
            self.push("r1 = %ref".into());
            self.push("r2 = %ref".into());
        }
    }

    pub fn prelude_sim(&mut self) {
        // refs minted in two child processes (placed by the environment on some worker)
        self.push("mint = #{ %ref }".into());
        self.push("rp3 = @mint".into());
        self.push("rp4 = @mint".into());
        self.push("r3 = !rp3".into());
        self.push("r4 = !rp4".into());
        // two idle processes whose handles are compared
        self.push("idle = #{ !'int }".into());
        self.push("pw0 = @idle".into());
        self.push("pw1 = @idle".into());
    }

    /// Emit statements building `s`; returns the variable holding it (always referenced as `&v`).
    pub fn build(&mut self, s: &S, r: &mut Rng) -> String {
        let v = self.build_direct(s, r);
        // optional transport of the finished value
        match r.below(if self.sim { 10 } else { 7 }) {
            0 => {
                self.path("generic-id");
                let w = self.fresh("v");
                self.push(format!("{w} = &{v} id"));
                w
            }
            1 if !matches!(s, S::Clo(..) | S::FnRef(_) | S::Proc(_)) => {
                // through a tuple and back out (field access)
                self.path("wrap-unwrap");
                let w = self.fresh("v");
                let u = self.fresh("v");
                self.push(format!("{w} = [0, &{v}]"));
                self.push(format!("{u} = {w}.1"));
                // a callable field would be *called* by `.1`; only non-callables come here
                u
            }
            7 => {
                // result of a child process (captures `v`, crosses workers at spawn and at await)
                self.path("process-result");
                let c = self.fresh("c");
                let p = self.fresh("p");
                let w = self.fresh("v");
                self.push(format!("{c} = #{{ &{v} }}"));
                self.push(format!("{p} = @{c}"));
                self.push(format!("{w} = !{p}"));
                w
            }
            8 => match s.message_type().filter(|_| !s.is_nil()) {
                Some(t) => {
                    // sent by a child to the main process in a typed message
                    self.path("message");
                    self.uses_me = true;
                    self.msg_types.push(t.clone());
                    let c = self.fresh("c");
                    let p = self.fresh("p");
                    let z = self.fresh("z");
                    let z3 = self.fresh("z");
                    let u = self.fresh("v");
                    let w = self.fresh("v");
                    self.push(format!("{c} = #'par {{ =parent, {z} = &{v} parent, Ok }}"));
                    self.push(format!("{p} = &me @{c}"));
                    self.push(format!("{u} = !#'msg"));
                    // the received value has the union type 'msg: narrow it back (type-ascribed binding)
                    self.push(format!("{z3} = &{u} =({t}){w}"));
                    w
                }
                None => v,
            },
            9 => match s.message_type().filter(|_| !s.is_nil()) {
                Some(t) => {
                    // echoed: main → child → main
                    self.path("message-echo");
                    self.uses_me = true;
                    self.msg_types.push(t.clone());
                    let c = self.fresh("c");
                    let p = self.fresh("p");
                    let z = self.fresh("z");
                    let z2 = self.fresh("z");
                    let z3 = self.fresh("z");
                    let u = self.fresh("v");
                    let w = self.fresh("v");
                    self.push(format!("{c} = #'par {{ =parent, !#'msg =x, {z} = &x parent, Ok }}"));
                    self.push(format!("{p} = &me @{c}"));
                    self.push(format!("{z2} = &{v} {p}"));
                    self.push(format!("{u} = !#'msg"));
                    self.push(format!("{z3} = &{u} =({t}){w}"));
                    w
                }
                None => v,
            },
            _ => v,
        }
    }

    /// Build a binary with content `b` as a random *rope shape*: literal (owned), concat, slice of a
    /// larger binary, repeat under a random factorisation of a periodic content (tiled), zero-fill,
    /// module constant — recursively for the parts, so shapes nest.
    fn build_bin(&mut self, b: &[u8], r: &mut Rng, depth: usize) -> String {
        let v = self.fresh("v");
        let choice = if depth == 0 { r.below(2) } else { 2 + r.below(9) };
        match choice {
            0 | 2 | 3 => {
                self.path("bin-literal");
                self.push(format!("{v} = 0x{}", hex(b)));
            }
            1 | 4 => {
                self.path("bin-module");
                let m = self.fresh("mb");
                self.modules.insert(vec![m.clone()], format!("[val: 0x{}]", hex(b)));
                self.push(format!("{m} = %{m}"));
                self.push(format!("{v} = {m}.val"));
            }
            5 | 6 => {
                self.path("bin-concat");
                let k = r.usize(b.len() + 1);
                let x = self.build_bin(&b[..k], r, depth - 1);
                let y = self.build_bin(&b[k..], r, depth - 1);
                self.push(format!("{v} = [&{x}, &{y}] __binary_concat__"));
            }
            7 => {
                self.path("bin-slice");
                let (n1, n2) = (r.usize(3), r.usize(3));
                let pre = r.bytes(n1);
                let post = r.bytes(n2);
                let mut big = pre.clone();
                big.extend_from_slice(b);
                big.extend_from_slice(&post);
                let x = self.build_bin(&big, r, depth - 1);
                self.push(format!("{v} = [&{x}, {}, {}] __binary_slice__", pre.len(), pre.len() + b.len()));
            }
            8 | 9 => {
                // tiled: one of the factorisations unit × count of the content (count 1 = the unit itself)
                let ps = periods(b);
                if ps.is_empty() {
                    self.path("bin-literal");
                    self.push(format!("{v} = 0x{}", hex(b)));
                } else {
                    let d = ps[r.usize(ps.len())];
                    self.path(if b.len() / d > 1 { "bin-repeat-tiled" } else { "bin-repeat-once" });
                    let x = self.build_bin(&b[..d], r, depth - 1);
                    self.push(format!("{v} = [&{x}, {}] __binary_repeat__", b.len() / d));
                }
            }
            _ => {
                if !b.is_empty() && b.iter().all(|x| *x == 0) {
                    self.path("bin-zero-fill");
                    self.push(format!("{v} = {} __binary_new__", b.len()));
                } else {
                    // a zero-filled binary of the same length or-ed with the content (owned result)
                    self.path("bin-or-with-zero-fill");
                    let x = self.build_bin(b, r, depth - 1);
                    self.push(format!("{v} = [&{x}, {} __binary_new__] __binary_or__", b.len()));
                }
            }
        }
        v
    }

    fn build_direct(&mut self, s: &S, r: &mut Rng) -> String {
        let v = self.fresh("v");
        match s {
            S::Int(n) => match r.below(5) {
                0 | 1 => {
                    self.path("int-literal");
                    self.push(format!("{v} = {n}"));
                }
                2 => {
                    self.path("int-add");
                    let x = gen_int(r);
                    let y = n - &x;
                    self.push(format!("{v} = [{x}, {y}] __integer_add__"));
                }
                3 => {
                    self.path("int-subtract");
                    let x = gen_int(r);
                    let y = &x - n;
                    self.push(format!("{v} = [{x}, {y}] __integer_subtract__"));
                }
                _ => {
                    self.path("int-module");
                    let m = self.fresh("mi");
                    self.modules.insert(vec![m.clone()], format!("[val: {n}]"));
                    self.push(format!("{m} = %{m}"));
                    self.push(format!("{v} = {m}.val"));
                }
            },
            S::Bin(b) => {
                let u = self.build_bin(b, r, 2);
                self.push(format!("{v} = &{u}"));
            }
            S::Ref(k) => {
                self.path(if *k >= 3 { "ref-minted-in-child" } else { "ref-main" });
                self.push(format!("{v} = &r{k}"));
            }
            S::FnRef(k) => {
                self.path("function-ref");
                self.push(format!("{v} = &fn{k}"));
            }
            S::Proc(k) => {
                self.path("process-handle");
                self.push(format!("{v} = &pw{k}"));
            }
            S::Clo(k, cap) => {
                self.path("closure");
                let c = self.build(cap, r);
                self.push(format!("{v} = &{c} mkc{k}"));
            }
            S::Tup(name, fs) if fs.is_empty() => {
                if s.is_nil() {
                    match r.below(3) {
                        0 => {
                            self.path("nil-from-failed-match");
                            self.push(format!("{v} = 5 =6"));
                        }
                        _ => {
                            self.path("nil-literal");
                            self.push(format!("{v} = []"));
                        }
                    }
                } else if name.as_deref() == Some("Ok") && r.below(2) == 0 {
                    self.path("ok-from-match");
                    self.push(format!("{v} = 5 =5"));
                } else {
                    self.path("empty-named-literal");
                    self.push(format!("{v} = {}", name.clone().unwrap()));
                }
            }
            S::Tup(name, fs) => {
                let fv: Vec<String> = fs.iter().map(|(_, f)| self.build(f, r)).collect();
                let refs: Vec<String> = fv.iter().map(|x| format!("&{x}")).collect();
                let all_labelled_tail = fs.len() >= 2 && fs.last().unwrap().0.is_some();
                let scalar1 = fs.len() == 1 && matches!(fs[0].1, S::Int(_) | S::Bin(_));
                match r.below(9) {
                    0 | 1 => {
                        self.path("tuple-literal");
                        let parts: Vec<String> =
                            fs.iter().zip(&refs).map(|((l, _), e)| field_text(l, e)).collect();
                        self.push(format!("{v} = {}", tuple_text(name, &parts)));
                    }
                    2 | 3 => {
                        // built inside a generic function: field types are type variables there
                        self.path("tuple-generic-site");
                        let h = self.fresh("h");
                        let tvars: Vec<String> = (0..fs.len()).map(|i| format!("'t{i}")).collect();
                        let binders: Vec<String> = (0..fs.len()).map(|i| format!("a{i}")).collect();
                        let parts: Vec<String> = fs
                            .iter()
                            .enumerate()
                            .map(|(i, (l, _))| field_text(l, &format!("&a{i}")))
                            .collect();
                        if fs.len() == 1 {
                            self.push(format!(
                                "{h} = #<'t0>'t0 {{ =a0, {} }}",
                                tuple_text(name, &parts)
                            ));
                            self.push(format!("{v} = {} {h}", refs[0]));
                        } else {
                            self.push(format!(
                                "{h} = #<{}>[{}] {{ =[{}], {} }}",
                                tvars.join(", "),
                                tvars.join(", "),
                                binders.join(", "),
                                tuple_text(name, &parts)
                            ));
                            self.push(format!("{v} = [{}] {h}", refs.join(", ")));
                        }
                    }
                    4 if scalar1 => {
                        // built at a site whose field type is a union
                        self.path("tuple-union-site");
                        let h = self.fresh("h");
                        let part = field_text(&fs[0].0, "&a0");
                        self.push(format!(
                            "{h} = #('int | 'bin) {{ =a0, {} }}",
                            tuple_text(name, &[part])
                        ));
                        self.push(format!("{v} = {} {h}", refs[0]));
                    }
                    5 if all_labelled_tail => {
                        // spread: all but the last field, then extend
                        self.path("tuple-spread-extend");
                        let u = self.fresh("v");
                        let parts: Vec<String> = fs[..fs.len() - 1]
                            .iter()
                            .zip(&refs)
                            .map(|((l, _), e)| field_text(l, e))
                            .collect();
                        // the base needs at least the brackets even when it has no fields left
                        let base = match (name, parts.is_empty()) {
                            (Some(n), true) => n.clone(),
                            _ => tuple_text(name, &parts),
                        };
                        self.push(format!("{u} = {base}"));
                        let (l, _) = fs.last().unwrap();
                        self.push(format!("{v} = {u}[..., {}]", field_text(l, refs.last().unwrap())));
                    }
                    6 => {
                        // spread with renaming: same fields under another name, then re-named
                        self.path("tuple-spread-rename");
                        let u = self.fresh("v");
                        let parts: Vec<String> =
                            fs.iter().zip(&refs).map(|((l, _), e)| field_text(l, e)).collect();
                        let other = Some("Zz".to_string());
                        self.push(format!("{u} = {}", tuple_text(&other, &parts)));
                        match name {
                            Some(n) => self.push(format!("{v} = {n}[...{u}]")),
                            None => self.push(format!("{v} = [...{u}]")),
                        }
                    }
                    7 if fs.iter().all(|(_, f)| f.literal_pattern().is_some()) => {
                        // whole value imported from a module (evaluated at compile time)
                        self.path("tuple-module-value");
                        let m = self.fresh("mt");
                        let lit = s.literal_pattern().unwrap();
                        self.modules.insert(vec![m.clone()], format!("[val: {lit}]"));
                        self.push(format!("{m} = %{m}"));
                        self.push(format!("{v} = {m}.val"));
                    }
                    _ => {
                        // built by a function imported from a module (other compilation unit)
                        self.path("tuple-module-function");
                        let m = self.fresh("mf");
                        let tvars: Vec<String> = (0..fs.len()).map(|i| format!("'t{i}")).collect();
                        let binders: Vec<String> = (0..fs.len()).map(|i| format!("a{i}")).collect();
                        let parts: Vec<String> = fs
                            .iter()
                            .enumerate()
                            .map(|(i, (l, _))| field_text(l, &format!("&a{i}")))
                            .collect();
                        let src = if fs.len() == 1 {
                            format!("[mk: #<'t0>'t0 {{ =a0, {} }}]", tuple_text(name, &parts))
                        } else {
                            format!(
                                "[mk: #<{}>[{}] {{ =[{}], {} }}]",
                                tvars.join(", "),
                                tvars.join(", "),
                                binders.join(", "),
                                tuple_text(name, &parts)
                            )
                        };
                        self.modules.insert(vec![m.clone()], src);
                        self.push(format!("{m} = %{m}"));
                        if fs.len() == 1 {
                            self.push(format!("{v} = {} {m}.mk", refs[0]));
                        } else {
                            self.push(format!("{v} = [{}] {m}.mk", refs.join(", ")));
                        }
                    }
                }
            }
        }
        v
    }

    /// The program cut into `k` REPL inputs (statement boundaries drawn from `r`): the tuple table
    /// grows and the canonical table is recomputed between the construction of the two values.
    /// Only for programs without typed messages (`me = &.` must share a line with its receives).
    pub fn chunks(&self, result: &str, k: usize, r: &mut Rng) -> Vec<String> {
        let mut cuts: Vec<usize> = (0..k.saturating_sub(1)).map(|_| 1 + r.usize(self.stmts.len().max(2) - 1)).collect();
        cuts.sort();
        cuts.dedup();
        let mut out = vec![];
        let mut start = 0;
        for c in cuts {
            if c > start && c < self.stmts.len() {
                out.push(self.stmts[start..c].join("\n"));
                start = c;
            }
        }
        let mut last = self.stmts[start..].join("\n");
        last.push('\n');
        last.push_str(result);
        out.push(last);
        out
    }

    /// Full source text.
    pub fn source(&self, result: &str) -> String {
        let mut out = String::new();
        if self.uses_me {
            let mut ts = self.msg_types.clone();
            ts.sort();
            ts.dedup();
            out.push_str(&format!("'msg = {}\n", ts.join(" | ")));
            out.push_str("'par = @'msg\n");
        }
        for a in &self.aliases {
            out.push_str(a);
            out.push('\n');
        }
        let mut stmts = self.stmts.clone();
        if self.uses_me {
            stmts.insert(0, "me = &.".to_string());
        }
        out.push_str(&stmts.join("\n"));
        out.push('\n');
        out.push_str(result);
        out
    }
}
