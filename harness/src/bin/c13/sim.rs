//! Minimal deterministic single-threaded driver of the REAL `Environment` + `Worker`s + `Repl`
//! (private to C13; `qverif::sim` is coordinator-owned and still a stub). The transport is a pair
//! of in-memory queues per worker; the schedule (which component steps next) is drawn from the
//! case's `Rng`, so worker placement / message interleavings vary with the seed but replay exactly.
use qverif::Rng;
use qverif::run::Builtins;
use quiver_compiler::PackageResolver;
use quiver_core::value::Value;
use quiver_environment::{
    Command, CommandReceiver, Environment, EnvironmentError, Event, EventSender, Repl, ReplError, RequestResult,
    Worker, WorkerHandle,
};
use quiver_io::NativeEffect;
use std::collections::{HashMap, VecDeque};
use std::sync::{Arc, Mutex};

type Q<T> = Arc<Mutex<VecDeque<T>>>;

pub struct Rx(Q<Command<NativeEffect>>);
pub struct Tx(Q<Event<NativeEffect>>);
pub struct Handle {
    cmd: Q<Command<NativeEffect>>,
    evt: Q<Event<NativeEffect>>,
}

impl CommandReceiver<NativeEffect> for Rx {
    fn try_recv(&mut self) -> Result<Option<Command<NativeEffect>>, EnvironmentError> {
        Ok(self.0.lock().unwrap().pop_front())
    }
}
impl EventSender<NativeEffect> for Tx {
    fn send(&mut self, event: Event<NativeEffect>) -> Result<(), EnvironmentError> {
        self.0.lock().unwrap().push_back(event);
        Ok(())
    }
}
impl WorkerHandle<NativeEffect> for Handle {
    fn send(&mut self, command: Command<NativeEffect>) -> Result<(), EnvironmentError> {
        self.cmd.lock().unwrap().push_back(command);
        Ok(())
    }
    fn try_recv(&mut self) -> Result<Option<Event<NativeEffect>>, EnvironmentError> {
        Ok(self.evt.lock().unwrap().pop_front())
    }
}

pub struct Sys {
    pub env: Environment<NativeEffect>,
    pub workers: Vec<Worker<NativeEffect, Rx, Tx>>,
    pub repl: Repl<NativeEffect>,
    pub time_ms: u64,
    pub steps: u64,
}

#[derive(Debug)]
pub enum Eval {
    Value(Value, Vec<Vec<u8>>),
    NoValue,
    FrontError(String),
    RuntimeError(String),
    Timeout,
    EnvError(String),
}

impl Sys {
    pub fn new(n_workers: usize, b: &Builtins, modules: HashMap<Vec<String>, String>) -> Sys {
        let mut handles: Vec<Box<dyn WorkerHandle<NativeEffect>>> = vec![];
        let mut workers = vec![];
        for i in 0..n_workers {
            let cmd: Q<Command<NativeEffect>> = Arc::new(Mutex::new(VecDeque::new()));
            let evt: Q<Event<NativeEffect>> = Arc::new(Mutex::new(VecDeque::new()));
            workers.push(Worker::new(Rx(cmd.clone()), Tx(evt.clone()), b.clone(), false, i as u16));
            handles.push(Box::new(Handle { cmd, evt }));
        }
        let mut env = Environment::<NativeEffect>::new(handles);
        let repl = Repl::new(&mut env, Box::new(PackageResolver::memory(modules)), b.clone()).expect("repl");
        Sys { env, workers, repl, time_ms: 0, steps: 0 }
    }

    /// One scheduling decision: the environment or one worker (drawn from `r`) steps.
    fn tick(&mut self, r: &mut Rng) -> Result<bool, String> {
        self.steps += 1;
        let n = self.workers.len() as u64;
        let k = r.below(n + 1);
        if k == n {
            self.env.step().map_err(|e| format!("{e:?}"))
        } else {
            self.workers[k as usize].step(self.time_ms).map_err(|e| format!("{e:?}"))
        }
    }

    fn poll(&mut self, id: u64, r: &mut Rng, budget: u64) -> Result<Option<RequestResult>, String> {
        let mut idle = 0u64;
        for _ in 0..budget {
            let did = self.tick(r)?;
            if did {
                idle = 0;
            } else {
                idle += 1;
                if idle > 64 {
                    // everyone idle: let (virtual) time pass so timeouts can fire
                    self.time_ms += 1;
                }
            }
            match self.env.poll_request(id) {
                Ok(Some(res)) => return Ok(Some(res)),
                Ok(None) => {}
                Err(e) => return Err(format!("{e:?}")),
            }
            if idle > 4000 {
                return Ok(None);
            }
        }
        Ok(None)
    }

    /// Evaluate a program; leading type-alias lines (`'name = …`) are evaluated one by one first,
    /// as separate REPL inputs (aliases used inside function bodies must already be bound).
    pub fn evaluate(&mut self, src: &str, r: &mut Rng, budget: u64) -> Eval {
        let mut rest = src;
        while rest.starts_with('\'') {
            let (line, tail) = rest.split_once('\n').unwrap_or((rest, ""));
            match self.evaluate_one(line, r, budget) {
                Eval::NoValue | Eval::Value(..) => {}
                other => return other,
            }
            rest = tail;
        }
        self.evaluate_one(rest, r, budget)
    }

    /// Evaluate several REPL inputs in sequence (bindings persist); the value of the last one counts.
    pub fn evaluate_chunks(&mut self, chunks: &[String], r: &mut Rng, budget: u64) -> Eval {
        let mut last = Eval::NoValue;
        for c in chunks {
            last = self.evaluate(c, r, budget);
            match last {
                Eval::Value(..) | Eval::NoValue => {}
                _ => return last,
            }
        }
        last
    }

    fn evaluate_one(&mut self, src: &str, r: &mut Rng, budget: u64) -> Eval {
        let tid = match self.env.request_process_types() {
            Ok(t) => t,
            Err(e) => return Eval::EnvError(format!("{e:?}")),
        };
        let types = match self.poll(tid, r, budget) {
            Ok(Some(RequestResult::ProcessTypes(t))) => t,
            Ok(Some(_)) => return Eval::EnvError("unexpected result kind for process types".into()),
            Ok(None) => return Eval::Timeout,
            Err(e) => return Eval::EnvError(e),
        };
        match self.repl.evaluate(&mut self.env, src, types) {
            Ok(Some(id)) => match self.poll(id, r, budget) {
                Ok(Some(RequestResult::Result(Ok((v, heap)), _))) => Eval::Value(v, heap),
                Ok(Some(RequestResult::Result(Err(e), _))) => Eval::RuntimeError(qverif::canon::error_class(&e)),
                Ok(Some(_)) => Eval::EnvError("unexpected result kind".into()),
                Ok(None) => Eval::Timeout,
                Err(e) => Eval::EnvError(e),
            },
            Ok(None) => Eval::NoValue,
            Err(ReplError::Parser(e)) => Eval::FrontError(format!("parse: {e:?}")),
            Err(ReplError::Compiler(e)) => Eval::FrontError(format!("compile: {e:?}")),
            Err(ReplError::Runtime(e)) => Eval::RuntimeError(qverif::canon::error_class(&e)),
            Err(ReplError::Environment(e)) => Eval::EnvError(format!("{e:?}")),
        }
    }
}
