//! C09 — assignability implies containment; overlap detection is complete; narrowing never drops
//! a value that can occur.
//!
//! Per case a table of closed contractive types is built through the PUBLIC registration API
//! (`Program::register_type/register_tuple`), biased to near-misses. Then
//!   * correspondence: `quiver_core::types::{is_compatible, types_overlap}` on ALL ordered pairs
//!     of type ids of the table vs the model's `checkRel` (driver `qm_c09`);
//!     `quiver_compiler::compiler::verif::{intersect_types, compute_complement}` and
//!     `quiver_compiler::compiler::union_type_ids` on sampled pairs vs the model, compared
//!     structurally (canonical rendering of the result type);
//!   * oracle on the implementation's verdicts: semantic containment / overlap / no-value-dropped
//!     judged by exhaustive `inhB` over the model's `enumVals` (the meaning of types is defined in
//!     Lean, Core/Types/Inh.lean), reflexivity, transitivity on all triples of closed ids.
use qverif::{Ev, Opts, Rng, catch};
use quiver_core::program::Program;
use quiver_core::types::{is_compatible, types_overlap};
use serde_json::{Value as J, json};
use std::collections::BTreeSet;

#[path = "../tygen.rs"]
mod tygen;
use tygen::*;

thread_local! {
    /// (request, table) of model requests that timed out — reported at the end of the run
    static MODEL_TIMEOUTS: std::cell::RefCell<Vec<(String, String)>> = std::cell::RefCell::new(vec![]);
    static LAST_TABLE: std::cell::RefCell<String> = std::cell::RefCell::new(String::new());
    static TIMES: std::cell::RefCell<std::collections::BTreeMap<String, (u64, f64)>> = std::cell::RefCell::new(Default::default());
}

/// `model.ask` with per-request-kind timing (printed into the evidence as `model_time_s`).
fn ask(model: &mut TModel, line: &str) -> String {
    let t0 = std::time::Instant::now();
    let out = model.ask(line);
    let dt = t0.elapsed().as_secs_f64();
    if out == "model-timeout" {
        MODEL_TIMEOUTS.with(|t| t.borrow_mut().push((line[..line.len().min(160)].to_string(), model.table_line.clone())));
    }
    if dt > 2.0 && std::env::var("C09_DUMP").is_ok() {
        eprintln!("[slow {dt:.1}s] {}", &line[..line.len().min(200)]);
        LAST_TABLE.with(|t| eprintln!("    table: {}", t.borrow()));
    }
    if line.starts_with("(table") {
        LAST_TABLE.with(|t| *t.borrow_mut() = line.to_string());
    }
    let kind: String = line.trim_start_matches('(').split(' ').take(if line.starts_with("(matrix") || line.starts_with("(keeps") || line.starts_with("(witness") { 2 } else { 1 }).collect::<Vec<_>>().join(" ").trim_end_matches(')').to_string();
    TIMES.with(|t| {
        let mut t = t.borrow_mut();
        let e = t.entry(kind).or_insert((0, 0.0));
        e.0 += 1;
        e.1 += dt;
    });
    out
}

const EFUEL: usize = 10;
const WIDTH: usize = 3;

struct Case {
    program: Program,
    pool: Vec<(usize, Tm)>,
    /// (id, id of the root it is a near-miss of)
    related: Vec<(usize, usize)>,
    stream: &'static str,
}

fn gen_case(r: &mut Rng) -> Case {
    let k = r.below(100);
    let (stream, cfg) = if k < 62 {
        ("closed", GenCfg { open: false, higher: true, cycles: true })
    } else if k < 88 {
        ("first-order", GenCfg { open: false, higher: false, cycles: false })
    } else {
        ("open", GenCfg { open: true, higher: true, cycles: true })
    };
    let mut program = Program::new();
    let n_roots = [1usize, 2, 3, 4, 5, 6, 6, 7, 8, 8, 9, 10, 12][r.usize(13)];
    let mut pool: Vec<(usize, Tm)> = vec![];
    let mut related: Vec<(usize, usize)> = vec![];
    let mut tries = 0;
    while pool.len() < n_roots && tries < 90 {
        tries += 1;
        let mut parent: Option<usize> = None;
        let tm = if !pool.is_empty() && r.chance(45, 100) {
            let (pid, base) = pool[r.usize(pool.len())].clone();
            parent = Some(pid);
            let mut m = mutate(&base, r);
            if r.chance(1, 4) {
                m = mutate(&m, r);
            }
            m
        } else if cfg.cycles && r.chance(1, 4) {
            gen_recursive_template(r)
        } else {
            let depth = [1usize, 2, 2, 3, 3, 4][r.usize(6)];
            gen_tm(r, depth, &mut vec![], &cfg)
        };
        if tm.size() > 40 {
            continue;
        }
        // duplicate labels: only in the open (correspondence-only) stream
        if tm.has_dup_labels() && stream != "open" {
            continue;
        }
        let id = tm.register(&mut program);
        if !pool.iter().any(|(i, _)| *i == id) {
            pool.push((id, tm));
            if let Some(pid) = parent {
                related.push((id, pid));
            }
        }
    }
    Case { program, pool, related, stream }
}

fn impl_rel(tbl: &Tbl, a: usize, b: usize, any: bool) -> char {
    match catch(|| if any { types_overlap(a, b, tbl) } else { is_compatible(a, b, tbl) }) {
        Ok(true) => 't',
        Ok(false) => 'f',
        Err(_) => 'P',
    }
}


// ---------------------------------------------------------------------------------------------
// The implementation side runs in a CHILD process (`c09 --impl-server`): the recursive checker
// can overflow the stack (abort, not catchable) or hang; the parent then restarts the child and
// pins down the offending pair. Line protocol, tab-separated:
//   T <table> <names,…>                → ok
//   R all|any <a> <b>                  → t | f | P
//   M all|any <ids…> <mask>            → one char per ordered pair (mask '1' = skip → '?')
//   N intersect|complement <a> <b>     → ok <rid> (types <new>…) (tuples <new>…) | P <msg>
//   U <ids…>                           → ok <rid> (types <new>…) (tuples <new>…)
// ---------------------------------------------------------------------------------------------

fn impl_server_main() {
    use std::io::{BufRead, Write};
    qverif::quiet_panics();
    let stdin = std::io::stdin();
    let mut out = std::io::stdout();
    let mut names = Names::new();
    let mut tbl = Tbl::default();
    let mut program: Option<Program> = None;
    for line in stdin.lock().lines() {
        let Ok(line) = line else { break };
        let f: Vec<&str> = line.split('\t').collect();
        let ans: String = match f.first().copied() {
            Some("T") => {
                names = Names::new();
                for n in f.get(2).unwrap_or(&"").split(',').filter(|s| !s.is_empty()) {
                    names.id(n);
                }
                match Tbl::parse(f.get(1).unwrap_or(&""), &names) {
                    Some(t) => {
                        program = t.to_program();
                        tbl = t;
                        "ok".into()
                    }
                    None => "bad-table".into(),
                }
            }
            Some("R") => {
                let (a, b): (usize, usize) = (f[2].parse().unwrap_or(0), f[3].parse().unwrap_or(0));
                impl_rel(&tbl, a, b, f[1] == "any").to_string()
            }
            Some("M") => {
                let ids: Vec<usize> = f[2].split(' ').filter_map(|x| x.parse().ok()).collect();
                let mask: Vec<char> = f.get(3).unwrap_or(&"").chars().collect();
                let k = ids.len();
                let mut s = String::with_capacity(k * k);
                for (x, &a) in ids.iter().enumerate() {
                    for (y, &b) in ids.iter().enumerate() {
                        if mask.get(x * k + y) == Some(&'1') {
                            s.push('?');
                        } else {
                            s.push(impl_rel(&tbl, a, b, f[1] == "any"));
                        }
                    }
                }
                s
            }
            Some("N") | Some("U") => match &program {
                None => "no-program".into(),
                Some(p) => {
                    let mut p2 = p.clone();
                    let res = if f[0] == "N" {
                        let (a, b): (usize, usize) = (f[2].parse().unwrap_or(0), f[3].parse().unwrap_or(0));
                        let op = f[1].to_string();
                        catch(|| {
                            if op == "intersect" {
                                quiver_compiler::compiler::verif::intersect_types(a, b, &mut p2)
                            } else {
                                quiver_compiler::compiler::verif::compute_complement(a, b, &mut p2)
                            }
                        })
                    } else {
                        let ids: Vec<usize> = f[1].split(' ').filter_map(|x| x.parse().ok()).collect();
                        catch(|| quiver_compiler::compiler::union_type_ids(&mut p2, ids))
                    };
                    match res {
                        Ok(rid) => {
                            let t2 = Tbl::of_program(&p2);
                            let mut n2 = names.clone();
                            format!("ok {rid} {}", entries_sx(&t2.types[tbl.types.len()..], &t2.tuples[tbl.tuples.len()..], &mut n2))
                        }
                        Err(m) => format!("P {}", m.lines().next().unwrap_or("")),
                    }
                }
            },
            _ => "bad-request".into(),
        };
        let _ = writeln!(out, "{ans}");
        let _ = out.flush();
    }
}

struct ImplServer {
    child: std::process::Child,
    stdin: std::process::ChildStdin,
    rx: std::sync::mpsc::Receiver<String>,
    table_line: String,
    pub restarts: u64,
    /// requests that got no answer within their time limit (each costs the limit: after a few
    /// of them the affected operation is no longer requested in this run — the hangs are reported)
    pub hangs: u64,
}

/// why a request got no answer
#[derive(Clone, Copy, Debug, PartialEq, Eq)]
enum Dead {
    Crash,
    Hang,
}

impl Dead {
    fn text(&self) -> &'static str {
        match self {
            Dead::Crash => "the process aborts (stack overflow)",
            Dead::Hang => "no answer within the time limit",
        }
    }
}

impl ImplServer {
    fn spawn_child() -> (std::process::Child, std::process::ChildStdin, std::sync::mpsc::Receiver<String>) {
        use std::io::BufRead;
        let exe = std::env::current_exe().expect("current_exe");
        let mut child = std::process::Command::new(exe)
            .arg("--impl-server")
            .stdin(std::process::Stdio::piped())
            .stdout(std::process::Stdio::piped())
            .stderr(std::process::Stdio::null())
            .spawn()
            .expect("spawn impl server");
        let stdin = child.stdin.take().unwrap();
        let stdout = child.stdout.take().unwrap();
        let (tx, rx) = std::sync::mpsc::channel();
        std::thread::spawn(move || {
            let rd = std::io::BufReader::new(stdout);
            for l in rd.lines() {
                let Ok(l) = l else { break };
                if tx.send(l).is_err() {
                    break;
                }
            }
        });
        (child, stdin, rx)
    }
    fn new() -> ImplServer {
        let (child, stdin, rx) = Self::spawn_child();
        ImplServer { child, stdin, rx, table_line: String::new(), restarts: 0, hangs: 0 }
    }
    fn restart(&mut self) {
        let _ = self.child.kill();
        let _ = self.child.wait();
        let (child, stdin, rx) = Self::spawn_child();
        self.child = child;
        self.stdin = stdin;
        self.rx = rx;
        self.restarts += 1;
        if !self.table_line.is_empty() {
            let l = self.table_line.clone();
            let _ = self.raw(&l, 30);
        }
    }
    fn raw(&mut self, line: &str, timeout_s: u64) -> Result<String, Dead> {
        use std::io::Write;
        if self.stdin.write_all(line.as_bytes()).is_err() || self.stdin.write_all(b"\n").is_err() || self.stdin.flush().is_err() {
            return Err(Dead::Crash);
        }
        match self.rx.recv_timeout(std::time::Duration::from_secs(timeout_s)) {
            Ok(l) => Ok(l),
            Err(std::sync::mpsc::RecvTimeoutError::Timeout) => Err(Dead::Hang),
            Err(std::sync::mpsc::RecvTimeoutError::Disconnected) => Err(Dead::Crash),
        }
    }
    /// send a request; on death restart the child (table re-sent) and report why
    fn request(&mut self, line: &str, timeout_s: u64) -> Result<String, Dead> {
        match self.raw(line, timeout_s) {
            Ok(l) => Ok(l),
            Err(d) => {
                if d == Dead::Hang {
                    self.hangs += 1;
                }
                self.restart();
                Err(d)
            }
        }
    }
    fn set_table(&mut self, tbl: &Tbl) -> Names {
        let mut names = Names::new();
        let sx = tbl.sx(&mut names);
        self.table_line = format!("T\t{sx}\t{}", names.names.join(","));
        let l = self.table_line.clone();
        if self.request(&l, 30).is_err() {
            // restart() already re-sent it
        }
        names
    }
    fn rel(&mut self, a: usize, b: usize, any: bool) -> Result<char, Dead> {
        self.request(&format!("R\t{}\t{a}\t{b}", if any { "any" } else { "all" }), 10).map(|s| s.chars().next().unwrap_or('?'))
    }
    /// all ordered pairs of `ids` (row-major); `skip[i]` = do not call the implementation there.
    /// A pair on which the child dies is marked '!' (abort) or 'H' (hang); after `max_deaths`
    /// deaths the remaining pairs of this matrix stay '?'.
    fn matrix(&mut self, ids: &[usize], any: bool, skip: &[bool], max_deaths: usize) -> Vec<char> {
        let k = ids.len();
        let idl = ids.iter().map(|i| i.to_string()).collect::<Vec<_>>().join(" ");
        let mask: String = skip.iter().map(|s| if *s { '1' } else { '0' }).collect();
        let mode = if any { "any" } else { "all" };
        if self.restarts > 400 {
            // too many deaths in this run: stop asking (everything so far has been reported)
            return vec!['?'; k * k];
        }
        if let Ok(s) = self.request(&format!("M\t{mode}\t{idl}\t{mask}"), 20) {
            let v: Vec<char> = s.chars().collect();
            if v.len() == k * k {
                return v;
            }
        }
        // the child died somewhere in this matrix: go pair by pair
        let mut out = vec!['?'; k * k];
        let mut deaths = 0;
        for x in 0..k {
            for y in 0..k {
                if skip[x * k + y] || deaths >= max_deaths {
                    continue;
                }
                match self.rel(ids[x], ids[y], any) {
                    Ok(c) => out[x * k + y] = c,
                    Err(Dead::Crash) => {
                        out[x * k + y] = '!';
                        deaths += 1;
                    }
                    Err(Dead::Hang) => {
                        out[x * k + y] = 'H';
                        deaths += 1;
                    }
                }
            }
        }
        out
    }
}

impl Drop for ImplServer {
    fn drop(&mut self) {
        let _ = self.child.kill();
        let _ = self.child.wait();
    }
}

/// does the sub-graph reachable from `roots` contain a `Cycle` node?
fn reach_has_cycle(tbl: &Tbl, roots: &[usize]) -> bool {
    let (ty, _) = tbl.reachable(roots);
    ty.iter().any(|i| tbl.kind(*i) == "cycle")
}

/// declared type ids of the function / process values inside a rendered value
fn declared_ids(value: &str) -> Vec<usize> {
    let mut out = vec![];
    for pat in ["(f ", "(p "] {
        let mut rest = value;
        while let Some(i) = rest.find(pat) {
            let tail = &rest[i + pat.len()..];
            let num: String = tail.chars().take_while(|c| c.is_ascii_digit()).collect();
            if let Ok(n) = num.parse() {
                out.push(n);
            }
            rest = tail;
        }
    }
    out
}

/// Diagnostic for an unsound `true` / a non-transitive triple on recursive types (none is known since
/// ecfc5db; a hit is a violation either way — this only says where to look). The verdicts are
/// recomputed (model of the code as it is) on the tree unfolding of the table, where every occurrence
/// of a type has an id of its own: coinductive assumptions (and the tuple-id fast path) are keyed by
/// the two ids alone, so a pair first met below one list of enclosing types would be taken for settled
/// when the same ids are met again below another list. The unfolding does not change what the roots
/// mean; `true` when one of `pairs` is refused there.
fn mech_id_sharing(tbl: &Tbl, model: &mut TModel, names: &mut Names, pairs: &[(usize, usize)]) -> bool {
    let mut roots: Vec<usize> = vec![];
    for (a, b) in pairs {
        for x in [*a, *b] {
            if !roots.contains(&x) {
                roots.push(x);
            }
        }
    }
    let Some((ut, img)) = tbl.unshare(&roots, 600) else { return false };
    let image = |x: usize| img[roots.iter().position(|r| *r == x).unwrap()];
    let mut flipped = false;
    if ask(model, &ut.sx(names)).starts_with("ok ") {
        for (a, b) in pairs {
            flipped |= ask(model, &format!("(matrix compat {} {})", image(*a), image(*b))).chars().nth(1) == Some('f');
        }
    }
    // back to the table under test
    ask(model, &tbl.sx(names));
    flipped
}

fn variants_of(tbl: &Tbl, id: usize) -> Vec<usize> {
    match tbl.types.get(id) {
        Some(quiver_core::types::Type::Union(v)) => v.clone(),
        Some(_) => vec![id],
        None => vec![],
    }
}

/// Mechanism of a dropped value in `compute_complement` / `intersect_types` on recursive types
/// (notes/C09.md R3). Each test is a necessary condition of the named mechanism, evaluated on the
/// sub-graphs reachable from the two operands.
fn mech_narrow(tbl: &Tbl, op: &str, a: usize, b: usize) -> Option<&'static str> {
    use quiver_core::types::Type;
    let (ra, rua) = tbl.reachable(&[a]);
    let (rb, rub) = tbl.reachable(&[b]);
    let tuple_type_ids = |r: &BTreeSet<usize>| -> Vec<usize> { r.iter().copied().filter(|i| tbl.kind(*i) == "tuple").collect() };
    let _ = (&rua, &rub);
    let (ta, tb) = (tuple_type_ids(&ra), tuple_type_ids(&rb));
    let info = |id: usize| match tbl.types.get(id) {
        Some(Type::Tuple(t)) => tbl.tuples.get(*t),
        _ => None,
    };
    // (i) labels ignored by the structural tuple difference: repaired by e0ad7de (regression corpus)
    // (v) the operation rebuilds a tuple around a narrowed cyclic union: the `^` of the variants kept
    // inside re-bind to the narrowed union, and a union narrowed to one variant loses its boundary
    for &x in &ta {
        for &y in &tb {
            if let (Some(ia), Some(ib)) = (info(x), info(y)) {
                if x != y && ia.name == ib.name && ia.fields.len() == ib.fields.len() {
                    for k in 0..ia.fields.len() {
                        let (f1, f2) = (ia.fields[k].1, ib.fields[k].1);
                        // (intersect_types does not shortcut on equal ids: it re-unions the pieces,
                        // dropping `never` variants, so even an identical field union is rebuilt)
                        if (f1 != f2 || op == "intersect") && tbl.kind(f1) == "union" && reach_has_cycle(tbl, &[f1]) {
                            return Some("narrow=inner-cyclic-union-rebuilt");
                        }
                    }
                }
            }
        }
    }
    // (vi) R8 (the partial-vs-partial arm copying a back-reference out of its union) is fixed by 7120dc6:
    // the arm is not taken when an operand contains a `Cycle`, so no generated pair can show it any
    // more; the corpus entries R8a / R8b report a regression under its signature.
    // (v) the same through the partial-vs-partial arm of intersect_pair (notes/C02-fixes/15): a field both
    // partial types name is intersected field-wise, which rebuilds a cyclic field union
    if op == "intersect" {
        let parts = |r: &BTreeSet<usize>| -> Vec<Vec<(String, usize)>> {
            r.iter().filter_map(|i| match tbl.types.get(*i) { Some(Type::Partial { fields, .. }) => Some(fields.clone()), _ => None }).collect()
        };
        for f1 in parts(&ra) {
            for f2 in parts(&rb) {
                for (l1, t1) in &f1 {
                    if f2.iter().any(|(l2, _)| l2 == l1) && tbl.kind(*t1) == "union" && reach_has_cycle(tbl, &[*t1]) {
                        return Some("narrow=inner-cyclic-union-rebuilt");
                    }
                }
            }
        }
    }
    // (iv) a nested union with cycles inside is flattened by union_type_ids
    if variants_of(tbl, a).iter().chain(variants_of(tbl, b).iter()).any(|x| matches!(tbl.types.get(*x), Some(Type::Union(_))) && reach_has_cycle(tbl, &[*x])) {
        return Some("union=flatten-changes-cycle-depth");
    }
    if op == "complement" {
        // (iii) contains_cycle ignoring callable / process children: repaired by 9604765
        // (ii) an id with free cycles (a bare `^`, or a variant containing one) is reachable from
        // both operands and subtracted as "the same type" (`a == b => []`) although its cycles
        // point into two different unions
        let open_shared = ra.iter().any(|i| rb.contains(i) && a != b && reach_has_cycle(tbl, &[*i]));
        if open_shared {
            return Some("subtract=free-cycle-ids-identified-across-unions");
        }
    }
    None
}

/// `(v <value>)` → `<value>`
fn unwrap_v(w: &str) -> &str {
    let w = w.strip_prefix("(v ").unwrap_or(w);
    w.strip_suffix(')').unwrap_or(w)
}

/// one side of a diagnosed pair: a type id and the boundaries enclosing it (top first)
#[derive(Clone, Debug)]
struct Side {
    id: usize,
    st: Vec<usize>,
}

impl Side {
    /// unfold `Cycle` nodes (de Bruijn, as `inhB` does)
    fn resolve(mut self, tbl: &Tbl) -> Option<Side> {
        for _ in 0..8 {
            match tbl.types.get(self.id) {
                Some(quiver_core::types::Type::Cycle(d)) => {
                    if *d == 0 || *d > self.st.len() {
                        return None;
                    }
                    self.id = self.st[*d - 1];
                    self.st = self.st[*d..].to_vec();
                }
                _ => return Some(self),
            }
        }
        None
    }
    fn child(&self, tbl: &Tbl, id: usize, boundary: bool) -> Option<Side> {
        let mut st = self.st.clone();
        if boundary {
            st.insert(0, self.id);
        }
        Side { id, st }.resolve(tbl)
    }
}

/// structural class of what fails: descend along the witness to the innermost pair of types on
/// which the implementation's (top-level) verdict is still wrong, and name the two node kinds.
fn diagnose(tbl: &Tbl, model: &mut TModel, a: usize, b: usize, witness: &str, any: bool) -> String {
    use quiver_core::types::Type;
    let Some(v) = Sx::parse(witness).and_then(|x| x.into_iter().next()) else {
        return format!("{}-vs-{}", tbl.kind(a), tbl.kind(b));
    };
    let mut a = Side { id: a, st: vec![] };
    let mut b = Side { id: b, st: vec![] };
    let mut v = v;
    let inh = |model: &mut TModel, t: &Side, v: &Sx| {
        let st = t.st.iter().map(|i| format!(" {i}")).collect::<String>();
        ask(model, &format!("(inh {} {}{st})", t.id, v.render())) == "true"
    };
    // is the implementation's verdict on (x, y) wrong *because of v*?
    let wrong = |x: &Side, y: &Side, v: &Sx, model: &mut TModel| -> bool {
        // the model's verdict stands in for the implementation's here (they were compared on
        // every pair already; the model cannot overflow the stack on a non-terminating pair)
        if any {
            ask(model, &format!("(overlap {} {})", x.id, y.id)) == "false" && inh(model, x, v) && inh(model, y, v)
        } else {
            ask(model, &format!("(compat {} {})", x.id, y.id)) == "true" && inh(model, x, v) && !inh(model, y, v)
        }
    };
    // value fields: items[2..], each `(label value)`
    let vfields = |v: &Sx| -> Vec<(String, Sx)> {
        v.list()
            .map(|items| {
                items.iter().skip(2).filter_map(|f| {
                    let l = f.list()?;
                    Some((l.first()?.atom()?.to_string(), l.get(1)?.clone()))
                }).collect()
            })
            .unwrap_or_default()
    };
    let mut names = Names::new();
    // labels are interned in table order by `Tbl::sx`; recompute the same interning
    let _ = tbl.sx(&mut names);
    for _ in 0..24 {
        let (ta, tb) = (tbl.types.get(a.id).cloned(), tbl.types.get(b.id).cloned());
        let mut next: Option<(Side, Side, Sx)> = None;
        if let Some(Type::Union(vs)) = &ta {
            for &x in vs {
                if let Some(xs) = a.child(tbl, x, true) {
                    if wrong(&xs, &b, &v, model) {
                        next = Some((xs, b.clone(), v.clone()));
                        break;
                    }
                }
            }
        }
        if next.is_none() {
            if let Some(Type::Union(vs)) = &tb {
                for &y in vs {
                    if let Some(ys) = b.child(tbl, y, true) {
                        if wrong(&a, &ys, &v, model) {
                            next = Some((a.clone(), ys, v.clone()));
                            break;
                        }
                    }
                }
            }
        }
        if next.is_none() {
            // field-wise descent: pairs of (field type of a, field type of b, sub-value)
            let fv = vfields(&v);
            let mut cands: Vec<(usize, usize, Sx)> = vec![];
            match (&ta, &tb) {
                (Some(Type::Tuple(i)), Some(Type::Tuple(j))) => {
                    if let (Some(ia), Some(ib)) = (tbl.tuples.get(*i), tbl.tuples.get(*j)) {
                        if ia.fields.len() == ib.fields.len() && fv.len() == ia.fields.len() {
                            for k in 0..ia.fields.len() {
                                cands.push((ia.fields[k].1, ib.fields[k].1, fv[k].1.clone()));
                            }
                        }
                    }
                }
                (Some(Type::Partial { fields: f1, .. }), Some(Type::Partial { fields: f2, .. })) => {
                    for (l1, t1) in f1 {
                        for (l2, t2) in f2 {
                            if l1 == l2 {
                                let lab = names.id(l1).to_string();
                                for (l, sv) in &fv {
                                    if *l == lab {
                                        cands.push((*t1, *t2, sv.clone()));
                                    }
                                }
                            }
                        }
                    }
                }
                (Some(Type::Tuple(i)), Some(Type::Partial { fields: pf, .. })) => {
                    if let Some(ia) = tbl.tuples.get(*i) {
                        if fv.len() == ia.fields.len() {
                            for (k, (l, t)) in ia.fields.iter().enumerate() {
                                for (pl, pt) in pf {
                                    if l.as_ref() == Some(pl) {
                                        cands.push((*t, *pt, fv[k].1.clone()));
                                    }
                                }
                            }
                        }
                    }
                }
                (Some(Type::Partial { fields: pf, .. }), Some(Type::Tuple(j))) => {
                    if let Some(ib) = tbl.tuples.get(*j) {
                        if fv.len() == ib.fields.len() {
                            for (k, (l, t)) in ib.fields.iter().enumerate() {
                                for (pl, pt) in pf {
                                    if l.as_ref() == Some(pl) {
                                        cands.push((*pt, *t, fv[k].1.clone()));
                                    }
                                }
                            }
                        }
                    }
                }
                _ => {}
            }
            for (x, y, sv) in cands {
                if let (Some(xs), Some(ys)) = (a.child(tbl, x, false), b.child(tbl, y, false)) {
                    if wrong(&xs, &ys, &sv, model) {
                        next = Some((xs, ys, sv));
                        break;
                    }
                }
            }
        }
        match next {
            Some((x, y, w)) => {
                a = x;
                b = y;
                v = w;
            }
            None => break,
        }
    }
    format!("{}-vs-{}", tbl.kind(a.id), tbl.kind(b.id))
}

/// `ev.violation` + a counter per signature (so the evidence shows every distinct signature).
fn report(ev: &mut Ev, sig: &str, what: &str, replay: J, found: bool) {
    if std::env::var("C09_DUMP").is_ok() && !ev.counters.contains_key(&format!("report:{sig}")) {
        eprintln!("[{sig}] {what}\n    {} roots {} {}", replay["table"].as_str().unwrap_or(""), replay["roots"], replay["detail"]["witness"]);
    }
    ev.hit(&format!("report:{sig}"));
    ev.violation(sig, what, replay, found);
}

fn replay_json(tbl: &Tbl, roots: &[usize], extra: J) -> J {
    // the declared types of the function / process values of a witness are part of the input: they
    // are kept in the sub-table, and the witness is re-indexed with it
    let mut extra = extra;
    let mut all: Vec<usize> = roots.to_vec();
    for key in ["witness", "dropped"] {
        if let Some(w) = extra[key].as_str() {
            for d in declared_ids(w) {
                if !all.contains(&d) && d < tbl.types.len() {
                    all.push(d);
                }
            }
        }
    }
    let (sub, img_all) = tbl.subtable(&all);
    for key in ["witness", "dropped"] {
        if let Some(w) = extra[key].as_str() {
            let mut out = w.to_string();
            for pat in ["(f ", "(p "] {
                let mut res = String::new();
                let mut rest = out.as_str();
                while let Some(i) = rest.find(pat) {
                    res.push_str(&rest[..i + pat.len()]);
                    let tail = &rest[i + pat.len()..];
                    let num: String = tail.chars().take_while(|c| c.is_ascii_digit()).collect();
                    match num.parse::<usize>().ok().and_then(|n| all.iter().position(|x| *x == n)) {
                        Some(k) => res.push_str(&img_all[k].to_string()),
                        None => res.push_str(&num),
                    }
                    rest = &tail[num.len()..];
                }
                res.push_str(rest);
                out = res;
            }
            extra[key] = json!(out);
        }
    }
    let img: Vec<usize> = img_all[..roots.len()].to_vec();
    let mut names = Names::new();
    let sx = sub.sx(&mut names);
    json!({
        "table": sx,
        "names": names.names,
        "roots": img,
        "shown": img.iter().map(|i| sub.show(*i)).collect::<Vec<_>>(),
        "detail": extra,
    })
}

/// run one table: correspondence + oracle. `pool` = ids generated as closed roots.
fn run_table(ev: &mut Ev, model: &mut TModel, srv: &mut ImplServer, program: &Program, pool: &[usize], related: &[(usize, usize)], stream: &str, case_key: &str, r: &mut Rng, narrow_pairs: usize) {
    let tbl = Tbl::of_program(program);
    let mut names = srv.set_table(&tbl);
    let ans = ask(model, &tbl.sx(&mut names));
    if !ans.starts_with("ok ") {
        report(ev, "driver=table-rejected", &format!("model driver rejected a table: {ans}"), json!({"broken": "driver protocol", "table": tbl.sx(&mut names)}), false);
        return;
    }
    if !ans.ends_with("ordered=true") {
        ev.hit("table:not-ordered");
    }
    // hypothesis of compat_trans_fo / compat_stateless_fo (partial types do not repeat a field name):
    // only tables of the `open` stream may violate it
    if ans.contains("distinct=false") {
        ev.hit(&format!("table:parts-not-distinct:{stream}"));
        if stream != "open" {
            ev.hit("generator:repeated-partial-label-outside-open-stream");
        }
    } else {
        ev.hit("table:parts-distinct");
    }
    let n = tbl.types.len();
    ev.hit(&format!("table-types:{}", if n <= 4 { "1-4" } else if n <= 8 { "5-8" } else if n <= 16 { "9-16" } else if n <= 32 { "17-32" } else { "33+" }));
    ev.hit(&format!("pool-size:{}", pool.len()));
    let classes: Vec<char> = ask(model, "(classes)").chars().collect();
    // ids for the all-pairs correspondence (all of them, capped)
    let mut ids: Vec<usize> = (0..n).collect();
    if ids.len() > 40 {
        let mut keep: BTreeSet<usize> = pool.iter().copied().collect();
        while keep.len() < 40 {
            keep.insert(r.usize(n));
        }
        ids = keep.into_iter().collect();
    }
    let idlist = ids.iter().map(|i| i.to_string()).collect::<Vec<_>>().join(" ");
    let m_compat: Vec<char> = ask(model, &format!("(matrix compat {idlist})")).chars().collect();
    let m_overlap: Vec<char> = ask(model, &format!("(matrix overlap {idlist})")).chars().collect();
    let k = ids.len();
    if m_compat.len() != k * k || m_overlap.len() != k * k {
        report(ev, "driver=matrix-malformed", "model driver answered a malformed matrix", json!({"broken": "driver protocol"}), false);
        return;
    }
    // the implementation runs in the child; pairs on which the model ran out of fuel are skipped
    // in the bulk request (expected not to terminate) and probed one by one below
    let skip_c: Vec<bool> = m_compat.iter().map(|c| *c == '?').collect();
    let skip_o: Vec<bool> = m_overlap.iter().map(|c| *c == '?').collect();
    let i_compat = srv.matrix(&ids, false, &skip_c, 4);
    let i_overlap = srv.matrix(&ids, true, &skip_o, 4);
    let mut fuel_probes = 0;
    for (x, &a) in ids.iter().enumerate() {
        for (y, &b) in ids.iter().enumerate() {
            for any in [false, true] {
                let m = if any { m_overlap[x * k + y] } else { m_compat[x * k + y] };
                let opname = if any { "types_overlap" } else { "is_compatible" };
                if m == '?' {
                    // the model ran out of fuel: ask the child whether the implementation terminates
                    ev.hit(&format!("{opname}:model-fuel-out"));
                    if fuel_probes >= 3 {
                        continue;
                    }
                    fuel_probes += 1;
                    match srv.rel(a, b, any) {
                        Err(d) => {
                            ev.hit(&format!("{opname}:impl-does-not-return-confirmed-in-child"));
                            // (the callable-arm loop R4 was repaired by 30aca33)
                            let sig = format!("nontermination:check_type_relation {}-vs-{}", tbl.kind(a), tbl.kind(b));
                            report(ev, &sig,
                                &format!("{opname}({}, {}) does not return ({}; the model runs out of fuel)", tbl.show(a), tbl.show(b), d.text()),
                                replay_json(&tbl, &[a, b], json!({"op": opname, "impl": d.text(), "model": "fuel-out"})), true);
                        }
                        Ok(c) => {
                            report(ev, &format!("corr={opname} model-fuel-out impl={c}"),
                                &format!("model ran out of fuel on {opname}({}, {}) but the implementation answers {c}", tbl.show(a), tbl.show(b)),
                                replay_json(&tbl, &[a, b], json!({"broken": format!("correspondence model<->impl on {opname} (model fuel exhausted, implementation terminates)"), "op": opname, "impl": c.to_string()})), false);
                        }
                    }
                    continue;
                }
                let i = if any { i_overlap[x * k + y] } else { i_compat[x * k + y] };
                if i == '?' {
                    ev.hit(&format!("{opname}:not-probed-after-child-deaths"));
                    continue;
                }
                if i == '!' || i == 'H' {
                    // the implementation does not return where the model of the code has a verdict
                    let d = if i == '!' { Dead::Crash } else { Dead::Hang };
                    ev.hit(&format!("{opname}:impl-does-not-return"));
                    report(ev, &format!("impl-no-answer:{opname} model={m} {}-vs-{}", tbl.kind(a), tbl.kind(b)),
                        &format!("{opname}({}, {}) does not return ({}); the model of the code answers {m}", tbl.show(a), tbl.show(b), d.text()),
                        replay_json(&tbl, &[a, b], json!({"op": opname, "impl": d.text(), "model": m.to_string(), "broken": format!("correspondence model<->impl on {opname}: the type checker crashes / hangs on this pair")})), true);
                    continue;
                }
                ev.hit(&format!("{opname}:{i}"));
                if a != b {
                    ev.hit(&format!("pair-kind:{}/{}", tbl.kind(a), tbl.kind(b)));
                }
                ev.case(&(case_key, a, b, any), a != b);
                if i == 'P' {
                    report(ev, &format!("{opname}=panic"), &format!("{opname} panics on ({}, {})", tbl.show(a), tbl.show(b)),
                        replay_json(&tbl, &[a, b], json!({"op": opname, "impl": "panic"})), true);
                } else if i != m {
                    // correspondence broken: look for a concrete failing input of the property
                    let closed = classes.get(a) != Some(&'x') && classes.get(b) != Some(&'x');
                    let mut found = false;
                    let mut what = format!("{opname}({}, {}) = {} but the model gives {}", tbl.show(a), tbl.show(b), i, m);
                    let mut detail = json!({"op": opname, "impl": i.to_string(), "model": m.to_string(), "broken": format!("correspondence model<->impl on {opname}")});
                    if closed && stream != "open" {
                        if !any && i == 't' {
                            let w = ask(model, &format!("(witness notin {a} {b} {EFUEL} {WIDTH})"));
                            if w != "none" {
                                found = true;
                                what = format!("is_compatible({}, {}) = true but the value {w} inhabits only the left type", tbl.show(a), tbl.show(b));
                                detail["witness"] = json!(w);
                            }
                        } else if any && i == 'f' {
                            let mut w = ask(model, &format!("(witness both {a} {b} {EFUEL} {WIDTH})"));
                            if w == "none" {
                                w = ask(model, &format!("(witness both {b} {a} {EFUEL} {WIDTH})"));
                            }
                            if w != "none" {
                                found = true;
                                what = format!("types_overlap({}, {}) = false but the value {w} inhabits both", tbl.show(a), tbl.show(b));
                                detail["witness"] = json!(w);
                            }
                        }
                    }
                    report(ev, &format!("corr={opname} impl={i} model={m} {}-vs-{}", tbl.kind(a), tbl.kind(b)), &what, replay_json(&tbl, &[a, b], detail), found);
                }
            }
        }
    }
    if stream == "open" {
        return;
    }
    // ---- oracle over closed ids (pool first) -------------------------------------------------
    let mut closed: Vec<usize> = pool.iter().copied().filter(|i| classes.get(*i) != Some(&'x')).collect();
    for &p in pool {
        if classes.get(p) == Some(&'x') {
            ev.hit("generator:pool-id-not-closed");
        }
    }
    for &i in &ids {
        if closed.len() >= 14 {
            break;
        }
        if classes.get(i) != Some(&'x') && !closed.contains(&i) {
            closed.push(i);
        }
    }
    let clist = closed.iter().map(|i| i.to_string()).collect::<Vec<_>>().join(" ");
    let sem: Vec<char> = ask(model, &format!("(sem {EFUEL} {WIDTH} {clist})")).chars().collect();
    let c = closed.len();
    if sem.len() != c * c {
        report(ev, "driver=sem-malformed", "model driver answered a malformed semantic matrix", json!({"broken": "driver protocol"}), false);
        return;
    }
    let pos = |id: usize| ids.iter().position(|x| *x == id);
    for (x, &a) in closed.iter().enumerate() {
        for (y, &b) in closed.iter().enumerate() {
            let (Some(px), Some(py)) = (pos(a), pos(b)) else { continue };
            let s = sem[x * c + y];
            ev.hit(&format!("sem:{s}"));
            let fo = classes.get(a) == Some(&'f') && classes.get(b) == Some(&'f');
            // recursive first-order (closed, no function / process component): compat_sound_rec_fo
            let rfo = matches!(classes.get(a), Some('f') | Some('r')) && matches!(classes.get(b), Some('f') | Some('r'));
            if rfo && !fo && i_compat[px * k + py] == 't' {
                ev.hit("oracle:compat-true-on-recursive-first-order-pair");
            }
            // reflexivity
            if a == b && i_compat[px * k + py] == 'f' {
                report(ev, "compat=not-reflexive", &format!("is_compatible({0}, {0}) = false", tbl.show(a)), replay_json(&tbl, &[a], json!({"op": "is_compatible"})), true);
            }
            // soundness of assignability
            if i_compat[px * k + py] == 't' && (s == 'o' || s == 'd') {
                let w = ask(model, &format!("(witness notin {a} {b} {EFUEL} {WIDTH})"));
                let cls = diagnose(&tbl, model, a, b, unwrap_v(&w), false);
                let w2 = w.clone();
                ev.hit("oracle:compat-unsound");
                let sig = if fo {
                    format!("compat-unsound:{cls}")
                } else if rfo {
                    // the theorem compat_sound_rec_fo says this cannot happen to the model of the code
                    format!("compat-unsound:{cls} (recursive first-order)")
                } else if mech_id_sharing(&tbl, model, &mut names, &[(a, b)]) {
                    "compat=assumption-reused-under-other-enclosing-types".to_string()
                } else {
                    format!("compat-unsound:{cls} (recursive/higher-order)")
                };
                report(ev, &sig,
                    &format!("is_compatible({}, {}) = true but the value {w2} inhabits only the left type", tbl.show(a), tbl.show(b)),
                    replay_json(&tbl, &[a, b], json!({"op": "is_compatible", "impl": "true", "witness": w, "class": cls, "first_order": fo})), true);
            }
            if i_compat[px * k + py] == 't' && s == 's' {
                ev.hit("oracle:compat-true-confirmed");
            }
            // completeness of overlap
            let sy = sem[y * c + x];
            if i_overlap[px * k + py] == 'f' && (s == 's' || s == 'o' || sy == 's' || sy == 'o') {
                let mut w = ask(model, &format!("(witness both {a} {b} {EFUEL} {WIDTH})"));
                if w == "none" {
                    w = ask(model, &format!("(witness both {b} {a} {EFUEL} {WIDTH})"));
                }
                let cls = diagnose(&tbl, model, a, b, unwrap_v(&w), true);
                ev.hit("oracle:overlap-incomplete");
                ev.hit(&format!("overlap-incomplete-innermost:{cls}"));
                let sig = if fo {
                    format!("overlap-incomplete:{cls}")
                } else if matches!(cls.as_str(), "fn-vs-fn" | "process-vs-process") || unwrap_v(&w).starts_with("(f ") || unwrap_v(&w).starts_with("(p ") {
                    // the innermost wrong pair is callable-vs-callable, or the common value itself is
                    // a function / process value (then the failing comparison is between callable
                    // types even if `diagnose`, which uses context-free verdicts, stopped earlier)
                    "overlap=callable-components-by-overlap".to_string()
                } else {
                    format!("overlap-incomplete:{cls} (recursive/higher-order)")
                };
                report(ev, &sig,
                    &format!("types_overlap({}, {}) = false but the value {w} inhabits both types", tbl.show(a), tbl.show(b)),
                    replay_json(&tbl, &[a, b], json!({"op": "types_overlap", "impl": "false", "witness": w, "class": cls, "first_order": fo})), true);
            }
            if i_overlap[px * k + py] == 'f' && s == 'd' {
                ev.hit("oracle:overlap-false-confirmed");
            }
        }
    }
    // the verdict must not depend on which occurrences of a type share an id: recomputed on the tree
    // unfolding of the table (every occurrence its own id; same meaning), pool roots only
    if stream == "closed" && reach_has_cycle(&tbl, pool) && r.chance(1, 3) {
        let roots: Vec<usize> = pool.iter().copied().filter(|i| closed.contains(i)).take(4).collect();
        if roots.len() >= 2 {
            if let Some((ut, img)) = tbl.unshare(&roots, 400) {
                let shared: Vec<char> = ask(model, &format!("(matrix compat {})", roots.iter().map(|i| i.to_string()).collect::<Vec<_>>().join(" "))).chars().collect();
                if ask(model, &ut.sx(&mut names)).starts_with("ok ") {
                    let un: Vec<char> = ask(model, &format!("(matrix compat {})", img.iter().map(|i| i.to_string()).collect::<Vec<_>>().join(" "))).chars().collect();
                    for (k, (x, y)) in shared.iter().zip(un.iter()).enumerate() {
                        if *x == '?' || *y == '?' {
                            ev.hit("unshare:fuel-out");
                        } else if x == y {
                            ev.hit(&format!("unshare:agree-{x}"));
                        } else if *x == 'f' {
                            // refused only because ids are shared: not a failure of the property
                            // (assignability is not claimed complete)
                            ev.hit("unshare:shared=f-unfolded=t");
                        } else {
                            ev.hit(&format!("unshare:shared={x}-unfolded={y}"));
                            let (a, b) = (roots[k / roots.len()], roots[k % roots.len()]);
                            report(ev, "compat=assumption-reused-under-other-enclosing-types",
                                &format!("is_compatible({}, {}) = {x}, but = {y} when every occurrence of a type has an id of its own (same types, same meaning)", tbl.show(a), tbl.show(b)),
                                replay_json(&tbl, &[a, b], json!({"op": "is_compatible", "shared": x.to_string(), "unfolded": y.to_string(), "broken": "the verdict of the model of check_type_relation depends on id sharing"})), false);
                        }
                    }
                }
                ask(model, &tbl.sx(&mut names));
            }
        }
    }
    // transitivity on all triples of closed ids
    let mut triples = 0u64;
    for &a in &closed {
        for &b in &closed {
            let (Some(pa), Some(pb)) = (pos(a), pos(b)) else { continue };
            if a == b || i_compat[pa * k + pb] != 't' {
                continue;
            }
            for &cc in &closed {
                let Some(pc) = pos(cc) else { continue };
                if cc == b || cc == a || i_compat[pb * k + pc] != 't' {
                    continue;
                }
                triples += 1;
                if i_compat[pa * k + pc] == 'f' {
                    ev.hit("oracle:not-transitive");
                    let fo3 = [a, b, cc].iter().all(|i| classes.get(*i) == Some(&'f'));
                    let sig = if fo3 {
                        format!("compat-not-transitive:{}-{}-{}", tbl.kind(a), tbl.kind(b), tbl.kind(cc))
                    } else if mech_id_sharing(&tbl, model, &mut names, &[(a, b), (b, cc)]) {
                        "compat=assumption-reused-under-other-enclosing-types".to_string()
                    } else {
                        format!("compat-not-transitive:{}-{}-{} (recursive/higher-order)", tbl.kind(a), tbl.kind(b), tbl.kind(cc))
                    };
                    report(ev, &sig,
                        &format!("is_compatible is not transitive: {} ≤ {} ≤ {} but not {} ≤ {}", tbl.show(a), tbl.show(b), tbl.show(cc), tbl.show(a), tbl.show(cc)),
                        replay_json(&tbl, &[a, b, cc], json!({"op": "is_compatible", "triple": true})), true);
                }
            }
        }
    }
    ev.add("transitivity-triples-checked", triples);

    // ---- narrowing: intersect / complement / union -------------------------------------------
    let base_types = tbl.types.len();
    let base_tuples = tbl.tuples.len();
    if closed.is_empty() {
        return;
    }
    let rel: Vec<(usize, usize)> = related.iter().copied().filter(|(x, y)| closed.contains(x) && closed.contains(y)).collect();
    for _ in 0..narrow_pairs {
        // mostly a root against its near-miss (either order), else any two closed ids
        let (a, b) = if !rel.is_empty() && r.chance(3, 5) {
            let (x, y) = rel[r.usize(rel.len())];
            ev.hit("narrow-pair:near-miss");
            if r.chance(1, 2) { (x, y) } else { (y, x) }
        } else {
            ev.hit("narrow-pair:random");
            (closed[r.usize(closed.len())], closed[r.usize(closed.len())])
        };
        for op in ["intersect", "complement"] {
            // the model goes first: when it runs out of fuel the implementation may not terminate
            // (the narrowing helpers call is_compatible / types_overlap on the variants)
            let m = ask(model, &format!("({op} {a} {b})"));
            if m == "fuel-out" {
                ev.hit(&format!("{op}:model-fuel-out (implementation not called)"));
                continue;
            }
            ev.case(&(case_key, op, a, b), a != b);
            if srv.hangs >= 4 {
                ev.hit(&format!("{op}:not-requested-after-repeated-hangs"));
                continue;
            }
            let ans = srv.request(&format!("N\t{op}\t{a}\t{b}"), 6);
            let (rid, t2) = match ans {
                Err(d) => {
                    ev.hit(&format!("{op}:impl-does-not-return"));
                    report(ev, &format!("impl-no-answer:{op} {}-vs-{}", tbl.kind(a), tbl.kind(b)),
                        &format!("{op}({}, {}) does not return ({}); the model of the code answers {}", tbl.show(a), tbl.show(b), d.text(), &m[..m.len().min(60)]),
                        replay_json(&tbl, &[a, b], json!({"op": op, "impl": d.text(), "model": m, "broken": format!("correspondence model<->impl on {op}: the narrowing helper crashes / hangs on this pair")})), true);
                    continue;
                }
                Ok(l) if l.starts_with("P ") => {
                    report(ev, &format!("{op}=panic"), &format!("{op}({}, {}) panics: {l}", tbl.show(a), tbl.show(b)), replay_json(&tbl, &[a, b], json!({"op": op, "impl": "panic"})), true);
                    continue;
                }
                Ok(l) => {
                    let parsed = Sx::parse(&l).and_then(|xs| {
                        let rid = xs.get(1)?.nat()?;
                        let (nt, nu) = entries_of_sx(&xs, 2, &names)?;
                        let mut t2 = tbl.clone();
                        t2.types.extend(nt);
                        t2.tuples.extend(nu);
                        Some((rid, t2))
                    });
                    match parsed {
                        Some(x) => x,
                        None => {
                            report(ev, "impl-server=malformed", &format!("implementation server answered `{l}`"), json!({"broken": "harness impl server"}), false);
                            continue;
                        }
                    }
                }
            };
            let impl_canon = t2.canon(rid);
            ev.hit(&format!("{op}:{}", if t2.kind(rid) == "never" { "never" } else if rid == a { "left-unchanged" } else { "other" }));
            // model result
            let mut model_canon = String::from("?");
            if m == "fuel-out" {
                ev.hit(&format!("{op}:model-fuel-out"));
            } else if let Some(xs) = Sx::parse(&m) {
                if xs.first().and_then(|x| x.atom()) == Some("ok") {
                    if let (Some(mid), Some((nt, nu))) = (xs.get(1).and_then(|x| x.nat()), entries_of_sx(&xs, 2, &names)) {
                        let mut mt = tbl.clone();
                        mt.types.extend(nt);
                        mt.tuples.extend(nu);
                        model_canon = mt.canon(mid);
                        if mid == rid && mt.types == t2.types && mt.tuples == t2.tuples {
                            ev.hit(&format!("{op}:exact-id-match"));
                        }
                    }
                }
            }
            // oracle on the implementation's result
            let mut names2 = names.clone();
            let ext = entries_sx(&t2.types[base_types..], &t2.tuples[base_tuples..], &mut names2);
            let e = ask(model, &format!("(extend {ext})"));
            let kind = if op == "intersect" { "meet" } else { "diff" };
            let keeps = ask(model, &format!("(keeps {kind} {a} {b} {rid} {EFUEL} {WIDTH})"));
            ask(model, "(reset)");
            let mut dropped = false;
            if !e.starts_with("ok") {
                report(ev, "driver=extend-rejected", "model driver rejected an extension", json!({"broken": "driver protocol", "ext": ext}), false);
            } else if keeps.starts_with("(dropped") {
                dropped = true;
                ev.hit(&format!("oracle:{op}-drops"));
                let fo = classes.get(a) == Some(&'f') && classes.get(b) == Some(&'f');
                // first-order: the two node kinds; otherwise the class of types involved (the
                // narrowing of recursive / higher-order types is a known-unsound area, see notes)
                let sig = if fo {
                    format!("{op}-drops:{}-vs-{}", tbl.kind(a), tbl.kind(b))
                } else if op == "intersect" && !declared_ids(&keeps).is_empty() {
                    // the dropped value contains a function / process value: the callable arm of
                    // intersect_pair falls back to types_overlap (notes R2)
                    "intersect=callable-overlap-fallback".to_string()
                } else if let Some(m) = mech_narrow(&tbl, op, a, b) {
                    m.to_string()
                } else {
                    format!("{op}-drops:{}-vs-{} (recursive/higher-order)", tbl.kind(a), tbl.kind(b))
                };
                report(ev, &sig,
                    &format!("{op}({}, {}) = {} drops the value {keeps}", tbl.show(a), tbl.show(b), t2.show(rid)),
                    replay_json(&tbl, &[a, b], json!({"op": op, "impl_result": t2.show(rid), "dropped": keeps, "first_order": fo})), true);
            } else if keeps.starts_with("ok") {
                ev.hit(&format!("oracle:{op}-keeps-confirmed"));
            }
            if model_canon != impl_canon && m != "fuel-out" {
                report(ev, &format!("corr={op} {}-vs-{}", tbl.kind(a), tbl.kind(b)),
                    &format!("{op}({}, {}) = {} but the model gives {}", tbl.show(a), tbl.show(b), impl_canon, model_canon),
                    replay_json(&tbl, &[a, b], json!({"op": op, "impl": impl_canon, "model": model_canon, "broken": format!("correspondence model<->impl on {op}")})), dropped);
            }
        }
    }
    // union_type_ids on a random id list
    for _ in 0..2 {
        let len = 1 + r.usize(4);
        let idsu: Vec<usize> = (0..len).map(|_| r.usize(n)).collect();
        if srv.hangs >= 4 {
            ev.hit("union_type_ids:not-requested-after-repeated-hangs");
            continue;
        }
        let ans = srv.request(&format!("U\t{}", idsu.iter().map(|i| i.to_string()).collect::<Vec<_>>().join(" ")), 6);
        let parsed = match &ans {
            Ok(l) => Sx::parse(l).and_then(|xs| {
                let rid = xs.get(1)?.nat()?;
                let (nt, nu) = entries_of_sx(&xs, 2, &names)?;
                let mut t2 = tbl.clone();
                t2.types.extend(nt);
                t2.tuples.extend(nu);
                Some((rid, t2))
            }),
            Err(_) => None,
        };
        let Some((rid, t2)) = parsed else {
            report(ev, "impl-no-answer:union_type_ids", &format!("union_type_ids({idsu:?}) gives no result: {ans:?}"),
                replay_json(&tbl, &idsu, json!({"op": "union", "impl": format!("{ans:?}"), "broken": "correspondence model<->impl on union_type_ids: no result"})), true);
            continue;
        };
        let m = ask(model, &format!("(union {})", idsu.iter().map(|i| i.to_string()).collect::<Vec<_>>().join(" ")));
        ev.case(&(case_key, "union", &idsu), true);
        let mut model_canon = String::from("?");
        if let Some(xs) = Sx::parse(&m) {
            if let (Some(mid), Some((nt, nu))) = (xs.get(1).and_then(|x| x.nat()), entries_of_sx(&xs, 2, &names)) {
                let mut mt = tbl.clone();
                mt.types.extend(nt);
                mt.tuples.extend(nu);
                model_canon = mt.canon(mid);
            }
        }
        ev.hit("union_type_ids");
        if model_canon != t2.canon(rid) {
            report(ev, "corr=union_type_ids", &format!("union_type_ids({idsu:?}) = {} but the model gives {}", t2.canon(rid), model_canon),
                replay_json(&tbl, &idsu, json!({"op": "union", "broken": "correspondence model<->impl on union_type_ids"})), false);
        }
    }
}

/// regression corpus: tables with expected verdicts (reproducing inputs of repaired defects).
fn run_corpus(ev: &mut Ev, model: &mut TModel, srv: &mut ImplServer) {
    let dir = "/verif/corpus/C09";
    let mut files: Vec<_> = std::fs::read_dir(dir).map(|d| d.filter_map(|e| e.ok()).map(|e| e.path()).collect()).unwrap_or_default();
    files.sort();
    for f in files {
        if f.extension().and_then(|e| e.to_str()) != Some("json") {
            continue;
        }
        let Ok(text) = std::fs::read_to_string(&f) else { continue };
        let Ok(j) = serde_json::from_str::<J>(&text) else { continue };
        let mut names = Names::new();
        for n in j["names"].as_array().cloned().unwrap_or_default() {
            names.id(n.as_str().unwrap_or(""));
        }
        let Some(tbl) = Tbl::parse(j["table"].as_str().unwrap_or(""), &names) else {
            report(ev, "corpus=unreadable", &format!("corpus file {} does not parse", f.display()), json!({"broken": "corpus"}), false);
            continue;
        };
        // go through the public registration API, as the generator does
        let Some(program) = tbl.to_program() else {
            report(ev, "corpus=unregistrable", &format!("corpus table {} is not reproduced by register_*", f.display()), json!({"broken": "corpus"}), false);
            continue;
        };
        let tbl = Tbl::of_program(&program);
        let mut n2 = srv.set_table(&tbl);
        ask(model, &tbl.sx(&mut n2));
        for c in j["checks"].as_array().cloned().unwrap_or_default() {
            let op = c["op"].as_str().unwrap_or("");
            let (a, b) = (c["a"].as_u64().unwrap_or(0) as usize, c["b"].as_u64().unwrap_or(0) as usize);
            if op == "intersect" || op == "complement" {
                // narrowing regression: the result, rendered canonically, must be the expected term
                let want = c["expect_canon"].as_str().unwrap_or("");
                // an entry of an OPEN narrowing defect names the WRONG result the code gives
                // (`expect_not_canon`): the implementation giving it is reported under the (known)
                // signature, and the model — a model of the code — must give it too
                let bad = c["expect_not_canon"].as_str();
                ev.case(&(f.to_string_lossy().to_string(), op, a, b), true);
                ev.hit("corpus-check");
                let render = |l: &str| -> Option<String> {
                    let xs = Sx::parse(l)?;
                    let rid = xs.get(1)?.nat()?;
                    let (nt, nu) = entries_of_sx(&xs, 2, &n2)?;
                    let mut t2 = tbl.clone();
                    t2.types.extend(nt);
                    t2.tuples.extend(nu);
                    Some(t2.canon(rid))
                };
                let got = match srv.request(&format!("N\t{op}\t{a}\t{b}"), 10) {
                    Ok(l) => render(&l).unwrap_or(l),
                    Err(d) => d.text().to_string(),
                };
                if bad.map(|x| got == x).unwrap_or(got != want) {
                    report(ev, c["signature"].as_str().unwrap_or("corpus"),
                        &format!("{}: {op}({}, {}) = {got}, expected {want}; {}", j["name"].as_str().unwrap_or(""), tbl.show(a), tbl.show(b), c["why"].as_str().unwrap_or("")),
                        json!({"corpus": f.to_string_lossy(), "table": j["table"], "names": j["names"], "op": op, "a": a, "b": b, "impl": got, "witness": c["witness"]}), true);
                }
                let m = ask(model, &format!("({op} {a} {b})"));
                let mgot = render(&m).unwrap_or(m);
                if bad.map(|x| mgot != x).unwrap_or(mgot != want) {
                    report(ev, &format!("corr=corpus {op}"), &format!("{}: model answers {mgot} on {op}({a}, {b}), expected {want}", j["name"].as_str().unwrap_or("")),
                        json!({"broken": "model no longer reproduces the regression corpus", "corpus": f.to_string_lossy()}), false);
                }
                continue;
            }
            let expect = c["expect"].as_bool().unwrap_or(false);
            let any = op == "overlap";
            let i = match srv.rel(a, b, any) {
                Ok(c) => c,
                Err(Dead::Crash) => '!',
                Err(Dead::Hang) => 'H',
            };
            let m = ask(model, &format!("({op} {a} {b})"));
            ev.case(&(f.to_string_lossy().to_string(), op, a, b), true);
            ev.hit("corpus-check");
            let want = if expect { 't' } else { 'f' };
            if i != want {
                report(ev, c["signature"].as_str().unwrap_or("corpus"),
                    &format!("{}: {op}({}, {}) = {i}, expected {want}; {}", j["name"].as_str().unwrap_or(""), tbl.show(a), tbl.show(b), c["why"].as_str().unwrap_or("")),
                    json!({"corpus": f.to_string_lossy(), "table": j["table"], "names": j["names"], "op": op, "a": a, "b": b, "impl": i.to_string(), "witness": c["witness"]}), true);
            }
            // an entry of an OPEN defect states the right verdict as `expect` and the verdict of the
            // code as it is as `model_expect` (the model is a model of the code, not of the meaning)
            let expect = c["model_expect"].as_bool().unwrap_or(expect);
            if m != (if expect { "true" } else { "false" }) {
                report(ev, &format!("corr=corpus {op}"), &format!("{}: model answers {m} on {op}({a}, {b}), expected {expect}", j["name"].as_str().unwrap_or("")),
                    json!({"broken": "model no longer reproduces the regression corpus", "corpus": f.to_string_lossy()}), false);
            }
        }
    }
}

fn main() {
    // child mode: `c09 --impl-server` answers implementation requests (see ImplServer)
    let argv: Vec<String> = std::env::args().collect();
    if argv.get(1).map(|s| s.as_str()) == Some("--impl-server") {
        impl_server_main();
        return;
    }
    qverif::quiet_panics();
    let opts = Opts::parse();
    let mut ev = Ev::new("C09", &opts);
    ev.rule = "tables of closed contractive types (streams: closed 62% incl. recursion/callables/processes, first-order 26%, \
               open 12% = variables / one-directional process types, correspondence only) built through Program::register_*; \
               1-12 generated roots per table, 45% of them one-edit near-misses of an earlier root; every ordered pair of type ids \
               (roots and sub-components) is one case per operation; a case is non-trivial when the two ids differ; distinct by (table, op, pair)"
        .into();
    let mut model = TModel::spawn(opts.model.as_ref().expect("--model"));

    if let Some(p) = &opts.replay {
        let j: J = serde_json::from_str(&std::fs::read_to_string(p).expect("replay file")).expect("replay json");
        let rp = &j["replay"];
        let mut names = Names::new();
        for n in rp["names"].as_array().cloned().unwrap_or_default() {
            names.id(n.as_str().unwrap_or(""));
        }
        let tbl = Tbl::parse(rp["table"].as_str().unwrap_or(""), &names).expect("table");
        let roots: Vec<usize> = rp["roots"].as_array().map(|a| a.iter().map(|x| x.as_u64().unwrap_or(0) as usize).collect()).unwrap_or_default();
        println!("replay: {}", j["what"].as_str().unwrap_or(""));
        let mut srv = ImplServer::new();
        let mut n2 = srv.set_table(&tbl);
        println!("model: {}", ask(&mut model, &tbl.sx(&mut n2)));
        let mut bad = false;
        for &a in &roots {
            for &b in &roots {
                let mut one = |any: bool| match srv.rel(a, b, any) {
                    Ok(c) => c,
                    Err(Dead::Crash) => '!',
                    Err(Dead::Hang) => 'H',
                };
                let (ic, io) = (one(false), one(true));
                let (mc, mo) = (ask(&mut model, &format!("(compat {a} {b})")), ask(&mut model, &format!("(overlap {a} {b})")));
                let wn = ask(&mut model, &format!("(witness notin {a} {b} {EFUEL} {WIDTH})"));
                let wb = ask(&mut model, &format!("(witness both {a} {b} {EFUEL} {WIDTH})"));
                println!("  ({}) vs ({}): is_compatible impl={ic} model={mc}; types_overlap impl={io} model={mo}; value only-left={wn} common={wb}", tbl.show(a), tbl.show(b));
                if (ic == 't' && wn != "none") || (io == 'f' && wb != "none") {
                    bad = true;
                }
            }
        }
        println!("{}", if bad { "replay: the property still fails on this input" } else { "replay: no failure on this input" });
        std::process::exit(if bad { 1 } else { 0 });
    }

    let mut srv = ImplServer::new();
    run_corpus(&mut ev, &mut model, &mut srv);

    let tables = opts.tier.pick(4000u64, 60000u64);
    let narrow_pairs = opts.tier.pick(5usize, 10usize);
    let mut features: BTreeSet<&'static str> = BTreeSet::new();
    for i in 0..tables {
        let mut r = Rng::for_case(opts.seed ^ 0xC09, i);
        let case = gen_case(&mut r);
        ev.hit(&format!("stream:{}", case.stream));
        let mut fs = BTreeSet::new();
        for (_, tm) in &case.pool {
            tm.features(&mut fs);
        }
        for f in &fs {
            ev.hit(&format!("feature:{f}"));
        }
        features.extend(fs);
        let pool_ids: Vec<usize> = case.pool.iter().map(|p| p.0).collect();
        let key = format!("t{i}");
        if i % 1000 == 0 {
            let tbl = Tbl::of_program(&case.program);
            ev.sample(json!({"case": i, "stream": case.stream, "roots": pool_ids.iter().map(|p| tbl.show(*p)).collect::<Vec<_>>()}));
        }
        run_table(&mut ev, &mut model, &mut srv, &case.program, &pool_ids, &case.related, case.stream, &key, &mut r, narrow_pairs);
    }
    let times: J = TIMES.with(|t| json!(t.borrow().iter().map(|(k, v)| (k.clone(), json!({"requests": v.0, "seconds": (v.1 * 1000.0).round() / 1000.0}))).collect::<serde_json::Map<String, J>>()));
    ev.set_extra("model_time_s", times);
    let mts: Vec<(String, String)> = MODEL_TIMEOUTS.with(|t| t.borrow().clone());
    for (req, table) in mts.iter().take(3) {
        let kind: String = req.trim_start_matches('(').split(' ').next().unwrap_or("").to_string();
        report(&mut ev, &format!("model-timeout:{kind}"), &format!("the model driver did not answer `{req}` in time (a result of the implementation it cannot digest, or a model bug)"),
            json!({"broken": format!("correspondence: model request {kind} timed out"), "request": req, "table": table}), false);
    }
    ev.set_extra("model_timeouts", json!(mts.len()));
    ev.set_extra("impl_server_restarts", json!(srv.restarts));
    ev.set_extra("tables", json!(tables));
    ev.set_extra("model_requests", json!(model.requests));
    ev.set_extra("enum", json!({"efuel": EFUEL, "width": WIDTH}));
    std::process::exit(ev.finish());
}
