//! C09 — assignability implies containment; overlap detection is complete; narrowing never drops
//! a value that can occur.
//!
//! Per case a table of closed contractive types is built through the PUBLIC registration API
//! (`Program::register_type/register_tuple`), biased to near-misses. Then
//!   * correspondence: `quiver_core::types::{is_compatible, types_overlap}` on ALL ordered pairs
//!     of type ids of the table vs the model's `checkRel` (driver `qm_c09`);
//!     `quiver_compiler::compiler::verif::{intersect_types, compute_complement}` and
//!     `quiver_compiler::compiler::union_type_ids` on sampled pairs vs the model, compared
//!     structurally (canonical rendering of the result type);
//!   * oracle on the implementation's verdicts: semantic containment / overlap / no-value-dropped
//!     judged by exhaustive `inhB` over the model's `enumVals` (the meaning of types is defined in
//!     Lean, Core/Types/Inh.lean), reflexivity, transitivity on all triples of closed ids.
use qverif::{Ev, Model, Opts, Rng, catch};
use quiver_core::program::Program;
use quiver_core::types::{is_compatible, types_overlap};
use serde_json::{Value as J, json};
use std::collections::BTreeSet;

#[path = "../tygen.rs"]
mod tygen;
use tygen::*;

thread_local! {
    static LAST_TABLE: std::cell::RefCell<String> = std::cell::RefCell::new(String::new());
    static TIMES: std::cell::RefCell<std::collections::BTreeMap<String, (u64, f64)>> = std::cell::RefCell::new(Default::default());
}

/// `model.ask` with per-request-kind timing (printed into the evidence as `model_time_s`).
fn ask(model: &mut Model, line: &str) -> String {
    let t0 = std::time::Instant::now();
    let out = model.ask(line);
    let dt = t0.elapsed().as_secs_f64();
    if dt > 2.0 && std::env::var("C09_DUMP").is_ok() {
        eprintln!("[slow {dt:.1}s] {}", &line[..line.len().min(200)]);
        LAST_TABLE.with(|t| eprintln!("    table: {}", t.borrow()));
    }
    if line.starts_with("(table") {
        LAST_TABLE.with(|t| *t.borrow_mut() = line.to_string());
    }
    let kind: String = line.trim_start_matches('(').split(' ').take(if line.starts_with("(matrix") || line.starts_with("(keeps") || line.starts_with("(witness") { 2 } else { 1 }).collect::<Vec<_>>().join(" ").trim_end_matches(')').to_string();
    TIMES.with(|t| {
        let mut t = t.borrow_mut();
        let e = t.entry(kind).or_insert((0, 0.0));
        e.0 += 1;
        e.1 += dt;
    });
    out
}

const EFUEL: usize = 10;
const WIDTH: usize = 3;

struct Case {
    program: Program,
    pool: Vec<(usize, Tm)>,
    stream: &'static str,
}

fn gen_case(r: &mut Rng) -> Case {
    let k = r.below(100);
    let (stream, cfg) = if k < 62 {
        ("closed", GenCfg { open: false, higher: true, cycles: true })
    } else if k < 88 {
        ("first-order", GenCfg { open: false, higher: false, cycles: false })
    } else {
        ("open", GenCfg { open: true, higher: true, cycles: true })
    };
    let mut program = Program::new();
    let n_roots = [1usize, 2, 3, 4, 5, 6, 6, 7, 8, 8, 9, 10, 12][r.usize(13)];
    let mut pool: Vec<(usize, Tm)> = vec![];
    let mut tries = 0;
    while pool.len() < n_roots && tries < 90 {
        tries += 1;
        let tm = if !pool.is_empty() && r.chance(45, 100) {
            let base = pool[r.usize(pool.len())].1.clone();
            let mut m = mutate(&base, r);
            if r.chance(1, 4) {
                m = mutate(&m, r);
            }
            m
        } else if cfg.cycles && r.chance(1, 4) {
            gen_recursive_template(r)
        } else {
            let depth = [1usize, 2, 2, 3, 3, 4][r.usize(6)];
            gen_tm(r, depth, &mut vec![], &cfg)
        };
        if tm.size() > 40 {
            continue;
        }
        // duplicate labels: only in the open (correspondence-only) stream
        if tm.has_dup_labels() && stream != "open" {
            continue;
        }
        let id = tm.register(&mut program);
        if !pool.iter().any(|(i, _)| *i == id) {
            pool.push((id, tm));
        }
    }
    Case { program, pool, stream }
}

fn impl_rel(tbl: &Tbl, a: usize, b: usize, any: bool) -> char {
    match catch(|| if any { types_overlap(a, b, tbl) } else { is_compatible(a, b, tbl) }) {
        Ok(true) => 't',
        Ok(false) => 'f',
        Err(_) => 'P',
    }
}

/// Run `is_compatible` / `types_overlap` on one pair in a CHILD process (a stack overflow of the
/// recursive checker aborts the process and cannot be caught). Returns the verdict char, or
/// `'!'` when the child died (stack overflow / abort), or `'?'` when it could not be started.
fn probe_in_child(tbl: &Tbl, a: usize, b: usize, any: bool) -> char {
    let (sub, img) = tbl.subtable(&[a, b]);
    let mut names = Names::new();
    let sx = sub.sx(&mut names);
    let Ok(exe) = std::env::current_exe() else { return '?' };
    let out = std::process::Command::new(exe)
        .arg("--probe")
        .arg(&sx)
        .arg(names.names.join(","))
        .arg(img[0].to_string())
        .arg(img[1].to_string())
        .arg(if any { "any" } else { "all" })
        .stderr(std::process::Stdio::null())
        .output();
    match out {
        Ok(o) if o.status.success() => String::from_utf8_lossy(&o.stdout).trim().chars().next().unwrap_or('?'),
        Ok(_) => '!',
        Err(_) => '?',
    }
}

fn has_higher_order(tbl: &Tbl, roots: &[usize]) -> bool {
    let (ty, _) = tbl.reachable(roots);
    ty.iter().any(|i| matches!(tbl.kind(*i), "fn" | "process"))
}

/// `(v <value>)` → `<value>`
fn unwrap_v(w: &str) -> &str {
    let w = w.strip_prefix("(v ").unwrap_or(w);
    w.strip_suffix(')').unwrap_or(w)
}

/// one side of a diagnosed pair: a type id and the boundaries enclosing it (top first)
#[derive(Clone, Debug)]
struct Side {
    id: usize,
    st: Vec<usize>,
}

impl Side {
    /// unfold `Cycle` nodes (de Bruijn, as `inhB` does)
    fn resolve(mut self, tbl: &Tbl) -> Option<Side> {
        for _ in 0..8 {
            match tbl.types.get(self.id) {
                Some(quiver_core::types::Type::Cycle(d)) => {
                    if *d == 0 || *d > self.st.len() {
                        return None;
                    }
                    self.id = self.st[*d - 1];
                    self.st = self.st[*d..].to_vec();
                }
                _ => return Some(self),
            }
        }
        None
    }
    fn child(&self, tbl: &Tbl, id: usize, boundary: bool) -> Option<Side> {
        let mut st = self.st.clone();
        if boundary {
            st.insert(0, self.id);
        }
        Side { id, st }.resolve(tbl)
    }
}

/// structural class of what fails: descend along the witness to the innermost pair of types on
/// which the implementation's (top-level) verdict is still wrong, and name the two node kinds.
fn diagnose(tbl: &Tbl, model: &mut Model, a: usize, b: usize, witness: &str, any: bool) -> String {
    use quiver_core::types::Type;
    let Some(v) = Sx::parse(witness).and_then(|x| x.into_iter().next()) else {
        return format!("{}-vs-{}", tbl.kind(a), tbl.kind(b));
    };
    let mut a = Side { id: a, st: vec![] };
    let mut b = Side { id: b, st: vec![] };
    let mut v = v;
    let inh = |model: &mut Model, t: &Side, v: &Sx| {
        let st = t.st.iter().map(|i| format!(" {i}")).collect::<String>();
        ask(model, &format!("(inh {} {}{st})", t.id, v.render())) == "true"
    };
    // is the implementation's verdict on (x, y) wrong *because of v*?
    let wrong = |x: &Side, y: &Side, v: &Sx, model: &mut Model| -> bool {
        // the model's verdict stands in for the implementation's here (they were compared on
        // every pair already; the model cannot overflow the stack on a non-terminating pair)
        if any {
            ask(model, &format!("(overlap {} {})", x.id, y.id)) == "false" && inh(model, x, v) && inh(model, y, v)
        } else {
            ask(model, &format!("(compat {} {})", x.id, y.id)) == "true" && inh(model, x, v) && !inh(model, y, v)
        }
    };
    // value fields: items[2..], each `(label value)`
    let vfields = |v: &Sx| -> Vec<(String, Sx)> {
        v.list()
            .map(|items| {
                items.iter().skip(2).filter_map(|f| {
                    let l = f.list()?;
                    Some((l.first()?.atom()?.to_string(), l.get(1)?.clone()))
                }).collect()
            })
            .unwrap_or_default()
    };
    let mut names = Names::new();
    // labels are interned in table order by `Tbl::sx`; recompute the same interning
    let _ = tbl.sx(&mut names);
    for _ in 0..24 {
        let (ta, tb) = (tbl.types.get(a.id).cloned(), tbl.types.get(b.id).cloned());
        let mut next: Option<(Side, Side, Sx)> = None;
        if let Some(Type::Union(vs)) = &ta {
            for &x in vs {
                if let Some(xs) = a.child(tbl, x, true) {
                    if wrong(&xs, &b, &v, model) {
                        next = Some((xs, b.clone(), v.clone()));
                        break;
                    }
                }
            }
        }
        if next.is_none() {
            if let Some(Type::Union(vs)) = &tb {
                for &y in vs {
                    if let Some(ys) = b.child(tbl, y, true) {
                        if wrong(&a, &ys, &v, model) {
                            next = Some((a.clone(), ys, v.clone()));
                            break;
                        }
                    }
                }
            }
        }
        if next.is_none() {
            // field-wise descent: pairs of (field type of a, field type of b, sub-value)
            let fv = vfields(&v);
            let mut cands: Vec<(usize, usize, Sx)> = vec![];
            match (&ta, &tb) {
                (Some(Type::Tuple(i)), Some(Type::Tuple(j))) => {
                    if let (Some(ia), Some(ib)) = (tbl.tuples.get(*i), tbl.tuples.get(*j)) {
                        if ia.fields.len() == ib.fields.len() && fv.len() == ia.fields.len() {
                            for k in 0..ia.fields.len() {
                                cands.push((ia.fields[k].1, ib.fields[k].1, fv[k].1.clone()));
                            }
                        }
                    }
                }
                (Some(Type::Partial { fields: f1, .. }), Some(Type::Partial { fields: f2, .. })) => {
                    for (l1, t1) in f1 {
                        for (l2, t2) in f2 {
                            if l1 == l2 {
                                let lab = names.id(l1).to_string();
                                for (l, sv) in &fv {
                                    if *l == lab {
                                        cands.push((*t1, *t2, sv.clone()));
                                    }
                                }
                            }
                        }
                    }
                }
                (Some(Type::Tuple(i)), Some(Type::Partial { fields: pf, .. })) => {
                    if let Some(ia) = tbl.tuples.get(*i) {
                        if fv.len() == ia.fields.len() {
                            for (k, (l, t)) in ia.fields.iter().enumerate() {
                                for (pl, pt) in pf {
                                    if l.as_ref() == Some(pl) {
                                        cands.push((*t, *pt, fv[k].1.clone()));
                                    }
                                }
                            }
                        }
                    }
                }
                (Some(Type::Partial { fields: pf, .. }), Some(Type::Tuple(j))) => {
                    if let Some(ib) = tbl.tuples.get(*j) {
                        if fv.len() == ib.fields.len() {
                            for (k, (l, t)) in ib.fields.iter().enumerate() {
                                for (pl, pt) in pf {
                                    if l.as_ref() == Some(pl) {
                                        cands.push((*pt, *t, fv[k].1.clone()));
                                    }
                                }
                            }
                        }
                    }
                }
                _ => {}
            }
            for (x, y, sv) in cands {
                if let (Some(xs), Some(ys)) = (a.child(tbl, x, false), b.child(tbl, y, false)) {
                    if wrong(&xs, &ys, &sv, model) {
                        next = Some((xs, ys, sv));
                        break;
                    }
                }
            }
        }
        match next {
            Some((x, y, w)) => {
                a = x;
                b = y;
                v = w;
            }
            None => break,
        }
    }
    format!("{}-vs-{}", tbl.kind(a.id), tbl.kind(b.id))
}

/// `ev.violation` + a counter per signature (so the evidence shows every distinct signature).
fn report(ev: &mut Ev, sig: &str, what: &str, replay: J, found: bool) {
    if std::env::var("C09_DUMP").is_ok() && !ev.counters.contains_key(&format!("report:{sig}")) {
        eprintln!("[{sig}] {what}\n    {}", replay["table"].as_str().unwrap_or(""));
    }
    ev.hit(&format!("report:{sig}"));
    ev.violation(sig, what, replay, found);
}

fn replay_json(tbl: &Tbl, roots: &[usize], extra: J) -> J {
    let (sub, img) = tbl.subtable(roots);
    let mut names = Names::new();
    let sx = sub.sx(&mut names);
    json!({
        "table": sx,
        "names": names.names,
        "roots": img,
        "shown": img.iter().map(|i| sub.show(*i)).collect::<Vec<_>>(),
        "detail": extra,
    })
}

/// run one table: correspondence + oracle. `pool` = ids generated as closed roots.
fn run_table(ev: &mut Ev, model: &mut Model, program: &Program, pool: &[usize], stream: &str, case_key: &str, r: &mut Rng, narrow_pairs: usize) {
    let tbl = Tbl::of_program(program);
    let mut names = Names::new();
    let ans = ask(model, &tbl.sx(&mut names));
    if !ans.starts_with("ok ") {
        report(ev, "driver=table-rejected", &format!("model driver rejected a table: {ans}"), json!({"broken": "driver protocol", "table": tbl.sx(&mut names)}), false);
        return;
    }
    if !ans.ends_with("ordered=true") {
        ev.hit("table:not-ordered");
    }
    let n = tbl.types.len();
    ev.hit(&format!("table-types:{}", if n <= 4 { "1-4" } else if n <= 8 { "5-8" } else if n <= 16 { "9-16" } else if n <= 32 { "17-32" } else { "33+" }));
    ev.hit(&format!("pool-size:{}", pool.len()));
    let classes: Vec<char> = ask(model, "(classes)").chars().collect();
    // ids for the all-pairs correspondence (all of them, capped)
    let mut ids: Vec<usize> = (0..n).collect();
    if ids.len() > 40 {
        let mut keep: BTreeSet<usize> = pool.iter().copied().collect();
        while keep.len() < 40 {
            keep.insert(r.usize(n));
        }
        ids = keep.into_iter().collect();
    }
    let idlist = ids.iter().map(|i| i.to_string()).collect::<Vec<_>>().join(" ");
    let m_compat: Vec<char> = ask(model, &format!("(matrix compat {idlist})")).chars().collect();
    let m_overlap: Vec<char> = ask(model, &format!("(matrix overlap {idlist})")).chars().collect();
    let k = ids.len();
    if m_compat.len() != k * k || m_overlap.len() != k * k {
        report(ev, "driver=matrix-malformed", "model driver answered a malformed matrix", json!({"broken": "driver protocol"}), false);
        return;
    }
    let mut i_compat = vec!['?'; k * k];
    let mut i_overlap = vec!['?'; k * k];
    for (x, &a) in ids.iter().enumerate() {
        for (y, &b) in ids.iter().enumerate() {
            for any in [false, true] {
                let m = if any { m_overlap[x * k + y] } else { m_compat[x * k + y] };
                let opname = if any { "types_overlap" } else { "is_compatible" };
                if m == '?' {
                    // the model ran out of fuel: do not risk unbounded recursion in-process; ask a
                    // child process whether the implementation terminates on this pair
                    ev.hit(&format!("{opname}:model-fuel-out"));
                    let c = probe_in_child(&tbl, a, b, any);
                    if c == '!' {
                        ev.hit(&format!("{opname}:impl-stack-overflow-confirmed-in-child"));
                        report(ev, "nontermination:check_type_relation (recursion through a callable)",
                            &format!("{opname}({}, {}) does not terminate (stack overflow in a child process; the model runs out of fuel)", tbl.show(a), tbl.show(b)),
                            replay_json(&tbl, &[a, b], json!({"op": opname, "impl": "stack overflow (child process aborted)", "model": "fuel-out"})), true);
                    } else {
                        report(ev, &format!("corr={opname} model-fuel-out impl={c}"),
                            &format!("model ran out of fuel on {opname}({}, {}) but the implementation answers {c}", tbl.show(a), tbl.show(b)),
                            replay_json(&tbl, &[a, b], json!({"broken": format!("correspondence model<->impl on {opname} (model fuel exhausted, implementation terminates)"), "op": opname, "impl": c.to_string()})), false);
                    }
                    continue;
                }
                let i = impl_rel(&tbl, a, b, any);
                if any { i_overlap[x * k + y] = i } else { i_compat[x * k + y] = i }
                ev.hit(&format!("{opname}:{i}"));
                if a != b {
                    ev.hit(&format!("pair-kind:{}/{}", tbl.kind(a), tbl.kind(b)));
                }
                ev.case(&(case_key, a, b, any), a != b);
                if i == 'P' {
                    report(ev, &format!("{opname}=panic"), &format!("{opname} panics on ({}, {})", tbl.show(a), tbl.show(b)),
                        replay_json(&tbl, &[a, b], json!({"op": opname, "impl": "panic"})), true);
                } else if i != m {
                    // correspondence broken: look for a concrete failing input of the property
                    let closed = classes.get(a) != Some(&'x') && classes.get(b) != Some(&'x');
                    let mut found = false;
                    let mut what = format!("{opname}({}, {}) = {} but the model gives {}", tbl.show(a), tbl.show(b), i, m);
                    let mut detail = json!({"op": opname, "impl": i.to_string(), "model": m.to_string(), "broken": format!("correspondence model<->impl on {opname}")});
                    if closed && stream != "open" {
                        if !any && i == 't' {
                            let w = ask(model, &format!("(witness notin {a} {b} {EFUEL} {WIDTH})"));
                            if w != "none" {
                                found = true;
                                what = format!("is_compatible({}, {}) = true but the value {w} inhabits only the left type", tbl.show(a), tbl.show(b));
                                detail["witness"] = json!(w);
                            }
                        } else if any && i == 'f' {
                            let mut w = ask(model, &format!("(witness both {a} {b} {EFUEL} {WIDTH})"));
                            if w == "none" {
                                w = ask(model, &format!("(witness both {b} {a} {EFUEL} {WIDTH})"));
                            }
                            if w != "none" {
                                found = true;
                                what = format!("types_overlap({}, {}) = false but the value {w} inhabits both", tbl.show(a), tbl.show(b));
                                detail["witness"] = json!(w);
                            }
                        }
                    }
                    report(ev, &format!("corr={opname} impl={i} model={m} {}-vs-{}", tbl.kind(a), tbl.kind(b)), &what, replay_json(&tbl, &[a, b], detail), found);
                }
            }
        }
    }
    if stream == "open" {
        return;
    }
    // ---- oracle over closed ids (pool first) -------------------------------------------------
    let mut closed: Vec<usize> = pool.iter().copied().filter(|i| classes.get(*i) != Some(&'x')).collect();
    for &p in pool {
        if classes.get(p) == Some(&'x') {
            ev.hit("generator:pool-id-not-closed");
        }
    }
    for &i in &ids {
        if closed.len() >= 14 {
            break;
        }
        if classes.get(i) != Some(&'x') && !closed.contains(&i) {
            closed.push(i);
        }
    }
    let clist = closed.iter().map(|i| i.to_string()).collect::<Vec<_>>().join(" ");
    let sem: Vec<char> = ask(model, &format!("(sem {EFUEL} {WIDTH} {clist})")).chars().collect();
    let c = closed.len();
    if sem.len() != c * c {
        report(ev, "driver=sem-malformed", "model driver answered a malformed semantic matrix", json!({"broken": "driver protocol"}), false);
        return;
    }
    let pos = |id: usize| ids.iter().position(|x| *x == id);
    for (x, &a) in closed.iter().enumerate() {
        for (y, &b) in closed.iter().enumerate() {
            let (Some(px), Some(py)) = (pos(a), pos(b)) else { continue };
            let s = sem[x * c + y];
            ev.hit(&format!("sem:{s}"));
            let fo = classes.get(a) == Some(&'f') && classes.get(b) == Some(&'f');
            // reflexivity
            if a == b && i_compat[px * k + py] == 'f' {
                report(ev, "compat=not-reflexive", &format!("is_compatible({0}, {0}) = false", tbl.show(a)), replay_json(&tbl, &[a], json!({"op": "is_compatible"})), true);
            }
            // soundness of assignability
            if i_compat[px * k + py] == 't' && (s == 'o' || s == 'd') {
                let w = ask(model, &format!("(witness notin {a} {b} {EFUEL} {WIDTH})"));
                let cls = diagnose(&tbl, model, a, b, unwrap_v(&w), false);
                let w2 = w.clone();
                ev.hit("oracle:compat-unsound");
                report(ev, &(if fo { format!("compat-unsound:{cls}") } else { "compat-unsound (recursive/higher-order)".to_string() }),
                    &format!("is_compatible({}, {}) = true but the value {w2} inhabits only the left type", tbl.show(a), tbl.show(b)),
                    replay_json(&tbl, &[a, b], json!({"op": "is_compatible", "impl": "true", "witness": w, "class": cls, "first_order": fo})), true);
            }
            if i_compat[px * k + py] == 't' && s == 's' {
                ev.hit("oracle:compat-true-confirmed");
            }
            // completeness of overlap
            let sy = sem[y * c + x];
            if i_overlap[px * k + py] == 'f' && (s == 's' || s == 'o' || sy == 's' || sy == 'o') {
                let mut w = ask(model, &format!("(witness both {a} {b} {EFUEL} {WIDTH})"));
                if w == "none" {
                    w = ask(model, &format!("(witness both {b} {a} {EFUEL} {WIDTH})"));
                }
                let cls = diagnose(&tbl, model, a, b, unwrap_v(&w), true);
                ev.hit("oracle:overlap-incomplete");
                ev.hit(&format!("overlap-incomplete-innermost:{cls}"));
                report(ev, &(if fo { format!("overlap-incomplete:{cls}") } else { "overlap-incomplete (recursive/higher-order)".to_string() }),
                    &format!("types_overlap({}, {}) = false but the value {w} inhabits both types", tbl.show(a), tbl.show(b)),
                    replay_json(&tbl, &[a, b], json!({"op": "types_overlap", "impl": "false", "witness": w, "class": cls, "first_order": fo})), true);
            }
            if i_overlap[px * k + py] == 'f' && s == 'd' {
                ev.hit("oracle:overlap-false-confirmed");
            }
        }
    }
    // transitivity on all triples of closed ids
    let mut triples = 0u64;
    for &a in &closed {
        for &b in &closed {
            let (Some(pa), Some(pb)) = (pos(a), pos(b)) else { continue };
            if a == b || i_compat[pa * k + pb] != 't' {
                continue;
            }
            for &cc in &closed {
                let Some(pc) = pos(cc) else { continue };
                if cc == b || cc == a || i_compat[pb * k + pc] != 't' {
                    continue;
                }
                triples += 1;
                if i_compat[pa * k + pc] == 'f' {
                    ev.hit("oracle:not-transitive");
                    let fo3 = [a, b, cc].iter().all(|i| classes.get(*i) == Some(&'f'));
                    report(ev, &(if fo3 { format!("compat-not-transitive:{}-{}-{}", tbl.kind(a), tbl.kind(b), tbl.kind(cc)) } else { "compat-not-transitive (recursive/higher-order)".to_string() }),
                        &format!("is_compatible is not transitive: {} ≤ {} ≤ {} but not {} ≤ {}", tbl.show(a), tbl.show(b), tbl.show(cc), tbl.show(a), tbl.show(cc)),
                        replay_json(&tbl, &[a, b, cc], json!({"op": "is_compatible", "triple": true})), true);
                }
            }
        }
    }
    ev.add("transitivity-triples-checked", triples);

    // ---- narrowing: intersect / complement / union -------------------------------------------
    let base_types = tbl.types.len();
    let base_tuples = tbl.tuples.len();
    if closed.is_empty() {
        return;
    }
    for _ in 0..narrow_pairs {
        let a = closed[r.usize(closed.len())];
        let b = closed[r.usize(closed.len())];
        for op in ["intersect", "complement"] {
            // the model goes first: when it runs out of fuel the implementation may not terminate
            // (the narrowing helpers call is_compatible / types_overlap on the variants)
            let m = ask(model, &format!("({op} {a} {b})"));
            if m == "fuel-out" {
                ev.hit(&format!("{op}:model-fuel-out (implementation not called)"));
                continue;
            }
            let mut p2 = program.clone();
            let res = catch(|| {
                if op == "intersect" {
                    quiver_compiler::compiler::verif::intersect_types(a, b, &mut p2)
                } else {
                    quiver_compiler::compiler::verif::compute_complement(a, b, &mut p2)
                }
            });
            ev.case(&(case_key, op, a, b), a != b);
            let rid = match res {
                Ok(id) => id,
                Err(p) => {
                    report(ev, &format!("{op}=panic"), &format!("{op}({}, {}) panics: {p}", tbl.show(a), tbl.show(b)), replay_json(&tbl, &[a, b], json!({"op": op, "impl": "panic"})), true);
                    continue;
                }
            };
            let t2 = Tbl::of_program(&p2);
            let impl_canon = t2.canon(rid);
            ev.hit(&format!("{op}:{}", if t2.kind(rid) == "never" { "never" } else if rid == a { "left-unchanged" } else { "other" }));
            // model result
            let mut model_canon = String::from("?");
            if m == "fuel-out" {
                ev.hit(&format!("{op}:model-fuel-out"));
            } else if let Some(xs) = Sx::parse(&m) {
                if xs.first().and_then(|x| x.atom()) == Some("ok") {
                    if let (Some(mid), Some((nt, nu))) = (xs.get(1).and_then(|x| x.nat()), entries_of_sx(&xs, 2, &names)) {
                        let mut mt = tbl.clone();
                        mt.types.extend(nt);
                        mt.tuples.extend(nu);
                        model_canon = mt.canon(mid);
                        if mid == rid && mt.types == t2.types && mt.tuples == t2.tuples {
                            ev.hit(&format!("{op}:exact-id-match"));
                        }
                    }
                }
            }
            // oracle on the implementation's result
            let mut names2 = names.clone();
            let ext = entries_sx(&t2.types[base_types..], &t2.tuples[base_tuples..], &mut names2);
            let e = ask(model, &format!("(extend {ext})"));
            let kind = if op == "intersect" { "meet" } else { "diff" };
            let keeps = ask(model, &format!("(keeps {kind} {a} {b} {rid} {EFUEL} {WIDTH})"));
            ask(model, "(reset)");
            let mut dropped = false;
            if !e.starts_with("ok") {
                report(ev, "driver=extend-rejected", "model driver rejected an extension", json!({"broken": "driver protocol", "ext": ext}), false);
            } else if keeps.starts_with("(dropped") {
                dropped = true;
                ev.hit(&format!("oracle:{op}-drops"));
                let fo = classes.get(a) == Some(&'f') && classes.get(b) == Some(&'f');
                // first-order: the two node kinds; otherwise the class of types involved (the
                // narrowing of recursive / higher-order types is a known-unsound area, see notes)
                let sig = if fo {
                    format!("{op}-drops:{}-vs-{}", tbl.kind(a), tbl.kind(b))
                } else {
                    ev.hit(&format!("{op}-drops:{}", if has_higher_order(&tbl, &[a, b]) { "higher-order" } else { "recursive" }));
                    format!("{op}-drops (recursive/higher-order)")
                };
                report(ev, &sig,
                    &format!("{op}({}, {}) = {} drops the value {keeps}", tbl.show(a), tbl.show(b), t2.show(rid)),
                    replay_json(&tbl, &[a, b], json!({"op": op, "impl_result": t2.show(rid), "dropped": keeps, "first_order": fo})), true);
            } else if keeps.starts_with("ok") {
                ev.hit(&format!("oracle:{op}-keeps-confirmed"));
            }
            if model_canon != impl_canon && m != "fuel-out" {
                report(ev, &format!("corr={op} {}-vs-{}", tbl.kind(a), tbl.kind(b)),
                    &format!("{op}({}, {}) = {} but the model gives {}", tbl.show(a), tbl.show(b), impl_canon, model_canon),
                    replay_json(&tbl, &[a, b], json!({"op": op, "impl": impl_canon, "model": model_canon, "broken": format!("correspondence model<->impl on {op}")})), dropped);
            }
        }
    }
    // union_type_ids on a random id list
    for _ in 0..2 {
        let len = 1 + r.usize(4);
        let idsu: Vec<usize> = (0..len).map(|_| r.usize(n)).collect();
        let mut p2 = program.clone();
        let rid = quiver_compiler::compiler::union_type_ids(&mut p2, idsu.clone());
        let t2 = Tbl::of_program(&p2);
        let m = ask(model, &format!("(union {})", idsu.iter().map(|i| i.to_string()).collect::<Vec<_>>().join(" ")));
        ev.case(&(case_key, "union", &idsu), true);
        let mut model_canon = String::from("?");
        if let Some(xs) = Sx::parse(&m) {
            if let (Some(mid), Some((nt, nu))) = (xs.get(1).and_then(|x| x.nat()), entries_of_sx(&xs, 2, &names)) {
                let mut mt = tbl.clone();
                mt.types.extend(nt);
                mt.tuples.extend(nu);
                model_canon = mt.canon(mid);
            }
        }
        ev.hit("union_type_ids");
        if model_canon != t2.canon(rid) {
            report(ev, "corr=union_type_ids", &format!("union_type_ids({idsu:?}) = {} but the model gives {}", t2.canon(rid), model_canon),
                replay_json(&tbl, &idsu, json!({"op": "union", "broken": "correspondence model<->impl on union_type_ids"})), false);
        }
    }
}

/// regression corpus: tables with expected verdicts (reproducing inputs of repaired defects).
fn run_corpus(ev: &mut Ev, model: &mut Model) {
    let dir = "/verif/corpus/C09";
    let mut files: Vec<_> = std::fs::read_dir(dir).map(|d| d.filter_map(|e| e.ok()).map(|e| e.path()).collect()).unwrap_or_default();
    files.sort();
    for f in files {
        if f.extension().and_then(|e| e.to_str()) != Some("json") {
            continue;
        }
        let Ok(text) = std::fs::read_to_string(&f) else { continue };
        let Ok(j) = serde_json::from_str::<J>(&text) else { continue };
        let mut names = Names::new();
        for n in j["names"].as_array().cloned().unwrap_or_default() {
            names.id(n.as_str().unwrap_or(""));
        }
        let Some(tbl) = Tbl::parse(j["table"].as_str().unwrap_or(""), &names) else {
            report(ev, "corpus=unreadable", &format!("corpus file {} does not parse", f.display()), json!({"broken": "corpus"}), false);
            continue;
        };
        // go through the public registration API, as the generator does
        let Some(program) = tbl.to_program() else {
            report(ev, "corpus=unregistrable", &format!("corpus table {} is not reproduced by register_*", f.display()), json!({"broken": "corpus"}), false);
            continue;
        };
        let tbl = Tbl::of_program(&program);
        let mut n2 = Names::new();
        ask(model, &tbl.sx(&mut n2));
        for c in j["checks"].as_array().cloned().unwrap_or_default() {
            let op = c["op"].as_str().unwrap_or("");
            let (a, b) = (c["a"].as_u64().unwrap_or(0) as usize, c["b"].as_u64().unwrap_or(0) as usize);
            let expect = c["expect"].as_bool().unwrap_or(false);
            let any = op == "overlap";
            let i = impl_rel(&tbl, a, b, any);
            let m = ask(model, &format!("({op} {a} {b})"));
            ev.case(&(f.to_string_lossy().to_string(), op, a, b), true);
            ev.hit("corpus-check");
            let want = if expect { 't' } else { 'f' };
            if i != want {
                report(ev, c["signature"].as_str().unwrap_or("corpus"),
                    &format!("{}: {op}({}, {}) = {i}, expected {want}; {}", j["name"].as_str().unwrap_or(""), tbl.show(a), tbl.show(b), c["why"].as_str().unwrap_or("")),
                    json!({"corpus": f.to_string_lossy(), "table": j["table"], "names": j["names"], "op": op, "a": a, "b": b, "impl": i.to_string(), "witness": c["witness"]}), true);
            }
            if m != (if expect { "true" } else { "false" }) {
                report(ev, &format!("corr=corpus {op}"), &format!("{}: model answers {m} on {op}({a}, {b}), expected {expect}", j["name"].as_str().unwrap_or("")),
                    json!({"broken": "model no longer reproduces the regression corpus", "corpus": f.to_string_lossy()}), false);
            }
        }
    }
}

fn main() {
    // child mode: `c09 --probe <table> <names,…> <a> <b> all|any` prints the verdict char
    let argv: Vec<String> = std::env::args().collect();
    if argv.get(1).map(|s| s.as_str()) == Some("--probe") {
        let mut names = Names::new();
        for n in argv[3].split(',').filter(|s| !s.is_empty()) {
            names.id(n);
        }
        let tbl = Tbl::parse(&argv[2], &names).expect("table");
        let (a, b): (usize, usize) = (argv[4].parse().unwrap(), argv[5].parse().unwrap());
        let any = argv[6] == "any";
        let v = if any { types_overlap(a, b, &tbl) } else { is_compatible(a, b, &tbl) };
        println!("{}", if v { 't' } else { 'f' });
        return;
    }
    qverif::quiet_panics();
    let opts = Opts::parse();
    let mut ev = Ev::new("C09", &opts);
    ev.rule = "tables of closed contractive types (streams: closed 62% incl. recursion/callables/processes, first-order 26%, \
               open 12% = variables / one-directional process types, correspondence only) built through Program::register_*; \
               1-12 generated roots per table, 45% of them one-edit near-misses of an earlier root; every ordered pair of type ids \
               (roots and sub-components) is one case per operation; a case is non-trivial when the two ids differ; distinct by (table, op, pair)"
        .into();
    let mut model = Model::spawn(opts.model.as_ref().expect("--model"));

    if let Some(p) = &opts.replay {
        let j: J = serde_json::from_str(&std::fs::read_to_string(p).expect("replay file")).expect("replay json");
        let rp = &j["replay"];
        let mut names = Names::new();
        for n in rp["names"].as_array().cloned().unwrap_or_default() {
            names.id(n.as_str().unwrap_or(""));
        }
        let tbl = Tbl::parse(rp["table"].as_str().unwrap_or(""), &names).expect("table");
        let roots: Vec<usize> = rp["roots"].as_array().map(|a| a.iter().map(|x| x.as_u64().unwrap_or(0) as usize).collect()).unwrap_or_default();
        println!("replay: {}", j["what"].as_str().unwrap_or(""));
        let mut n2 = Names::new();
        println!("model: {}", ask(&mut model, &tbl.sx(&mut n2)));
        let mut bad = false;
        for &a in &roots {
            for &b in &roots {
                let (ic, io) = (impl_rel(&tbl, a, b, false), impl_rel(&tbl, a, b, true));
                let (mc, mo) = (ask(&mut model, &format!("(compat {a} {b})")), ask(&mut model, &format!("(overlap {a} {b})")));
                let wn = ask(&mut model, &format!("(witness notin {a} {b} {EFUEL} {WIDTH})"));
                let wb = ask(&mut model, &format!("(witness both {a} {b} {EFUEL} {WIDTH})"));
                println!("  ({}) vs ({}): is_compatible impl={ic} model={mc}; types_overlap impl={io} model={mo}; value only-left={wn} common={wb}", tbl.show(a), tbl.show(b));
                if (ic == 't' && wn != "none") || (io == 'f' && wb != "none") {
                    bad = true;
                }
            }
        }
        println!("{}", if bad { "replay: the property still fails on this input" } else { "replay: no failure on this input" });
        std::process::exit(if bad { 1 } else { 0 });
    }

    run_corpus(&mut ev, &mut model);

    let tables = opts.tier.pick(1400u64, 30000u64);
    let narrow_pairs = opts.tier.pick(5usize, 10usize);
    let mut features: BTreeSet<&'static str> = BTreeSet::new();
    for i in 0..tables {
        let mut r = Rng::for_case(opts.seed ^ 0xC09, i);
        let case = gen_case(&mut r);
        ev.hit(&format!("stream:{}", case.stream));
        let mut fs = BTreeSet::new();
        for (_, tm) in &case.pool {
            tm.features(&mut fs);
        }
        for f in &fs {
            ev.hit(&format!("feature:{f}"));
        }
        features.extend(fs);
        let pool_ids: Vec<usize> = case.pool.iter().map(|p| p.0).collect();
        let key = format!("t{i}");
        if i % 350 == 0 {
            let tbl = Tbl::of_program(&case.program);
            ev.sample(json!({"case": i, "stream": case.stream, "roots": pool_ids.iter().map(|p| tbl.show(*p)).collect::<Vec<_>>()}));
        }
        run_table(&mut ev, &mut model, &case.program, &pool_ids, case.stream, &key, &mut r, narrow_pairs);
    }
    let times: J = TIMES.with(|t| json!(t.borrow().iter().map(|(k, v)| (k.clone(), json!({"requests": v.0, "seconds": (v.1 * 1000.0).round() / 1000.0}))).collect::<serde_json::Map<String, J>>()));
    ev.set_extra("model_time_s", times);
    ev.set_extra("tables", json!(tables));
    ev.set_extra("model_requests", json!(model.requests));
    ev.set_extra("enum", json!({"efuel": EFUEL, "width": WIDTH}));
    std::process::exit(ev.finish());
}
