//! C11 — REPL evaluation is equivalent to evaluating the lines as one program.
//!
//! Generated sessions (bindings, destructurings, shadowing, aliases, closures over earlier bindings,
//! type aliases, imports, uses of the previous result, parse- and compile-rejected lines in between,
//! random groupings of steps into lines) run on a real `Repl` over the deterministic simulator. After
//! every line the harness reads `get_variables()`, every `request_variable` (index from the
//! `GetLocals` command on the wire, value from the answer) and the persistent process's locals, and
//!
//!  * **model**: tells `qm_c11` (M-Repl, `QM.Repl.runLine`) what happened and compares the model's
//!    bindings (the compaction it predicts for old variables), locals and variable values with the
//!    observed ones; the model also checks the assumptions of `C11.runLine_preserves_aligned`;
//!  * **oracle**: the same steps evaluated as ONE program (`s1, …, sk`) give the line's value, and
//!    `s1, …, sk, [&x1, …, &xn]` gives every variable's value; a rejected line leaves all variables,
//!    their order and the flowing previous result unchanged.
use qverif::sim::Sim;
use qverif::{Ev, Model, Opts, Rng};
use quiver_core::bytecode::Constant;
use quiver_core::types::TupleTypeInfo;
use quiver_core::value::{Binary, Value};
use quiver_environment::{Command, ReplError, RequestResult};
use serde_json::json;
use std::collections::{BTreeMap, HashMap};

// ---- canonical values (function / process ids hidden) -----------------------------------------

fn canon(v: &Value, heap: &[Vec<u8>], tuples: &[TupleTypeInfo], consts: &[Constant], builtins: &[String]) -> String {
    fn go(v: &Value, heap: &[Vec<u8>], tuples: &[TupleTypeInfo], consts: &[Constant], builtins: &[String], s: &mut String) {
        match v {
            Value::Integer(i) => s.push_str(&format!("i{i}")),
            Value::Binary(b) => {
                let bytes = match b {
                    Binary::Constant(i) => match consts.get(*i) {
                        Some(Constant::Binary(v)) => Some(v.clone()),
                        _ => None,
                    },
                    Binary::Heap(i) => heap.get(*i).cloned(),
                };
                match bytes {
                    Some(b) => s.push_str(&format!("b{}", qverif::hex(&b))),
                    None => s.push_str("b?"),
                }
            }
            Value::Reference(_) => s.push_str("r"),
            Value::Tuple(id, fields) => {
                s.push_str("t(");
                match tuples.get(*id) {
                    Some(info) => {
                        s.push_str(info.name.as_deref().unwrap_or("_"));
                        s.push(';');
                        for (i, f) in fields.iter().enumerate() {
                            if i > 0 {
                                s.push(',');
                            }
                            s.push_str(info.fields.get(i).and_then(|(n, _)| n.as_deref()).unwrap_or("_"));
                            s.push('=');
                            go(f, heap, tuples, consts, builtins, s);
                        }
                    }
                    None => s.push_str(&format!("?{id}")),
                }
                s.push(')');
            }
            Value::Function(_, caps) => {
                s.push_str("f(");
                for (i, c) in caps.iter().enumerate() {
                    if i > 0 {
                        s.push(',');
                    }
                    go(c, heap, tuples, consts, builtins, s);
                }
                s.push(')');
            }
            Value::Builtin(id) => {
                s.push('u');
                s.push_str(&builtins.get(*id).cloned().unwrap_or_else(|| format!("#{id}")));
            }
            Value::Process(..) => s.push('p'),
            Value::Resource(_, ty) => s.push_str(&format!("x:{ty}")),
        }
    }
    let mut s = String::new();
    go(v, heap, tuples, consts, builtins, &mut s);
    s
}

fn sim_canon(sim: &Sim, v: &Value, heap: &[Vec<u8>]) -> String {
    let p = sim.env.get_program();
    let b: Vec<String> = p.get_builtins().iter().map(|b| b.name.clone()).collect();
    canon(v, heap, p.get_tuples(), p.get_constants(), &b)
}

/// Token for the model: the canonical string, hex-encoded into one atom.
fn tok(s: &str) -> String {
    format!("h{}", qverif::hex(s.as_bytes()))
}

// ---- running lines ----------------------------------------------------------------------------

#[derive(Debug, Clone, PartialEq)]
enum LineResult {
    Value(String),
    RuntimeError(String),
    ParseError,
    CompileError(String),
    NoCode,
    Hang,
}

fn submit_line(sim: &mut Sim, src: &str, r: Option<&mut Rng>) -> LineResult {
    let req = match sim.submit(src) {
        Ok(Some(id)) => id,
        Ok(None) => return LineResult::NoCode,
        Err(ReplError::Parser(_)) => return LineResult::ParseError,
        Err(ReplError::Compiler(e)) => return LineResult::CompileError(format!("{e:?}").chars().take(60).collect()),
        Err(e) => return LineResult::CompileError(format!("other:{e:?}")),
    };
    let mut result = None;
    let done = |s: &mut Sim| {
        if result.is_none() {
            result = s.poll_result(req);
        }
        result.is_some()
    };
    let fin = match r {
        Some(r) => {
            let pol = qverif::sim::Policy { partial_visibility_pm: 200, tick_pm: 0, max_tick: 1, env_weight_pm: 400, worker_weights: vec![] };
            sim.run_random(r, &pol, 200_000, done)
        }
        None => sim.run_fair(5000, done),
    };
    if !fin {
        return LineResult::Hang;
    }
    match result.unwrap() {
        Ok((v, heap)) => LineResult::Value(sim_canon(sim, &v, &heap)),
        Err(e) => LineResult::RuntimeError(qverif::canon::error_class(&e)),
    }
}

/// Everything observable about the session after a line.
#[derive(Debug, Clone, Default, PartialEq)]
struct Obs {
    /// `get_variables()` names, in its (index) order
    order: Vec<String>,
    /// variable → local index (from the `GetLocals` command the REPL sent)
    index: BTreeMap<String, usize>,
    /// variable → canonical value
    value: BTreeMap<String, String>,
    /// the persistent process's locals, canonical
    locals: Vec<String>,
    /// `Repl::get_last_result_type()` (Debug form; type ids are stable within a session)
    last_ty: String,
}

fn observe(sim: &mut Sim) -> Obs {
    let mut o = Obs::default();
    // let pending commands (e.g. the CompactLocals of a rejected / type-only line) reach the worker
    for _ in 0..3 {
        sim.fair_round();
    }
    let vars = sim.repl.as_ref().unwrap().get_variables();
    o.last_ty = format!("{:?}", sim.repl.as_ref().unwrap().get_last_result_type());
    o.order = vars.iter().map(|(n, _)| n.clone()).collect();
    for (name, _) in &vars {
        let mut repl = sim.repl.take().unwrap();
        let rid = repl.request_variable(&mut sim.env, name);
        sim.repl = Some(repl);
        let Ok(rid) = rid else {
            o.value.insert(name.clone(), "request-error".into());
            continue;
        };
        // the index travels in the GetLocals command
        for sh in &sim.chans {
            let c = sh.chan.lock().unwrap();
            for (_, cmd) in c.cmd_log.iter().rev().take(8) {
                if let Command::GetLocals { request_id, indices, .. } = cmd
                    && *request_id == rid
                    && let Some(i) = indices.first()
                {
                    o.index.insert(name.clone(), *i);
                }
            }
        }
        let mut got = None;
        for _ in 0..200 {
            sim.fair_round();
            match sim.env.poll_request(rid) {
                Ok(Some(RequestResult::Locals(vs))) => {
                    got = Some(match vs.first() {
                        Some((v, heap)) => sim_canon(sim, v, heap),
                        None => "empty".into(),
                    });
                    break;
                }
                Ok(Some(_)) => {
                    got = Some("unexpected-result-kind".into());
                    break;
                }
                Ok(None) => {}
                Err(e) => {
                    got = Some(format!("error:{}", format!("{e:?}").chars().take(40).collect::<String>()));
                    break;
                }
            }
        }
        o.value.insert(name.clone(), got.unwrap_or_else(|| "no-answer".into()));
    }
    // the process's locals, read through the executor accessor
    let pid = sim.repl.as_ref().unwrap().process_id();
    for w in &sim.workers {
        let ex = w.verif_executor();
        if let Some(p) = ex.get_process(pid) {
            for v in &p.locals {
                let (v2, heap) = ex.extract_heap_data(v).unwrap_or((v.clone(), vec![]));
                o.locals.push(sim_canon(sim, &v2, &heap));
            }
        }
    }
    o
}

/// Evaluate a whole program in a fresh system (the ONE-program oracle).
fn eval_one(src: &str, modules: &HashMap<Vec<String>, String>) -> LineResult {
    let mut sim = Sim::new(1, None, qverif::run::builtins(), false).with_repl(modules.clone());
    submit_line(&mut sim, src, None)
}

// ---- session generator ---------------------------------------------------------------------------

#[derive(Clone, Debug)]
enum Step {
    /// an accepted step (source text)
    Ok(String),
    /// a type alias line (no code)
    Alias(String),
    /// a line the parser rejects
    BadParse(String),
    /// a line the compiler rejects
    BadCompile(String),
}

struct GenState {
    ints: Vec<String>,
    pts: Vec<String>,
    fns: Vec<String>,
    pairs: Vec<String>,
    /// nilary functions (for `&n ^~`)
    nilary: Vec<String>,
    /// variables of type `Str | 'int` bound on an earlier step
    unions: Vec<String>,
    /// variables of type `Circle[r: 'int] | Square[w: 'int]`
    shapes: Vec<String>,
    /// generic functions over `Some['t] | None`
    generics: Vec<String>,
    /// processes: (variable, 0 = spawned and waiting for its message, 1 = message sent / finished)
    procs: Vec<(String, u8)>,
    /// modules an ACCEPTED step has imported so far
    seen_modules: Vec<&'static str>,
    /// modules whose first import in the session sat in a compile-REJECTED line
    poisoned: Vec<&'static str>,
    /// modules this session draws from (std modules are expensive to compile: only every fifth session)
    mods: Vec<&'static str>,
    last_is_int: bool,
    k: usize,
    feats: Vec<&'static str>,
}

const MODS: [&str; 7] = ["num", "list", "str", "int", "m", "m2", "m3"];

/// An accepted step that uses module `m` and binds `v`; returns (source, binds an int).
fn use_module(m: &str, v: &str, a: &str, b: &str, k: u64) -> (String, bool) {
    match m {
        "num" => (format!("{v} = [{a}, {b}] %num.add"), true),
        "list" => (format!("{v} = %list.new [~, {a}] %list.prepend"), false),
        "str" => (format!("{v} = \"ab{k}\" %str.length"), true),
        "int" => (format!("{v} = [{a}, {b}] %int.and"), true),
        "m2" => (format!("{v} = {a} %m2.g"), true),
        "m3" => (format!("{v} = [%m3.a, {a} %m3.f] %m3.add"), true),
        _ => (format!("{v} = [%m.a, {a}] %m.add"), true),
    }
}

/// A line the COMPILER rejects after it has compiled an import of module `m`.
fn reject_with_module(m: &str, a: &str) -> String {
    match m {
        "num" => format!("[{a}, 1] %num.add [~, missing_zz] %num.mul"),
        "list" => format!("[{a}, %list.new] nosuch_zz"),
        "str" => "\"q\" %str.length nosuch_zz".to_string(),
        "int" => format!("[{a}, 2] %int.and nosuch_zz"),
        "m2" => format!("[{a} %m2.g, missing_zz] __integer_add__"),
        "m3" => format!("[{a} %m3.f, missing_zz] %m3.add"),
        _ => format!("[{a} %m.f, missing_zz] __integer_add__"),
    }
}

fn gen_step(r: &mut Rng, g: &mut GenState) -> Step {
    let fresh = |g: &mut GenState, p: &str| {
        g.k += 1;
        format!("{p}{}", g.k)
    };
    if g.ints.is_empty() {
        let v = fresh(g, "a");
        g.ints.push(v.clone());
        g.last_is_int = false;
        return Step::Ok(format!("{v} = {}", r.range(1, 50)));
    }
    // a process waiting for its message / holding a result attracts the next steps
    let forced: Option<u64> = if g.procs.iter().any(|p| p.1 == 0) && r.chance(1, 3) {
        Some(40)
    } else if g.procs.iter().any(|p| p.1 == 1) && r.chance(1, 4) {
        Some(42)
    } else {
        None
    };
    match forced.unwrap_or_else(|| r.below(46)) {
        0 => {
            let v = fresh(g, "a");
            g.ints.push(v.clone());
            g.last_is_int = false;
            g.feats.push("bind-int");
            Step::Ok(format!("{v} = {}", r.range(-20, 900)))
        }
        1 => {
            let v = fresh(g, "a");
            let s = format!("{v} = [{}, {}] __integer_add__", r.pick(&g.ints), r.pick(&g.ints));
            g.ints.push(v);
            g.last_is_int = false;
            g.feats.push("bind-computed");
            Step::Ok(s)
        }
        2 => {
            // shadowing: rebind an existing int variable
            let v = r.pick(&g.ints).clone();
            g.last_is_int = false;
            g.feats.push("shadow");
            Step::Ok(format!("{v} = [{v}, {}] __integer_multiply__", r.range(2, 5)))
        }
        3 => {
            // alias
            let v = fresh(g, "a");
            let s = format!("{v} = {}", r.pick(&g.ints));
            g.ints.push(v);
            g.last_is_int = false;
            g.feats.push("alias");
            Step::Ok(s)
        }
        4 => {
            let v = fresh(g, "p");
            let s = format!("{v} = Point[x: {}, y: {}]", r.pick(&g.ints), r.pick(&g.ints));
            g.pts.push(v);
            g.last_is_int = false;
            g.feats.push("bind-tuple");
            Step::Ok(s)
        }
        5 if !g.pts.is_empty() => {
            // destructuring into two new variables
            let (x, y) = (fresh(g, "a"), fresh(g, "a"));
            let s = format!("Point[x: {x}, y: {y}] = {}", r.pick(&g.pts));
            g.ints.push(x);
            g.ints.push(y);
            g.last_is_int = false;
            g.feats.push("destructure");
            Step::Ok(s)
        }
        6 => {
            let (x, y) = (fresh(g, "a"), fresh(g, "a"));
            let s = format!("[{x}, {y}] = [{}, [{}, 1] __integer_add__]", r.pick(&g.ints), r.pick(&g.ints));
            g.ints.push(x);
            g.ints.push(y);
            g.last_is_int = false;
            g.feats.push("destructure");
            Step::Ok(s)
        }
        7 => {
            // closure over earlier bindings
            let v = fresh(g, "f");
            let s = format!(
                "{v} = #'int {{ [[~, {}] __integer_multiply__, {}] __integer_subtract__ }}",
                r.pick(&g.ints),
                r.pick(&g.ints)
            );
            g.fns.push(v);
            g.last_is_int = false;
            g.feats.push("closure");
            Step::Ok(s)
        }
        8 if !g.fns.is_empty() => {
            let v = fresh(g, "a");
            let s = format!("{v} = {} {}", r.pick(&g.ints), r.pick(&g.fns));
            g.ints.push(v);
            g.last_is_int = false;
            g.feats.push("call-closure");
            Step::Ok(s)
        }
        9 if g.last_is_int => {
            // use the previous result
            g.last_is_int = true;
            g.feats.push("previous-result");
            Step::Ok(format!("[~, {}] __integer_add__", r.pick(&g.ints)))
        }
        10 if g.last_is_int => {
            let v = fresh(g, "a");
            let s = format!("[~, 2] __integer_multiply__ ={v}");
            g.ints.push(v);
            g.last_is_int = false; // a match evaluates to Ok
            g.feats.push("previous-result-bind");
            Step::Ok(s)
        }
        11 => {
            // expression only (no binding), with a temporary block
            g.last_is_int = true;
            g.feats.push("expression");
            Step::Ok(format!(
                "{} {{ | =0 => 1 | [~, {}] __integer_add__ }}",
                r.pick(&g.ints),
                r.pick(&g.ints)
            ))
        }
        12 => {
            g.feats.push("type-alias");
            g.k += 1;
            Step::Alias(format!("'t{} = Point[x: 'int, y: 'int]", g.k))
        }
        13 => {
            let v = fresh(g, "q");
            let s = format!("{v} = Pair[{}, \"s{}\"]", r.pick(&g.ints), r.below(9));
            g.pairs.push(v);
            g.last_is_int = false;
            g.feats.push("bind-str");
            Step::Ok(s)
        }
        14 => {
            // import from the in-memory module
            let v = fresh(g, "a");
            let s = match r.below(3) {
                0 => format!("{v} = {} %m.f", r.pick(&g.ints)),
                1 => format!("{v} = %m.a"),
                _ => format!("{v} = [%m.a, {}] %m.add", r.pick(&g.ints)),
            };
            g.ints.push(v);
            g.last_is_int = false;
            g.feats.push("import");
            if !g.seen_modules.contains(&"m") {
                g.seen_modules.push("m");
            }
            Step::Ok(s)
        }
        17 | 18 => {
            // use of a module (std or in-memory); prefer one whose first import was in a rejected line
            let m: &'static str = if !g.poisoned.is_empty() && r.chance(3, 4) { *r.pick(&g.poisoned) } else { *r.pick(&g.mods) };
            let v = fresh(g, "a");
            let (src, is_int) = use_module(m, &v, &r.pick(&g.ints).clone(), &r.pick(&g.ints).clone(), r.below(9));
            if is_int {
                g.ints.push(v);
            }
            if g.poisoned.contains(&m) {
                g.feats.push("import-after-rejected-first-import");
            }
            if !g.seen_modules.contains(&m) {
                g.seen_modules.push(m);
            }
            g.last_is_int = false;
            g.feats.push("import-module");
            Step::Ok(src)
        }
        19 | 20 => {
            // a compile-rejected line that contains an import — preferably the session's FIRST import of it
            let fresh_mods: Vec<&'static str> = g.mods.iter().copied().filter(|m| !g.seen_modules.contains(m) && !g.poisoned.contains(m)).collect();
            let m: &'static str = if !fresh_mods.is_empty() && r.chance(4, 5) { *r.pick(&fresh_mods) } else { *r.pick(&g.mods) };
            if !g.seen_modules.contains(&m) {
                g.feats.push("rejected-compile-first-import");
                if !g.poisoned.contains(&m) {
                    g.poisoned.push(m);
                }
            } else {
                g.feats.push("rejected-compile-with-import");
            }
            Step::BadCompile(reject_with_module(m, &r.pick(&g.ints).clone()))
        }
        24 => {
            let v = fresh(g, "u");
            let s = format!("{v} = {} {{ | =0 => \"zero\" | =n => n }}", r.range(0, 3));
            g.unions.push(v);
            g.last_is_int = false;
            g.feats.push("bind-union");
            Step::Ok(s)
        }
        25 | 31 | 32 if !g.unions.is_empty() => {
            // a RUN-TIME type test, on a later step, of a value and types introduced earlier
            let u = r.pick(&g.unions).clone();
            g.last_is_int = true;
            g.feats.push("type-test-earlier-union");
            Step::Ok(match r.below(3) {
                0 => format!("{u} {{ | ='int => 1 | ='bin => 2 | 3 }}"),
                1 => format!("{u} {{ | =('int)i => [i, 1] __integer_add__ | =Str[b] => 7 }}"),
                _ => format!("{u} {{ | =Str['bin] => 5 | ='int => 6 }}"),
            })
        }
        26 => {
            let v = fresh(g, "s");
            let s = format!("{v} = {} {{ | =0 => Circle[r: {}] | Square[w: {}] }}", r.range(0, 1), r.range(1, 9), r.range(1, 9));
            g.shapes.push(v);
            g.last_is_int = false;
            g.feats.push("bind-shape-union");
            Step::Ok(s)
        }
        27 | 33 | 34 if !g.shapes.is_empty() => {
            let v = r.pick(&g.shapes).clone();
            g.last_is_int = true;
            g.feats.push("type-test-earlier-tuple-union");
            Step::Ok(if r.chance(1, 2) {
                format!("{v} {{ | =Circle(r) => r | =Square(w) => [w, 10] __integer_add__ }}")
            } else {
                format!("{v} {{ | =Square(w: 'int) => 1 | =Circle(r: 'int) => 2 }}")
            })
        }
        28 => {
            let v = fresh(g, "unwrap");
            let s = format!("{v} = #<'t>(Some['t] | None) {{ | =Some[x] => {} | =None => 0 }}", r.range(1, 9));
            g.generics.push(v);
            g.last_is_int = false;
            g.feats.push("bind-generic-over-option");
            Step::Ok(s)
        }
        29 | 30 | 35 | 36 | 37 if !g.generics.is_empty() => {
            // a generic function from an earlier step meets a tuple type first built NOW
            let f = r.pick(&g.generics).clone();
            g.k += 1;
            g.last_is_int = true;
            g.feats.push("generic-meets-later-tuple-type");
            Step::Ok(match r.below(4) {
                0 => format!("Some[{}] {f}", r.pick(&g.ints)),
                1 => format!("Some[Fresh{}[{}]] {f}", g.k, r.pick(&g.ints)),
                2 => format!("Some[\"s{}\"] {f}", g.k),
                _ => format!("None {f}"),
            })
        }
        38 | 39 => {
            // spawn a process that sleeps (waiting for one message) across the following lines
            let v = fresh(g, "p");
            let s = format!("{v} = @{{ !'int [~, {}] __integer_add__ }}", r.pick(&g.ints));
            g.procs.push((v, 0));
            g.last_is_int = false;
            g.feats.push("spawn-process");
            Step::Ok(s)
        }
        40 | 41 if g.procs.iter().any(|p| p.1 == 0) => {
            // message to a process spawned on an earlier step
            let i = g.procs.iter().position(|p| p.1 == 0).unwrap();
            g.procs[i].1 = 1;
            g.last_is_int = false;
            g.feats.push("send-to-earlier-process");
            Step::Ok(format!("{} {}", r.pick(&g.ints), g.procs[i].0))
        }
        42 | 43 if g.procs.iter().any(|p| p.1 == 1) => {
            // await a process from an earlier step (possibly awaited before: the result is kept)
            let done: Vec<&(String, u8)> = g.procs.iter().filter(|p| p.1 == 1).collect();
            let v = r.pick(&done).0.clone();
            g.last_is_int = true;
            g.feats.push("await-earlier-process");
            if r.chance(1, 2) {
                let w = fresh(g, "a");
                g.ints.push(w.clone());
                g.last_is_int = false;
                Step::Ok(format!("{w} = !{v}"))
            } else {
                Step::Ok(format!("!{v}"))
            }
        }
        44 => {
            // a line that is only an import (value or function value)
            let m: &'static str = *r.pick(&["m", "m2", "m3"]);
            if !g.seen_modules.contains(&m) {
                g.seen_modules.push(m);
            }
            g.feats.push("import-only-line");
            match m {
                "m2" => {
                    g.last_is_int = true;
                    Step::Ok("%m2.k".to_string())
                }
                "m3" => {
                    g.last_is_int = false;
                    Step::Ok("&%m3.f".to_string())
                }
                _ => {
                    g.last_is_int = true;
                    Step::Ok("%m.a".to_string())
                }
            }
        }
        21 if !g.fns.is_empty() => {
            // a named tail call OUTSIDE any function: must behave like an ordinary call (F50)
            g.last_is_int = true;
            g.feats.push("top-level-tail-call");
            Step::Ok(format!("{} ^{}", r.pick(&g.ints), r.pick(&g.fns)))
        }
        22 => {
            let v = fresh(g, "n");
            let s = format!("{v} = #{{ [{}, {}] __integer_add__ }}", r.pick(&g.ints), r.pick(&g.ints));
            g.nilary.push(v);
            g.last_is_int = false;
            g.feats.push("bind-nilary");
            Step::Ok(s)
        }
        23 if !g.nilary.is_empty() => {
            g.last_is_int = true;
            g.feats.push("top-level-tail-call-ripple");
            Step::Ok(format!("&{} ^~", r.pick(&g.nilary)))
        }
        15 if r.chance(1, 2) => {
            // a test on the flowing previous result
            g.last_is_int = true;
            g.feats.push("previous-result-test");
            Step::Ok("{ | =[] => 111 | 222 }".to_string())
        }
        15 => {
            g.feats.push("rejected-parse");
            Step::BadParse(r.pick(&["x = = 3", "[1, 2", "a1 = )", "#'int { ", "5 =>"]).to_string())
        }
        _ => {
            g.feats.push("rejected-compile");
            let v = r.pick(&g.ints).clone();
            Step::BadCompile(
                r.pick(&[
                    "zz9 = undefined_variable_zz".to_string(),
                    format!("bad = \"s\" __integer_abs__, {v}"),
                    format!("w9 = {v}, [w9, \"x\"] __integer_add__"),
                    format!("{v} no_such_function"),
                ])
                .clone(),
            )
        }
    }
}

const MODULE_M: &str = "m_a = 7,\nm_f = #'int { [~, m_a] __integer_multiply__ },\n[a: m_a, f: &m_f, add: &__integer_add__]";

const MODULE_M2: &str = "k = 3,\ng = #'int { [[~, k] __integer_add__, k] __integer_multiply__ },\n[k: k, g: &g]";

/// same export shape as `%m` (labels a, f, add) with different contents: a stale cache entry of one
/// resolves to something plausible-looking in the other
const MODULE_M3: &str = "m_a = 11,\nm_f = #'int { [~, m_a] __integer_subtract__ },\n[a: m_a, f: &m_f, add: &__integer_multiply__]";

// ---- one session -----------------------------------------------------------------------------------

fn violation(ev: &mut Ev, kind: &str, what: String, replay: serde_json::Value, found: bool) {
    // F50 (fixed 8f2fb45): a top-level `^f` truncated the persistent frame's locals; everything that
    // goes wrong with locals / variables / the worker at or after such a line gets that signature
    let tail = TAIL_SEEN.with(|t| t.get())
        && ["worker-fault", "line-fails-only-in-session", "variable-values-differ", "untouched-variable-changed", "bindings-differ-from-model",
            "locals-differ-from-model", "line-assumption-violated", "compile-rejected-not-compacted", "rejected-line-changed-variables",
            "twin-session-differs"]
            .contains(&kind);
    if tail {
        ev.violation("repl=top-level-tail-call-wipes-session-locals", &what, replay, found);
        return;
    }
    ev.violation(&format!("repl kind={kind}"), &what, replay, found);
    if kind.starts_with("previous-result-type-lost") {
        DIVERGED.with(|d| d.set(true));
    }
}

thread_local! {
    /// a top-level tail call (`x ^f`, `&n ^~`) has been submitted in the current session
    static TAIL_SEEN: std::cell::Cell<bool> = const { std::cell::Cell::new(false) };
    /// the current session has diverged from its one-program form through the known finding F-C11-1:
    /// later lines compute with a different previous result, comparing them further is meaningless
    static DIVERGED: std::cell::Cell<bool> = const { std::cell::Cell::new(false) };
}

fn run_session(ev: &mut Ev, model: &mut Model, si: u64, seed: u64) {
    let mut r = Rng::for_case(seed, si);
    let mut g = GenState { ints: vec![], pts: vec![], fns: vec![], pairs: vec![], nilary: vec![], unions: vec![], shapes: vec![], generics: vec![], procs: vec![], seen_modules: vec![], poisoned: vec![], mods: if r.chance(1, 5) { MODS.to_vec() } else { vec!["m", "m2", "m3"] }, last_is_int: false, k: 0, feats: vec![] };
    let n_steps = 3 + r.usize(10);
    let mut steps: Vec<Step> = vec![];
    for _ in 0..n_steps {
        steps.push(gen_step(&mut r, &mut g));
    }
    if r.chance(1, 3) && !g.ints.is_empty() {
        // the session ends with a nil-valued step (a failing match)
        let a = r.pick(&g.ints).clone();
        steps.push(Step::Ok(format!("{a} =987654321")));
        g.feats.push("nil-valued-final-step");
    }
    for f in &g.feats {
        ev.hit(&format!("gen:{f}"));
    }
    // group consecutive accepted steps into lines (a split of the program into lines)
    let mut lines: Vec<Step> = vec![];
    let mut i = 0;
    while i < steps.len() {
        match &steps[i] {
            Step::Ok(s) => {
                let mut parts = vec![s.clone()];
                let want = 1 + r.usize(3);
                while parts.len() < want && i + 1 < steps.len() {
                    if let Step::Ok(s2) = &steps[i + 1] {
                        parts.push(s2.clone());
                        i += 1;
                    } else {
                        break;
                    }
                }
                ev.hit(&format!("line:steps-{}", parts.len()));
                lines.push(Step::Ok(parts.join(", ")));
            }
            other => lines.push(other.clone()),
        }
        i += 1;
    }

    run_lines(ev, model, si, lines, &mut r);
}

/// Run a fixed list of lines as one session (generated or from corpus/C11).
fn run_lines(ev: &mut Ev, model: &mut Model, si: u64, lines: Vec<Step>, r: &mut Rng) {
    DIVERGED.with(|d| d.set(false));
    TAIL_SEEN.with(|t| t.set(false));
    let mut modules = HashMap::new();
    modules.insert(vec!["m".to_string()], MODULE_M.to_string());
    modules.insert(vec!["m2".to_string()], MODULE_M2.to_string());
    modules.insert(vec!["m3".to_string()], MODULE_M3.to_string());
    let workers = 1 + r.usize(2);
    let random_schedule = r.chance(1, 2);
    let mut sim = Sim::new(workers, None, qverif::run::builtins(), true).with_repl(modules.clone());
    ev.hit(if random_schedule { "schedule:random" } else { "schedule:fair" });

    let nil_tok = tok("t(_;)");
    let _ = model.ask(&format!("(reset {nil_tok} {})", tok("Tuple(0)")));
    let mut accepted: Vec<String> = vec![]; // accepted step texts so far (for the one-program oracle)
    // a type-definition-only line was accepted since the last line that produced a value (known finding:
    // such a line overwrites the REPL's type of the previous result with nil)
    let mut alias_since_value = false;
    // (line, result) of every accepted line and whether a compile-rejected line was seen — for the twin session
    let mut history: Vec<(String, LineResult)> = vec![];
    let mut saw_compile_rejected = false;
    // module ids committed by accepted lines (what the model's `moduleCache` must hold)
    let mut expected_cache: Vec<String> = vec![];
    let mut prev = observe(&mut sim);
    let mut transcript: Vec<serde_json::Value> = vec![];
    let replay = |lines: &Vec<Step>, transcript: &Vec<serde_json::Value>| json!({"lines": lines.iter().map(|l| format!("{l:?}")).collect::<Vec<_>>(), "workers": workers, "random_schedule": random_schedule, "transcript": transcript});

    for (li, line) in lines.iter().enumerate() {
        let src = match line {
            Step::Ok(s) | Step::Alias(s) | Step::BadParse(s) | Step::BadCompile(s) => s.clone(),
        };
        if src.contains(" ^") {
            TAIL_SEEN.with(|t| t.set(true));
        }
        let res = submit_line(&mut sim, &src, if random_schedule { Some(&mut *r) } else { None });
        let obs = observe(&mut sim);
        if !sim.faults.is_empty() {
            let f = sim.faults.iter().map(|(i, c, m)| format!("{i}:{c}:{}", m.chars().take(120).collect::<String>())).collect::<Vec<_>>();
            transcript.push(json!({"line": src, "result": format!("{res:?}"), "faults": f}));
            violation(ev, "worker-fault",
                format!("session {si} line {li} `{src}`: a worker / environment step returned an error or panicked: {}", f.join(" | ")),
                replay(&lines, &transcript), true);
            ev.case(&(si, "fault"), true);
            return;
        }
        transcript.push(json!({"line": src, "result": format!("{res:?}"), "order": obs.order, "index": obs.index, "values": obs.value, "locals": obs.locals}));
        ev.hit(&format!(
            "result:{}",
            match &res {
                LineResult::Value(_) => "value",
                LineResult::RuntimeError(_) => "runtime-error",
                LineResult::ParseError => "parse-error",
                LineResult::CompileError(_) => "compile-error",
                LineResult::NoCode => "no-code",
                LineResult::Hang => "hang",
            }
        ));
        // consistency of the two views of the bindings
        let mut by_index: Vec<(usize, String)> = obs.index.iter().map(|(n, i)| (*i, n.clone())).collect();
        by_index.sort();
        let order_from_index: Vec<usize> = obs.order.iter().filter_map(|n| obs.index.get(n).copied()).collect();
        if order_from_index.windows(2).any(|w| w[0] > w[1]) || obs.index.len() != obs.order.len() {
            violation(ev, "get_variables-order", format!("session {si} line {li}: get_variables() is not in index order: {:?} vs {:?}", obs.order, obs.index), replay(&lines, &transcript), true);
        }

        match (line, &res) {
            (_, LineResult::ParseError) | (_, LineResult::CompileError(_)) => {
                if matches!(line, Step::Ok(_) | Step::Alias(_)) {
                    ev.hit("unexpected:generated-step-rejected");
                    if std::env::var("VERIF_DEBUG").is_ok() {
                        eprintln!("unexpected rejection: `{src}` → {res:?}");
                    }
                    // rejected in the session — is it also rejected as the next step of ONE program?
                    let mut with = accepted.clone();
                    with.push(src.clone());
                    let one = eval_one(&join_program(&with), &modules);
                    if let LineResult::Value(v1) = &one {
                        violation(ev, &qualify("line-rejected-only-in-session", alias_since_value, &src),
                            format!("session {si} line {li} `{src}` is rejected in the session ({res:?}) but as the next step of one program it evaluates to {v1}"),
                            replay(&lines, &transcript), true);
                    }
                    ev.hit("checked:unexpected-rejection-vs-one-program");
                }
                // ---- rejected line: observationally a no-op ----
                let model_ans = if matches!(res, LineResult::ParseError) {
                    model.ask("(line parse-error)")
                } else {
                    model.ask(&format!("(line compile-error {})", mods_in(&src).join(" ")))
                };
                check_cache(ev, si, li, &src, &model_ans, &expected_cache);
                if obs.order != prev.order || obs.value != prev.value {
                    violation(ev, "rejected-line-changed-variables",
                        format!("session {si} line {li} `{src}` was rejected but variables changed: {:?} → {:?}", prev.value, obs.value),
                        replay(&lines, &transcript), true);
                }
                compare_with_model(ev, si, li, &src, &model_ans, &obs, &lines, &transcript, &replay);
                if matches!(res, LineResult::CompileError(_)) {
                    // compaction ran: exactly the bound variables remain as locals
                    if obs.locals.len() != obs.order.len() {
                        violation(ev, "compile-rejected-not-compacted",
                            format!("session {si} line {li}: after a compile-rejected line locals={} but variables={}", obs.locals.len(), obs.order.len()),
                            replay(&lines, &transcript), false);
                    }
                }
                if matches!(res, LineResult::CompileError(_)) {
                    saw_compile_rejected = true;
                }
                ev.hit("checked:rejected-noop");
            }
            (_, LineResult::NoCode) => {
                let b: Vec<String> = obs.index.iter().map(|(n, i)| format!("({n} {i})")).collect();
                let model_ans = model.ask(&format!("(line no-code (bindings {}) (imports {}))", b.join(" "), mods_in(&src).join(" ")));
                for m in mods_in(&src) {
                    if !expected_cache.contains(&m) {
                        expected_cache.push(m);
                    }
                }
                check_cache(ev, si, li, &src, &model_ans, &expected_cache);
                if obs.value != prev.value {
                    violation(ev, "alias-line-changed-variables", format!("session {si} line {li} `{src}`: a type-alias line changed variables"), replay(&lines, &transcript), true);
                }
                compare_with_model(ev, si, li, &src, &model_ans, &obs, &lines, &transcript, &replay);
                accepted.push(src.clone());
                history.push((src.clone(), res.clone()));
                alias_since_value = true;
                // the variables, as the ONE program sees them after the same steps
                if !obs.order.is_empty() && accepted.iter().any(|a| !a.starts_with('\'')) {
                    let refs: Vec<String> = obs.order.iter().map(|n| format!("&{n}")).collect();
                    let all = eval_one(&format!("{},\n[{}, 0]", join_program(&accepted), refs.join(", ")), &modules);
                    let expect = format!(
                        "t(_;{},_=i0)",
                        obs.order.iter().map(|n| format!("_={}", obs.value.get(n).cloned().unwrap_or_default())).collect::<Vec<_>>().join(",")
                    );
                    if all != LineResult::Value(expect) {
                        violation(ev, "variable-values-differ",
                            format!("session {si} line {li} `{src}` (type definitions only): REPL variables {:?} but one program gives {all:?}", obs.value),
                            replay(&lines, &transcript), true);
                    }
                    ev.hit("checked:variables-vs-one-program-after-type-line");
                }
            }
            (_, LineResult::Value(v)) => {
                if !matches!(line, Step::Ok(_)) {
                    ev.hit("unexpected:rejected-line-accepted");
                }
                let after_alias = alias_since_value;
                alias_since_value = false;
                history.push((src.clone(), res.clone()));
                accepted.push(src.clone());
                // ---- model ----
                let n_before = prev.order.len(); // compacted length = number of bindings
                let appended: Vec<String> = obs.locals.iter().skip(n_before).map(|s| tok(s)).collect();
                let b: Vec<String> = obs.index.iter().map(|(n, i)| format!("({n} {i})")).collect();
                let model_ans = model.ask(&format!(
                    "(line ran (bindings {}) (appended {}) (result {} {}) (imports {}))",
                    b.join(" "),
                    appended.join(" "),
                    tok(v),
                    tok(&obs.last_ty),
                    mods_in(&src).join(" ")
                ));
                for m in mods_in(&src) {
                    if !expected_cache.contains(&m) {
                        expected_cache.push(m);
                    }
                }
                check_cache(ev, si, li, &src, &model_ans, &expected_cache);
                compare_with_model(ev, si, li, &src, &model_ans, &obs, &lines, &transcript, &replay);
                // ---- oracle: the accepted steps as ONE program ----
                let joined = join_program(&accepted);
                let one = eval_one(&joined, &modules);
                if one != LineResult::Value(v.clone()) {
                    let nil_involved = matches!(&one, LineResult::Value(x) if x == "t(_;)");
                    violation(ev, &qualify(if nil_involved { "line-value-differs-nil" } else { "line-value-differs" }, after_alias, &src),
                        format!("session {si} line {li} `{src}`: REPL gives {v} but the lines as one program give {one:?}"),
                        replay(&lines, &transcript), true);
                }
                let nil_line = v == "t(_;)";
                if nil_line {
                    // a nil-valued line: the one program short-circuits here, so the variables cannot be read
                    // from it; the session must still hold every earlier variable (checked below) and ends
                    ev.hit("checked:nil-valued-line");
                }
                if !obs.order.is_empty() && !nil_line {
                    let refs: Vec<String> = obs.order.iter().map(|n| format!("&{n}")).collect();
                    let all = eval_one(&format!("{joined},\n[{}, 0]", refs.join(", ")), &modules);
                    let expect = format!(
                        "t(_;{},_=i0)",
                        obs.order.iter().map(|n| format!("_={}", obs.value.get(n).cloned().unwrap_or_default())).collect::<Vec<_>>().join(",")
                    );
                    if all != LineResult::Value(expect.clone()) {
                        violation(ev, &qualify("variable-values-differ", after_alias, &src),
                            format!("session {si} line {li} `{src}`: REPL variables {:?} but one program gives {all:?}", obs.value),
                            replay(&lines, &transcript), true);
                    }
                    ev.hit("checked:variables-vs-one-program");
                }
                ev.hit("checked:line-vs-one-program");
                // old variables keep their values unless rebound by this line
                for (n, old) in &prev.value {
                    if let Some(new) = obs.value.get(n)
                        && new != old
                        && !src.contains(&format!("{n} =")) && !src.contains(&format!("={n}")) && !src.contains(&format!("{n},")) && !src.contains(&format!("{n}]"))
                    {
                        violation(ev, "untouched-variable-changed", format!("session {si} line {li} `{src}`: variable {n} changed from {old} to {new}"), replay(&lines, &transcript), true);
                    }
                }
            }
            (_, other) => {
                // runtime error / hang: the persistent process is gone (`ProcessFailed`); end the session —
                // after asking the oracle whether the one program fails too
                ev.hit(&format!("session-ended:{}", format!("{other:?}").chars().take(24).collect::<String>()));
                let mut with = accepted.clone();
                with.push(src.clone());
                let one = eval_one(&join_program(&with), &modules);
                if let LineResult::Value(v1) = &one {
                    violation(ev, &qualify("line-fails-only-in-session", alias_since_value, &src),
                        format!("session {si} line {li} `{src}` ends with {other:?} in the session but as the next step of one program it evaluates to {v1}"),
                        replay(&lines, &transcript), true);
                }
                ev.case(&(si, "aborted"), false);
                return;
            }
        }
        let ended_by_nil = matches!(&res, LineResult::Value(x) if x == "t(_;)");
        prev = obs;
        if ended_by_nil {
            ev.hit("session-ended:nil-valued-line");
            break;
        }
        if DIVERGED.with(|d| d.replace(false)) {
            ev.hit("session-ended:diverged-by-known-finding");
            ev.case(&(si, "diverged"), true);
            return;
        }
    }
    // ---- twin session: the same accepted lines in a session that never saw the rejected ones ----
    if saw_compile_rejected && !history.is_empty() {
        let mut twin = Sim::new(1, None, qverif::run::builtins(), false).with_repl(modules.clone());
        let mut differs = None;
        for (k, (src, expect)) in history.iter().enumerate() {
            let got = submit_line(&mut twin, src, None);
            if &got != expect {
                differs = Some(format!("line {k} `{src}`: with rejected lines in between {expect:?}, without them {got:?}"));
                break;
            }
        }
        if differs.is_none() {
            let t = observe(&mut twin);
            if t.value != prev.value || t.order != prev.order {
                differs = Some(format!("final variables: with rejected lines {:?}, without them {:?}", prev.value, t.value));
            }
        }
        if let Some(d) = differs {
            violation(ev, "twin-session-differs",
                format!("session {si}: a rejected line was not a no-op — {d}"),
                replay(&lines, &transcript), true);
        }
        ev.hit("checked:twin-session-without-rejected-lines");
    }
    ev.case(&lines.iter().map(|l| format!("{l:?}")).collect::<Vec<_>>(), accepted.len() >= 2);
    ev.sample_sparse(si, 41, || json!({"session": si, "transcript": transcript}));
}

/// Signature of a session/one-program difference. When a type-definition-only line sits between the
/// last value-producing line and a line that uses the flowing previous result, the difference is the
/// known finding F-C11-1 (notes/C11.md); anything else keeps the plain kind.
fn qualify(kind: &str, alias_since_value: bool, src: &str) -> String {
    let first_step = src.split(',').next().unwrap_or("");
    let uses_previous = src.trim_start().starts_with('{') || first_step.contains('~');
    if alias_since_value && uses_previous { format!("previous-result-type-lost-after-type-only-line:{kind}") } else { kind.to_string() }
}

/// Modules a line mentions (`%name`, `'%name`), in order of first mention.
fn mods_in(src: &str) -> Vec<String> {
    let mut out: Vec<String> = vec![];
    let b: Vec<char> = src.chars().collect();
    let mut i = 0;
    while i < b.len() {
        if b[i] == '%' {
            let mut j = i + 1;
            let mut name = String::new();
            while j < b.len() && (b[j].is_ascii_alphanumeric() || b[j] == '_' || b[j] == '/') {
                name.push(b[j]);
                j += 1;
            }
            if !name.is_empty() && !out.contains(&name) {
                out.push(name);
            }
            i = j;
        } else {
            i += 1;
        }
    }
    out
}

fn join_program(steps: &[String]) -> String {
    // Type aliases are hoisted to the front (they are transparent to the flow). The parser rejects
    // an alias that FOLLOWS an expression step (`a = 1\n't = 'int\nb = 2` → parse error), although
    // docs/spec.md says aliases may be interspersed — see notes/C11.md "Observations".
    let mut out = String::new();
    for s in steps.iter().filter(|s| s.starts_with('\'')) {
        out.push_str(s);
        out.push('\n');
    }
    let code: Vec<&String> = steps.iter().filter(|s| !s.starts_with('\'')).collect();
    for (i, s) in code.iter().enumerate() {
        out.push_str(s);
        if i + 1 < code.len() {
            out.push_str(",\n");
        }
    }
    out
}

/// The model's module cache holds exactly the modules of the accepted lines (a rejected line's imports
/// are rolled back: `C11.rejected_line_keeps_module_cache`).
fn check_cache(ev: &mut Ev, si: u64, li: usize, src: &str, ans: &str, expected: &[String]) {
    let mc: Vec<String> = ans
        .split_whitespace()
        .find_map(|p| p.strip_prefix("mc="))
        .map(|m| m.split(',').filter(|x| !x.is_empty()).map(|x| x.to_string()).collect())
        .unwrap_or_default();
    if mc != expected {
        ev.violation(
            "repl kind=module-cache-differs-from-model",
            &format!("session {si} line {li} `{src}`: model module cache {mc:?} vs modules of the accepted lines {expected:?}"),
            json!({"broken": "M-Repl module cache bookkeeping (C11.rejected_line_keeps_module_cache)", "model": mc, "expected": expected}),
            false,
        );
    }
    ev.hit("checked:module-cache");
}

#[allow(clippy::too_many_arguments)]
fn compare_with_model(
    ev: &mut Ev,
    si: u64,
    li: usize,
    src: &str,
    ans: &str,
    obs: &Obs,
    lines: &Vec<Step>,
    transcript: &Vec<serde_json::Value>,
    replay: &dyn Fn(&Vec<Step>, &Vec<serde_json::Value>) -> serde_json::Value,
) {
    // ans: b=x:i,y:j l=tok,tok arg=tok viol=…
    let mut mb: BTreeMap<String, usize> = BTreeMap::new();
    let mut ml: Vec<String> = vec![];
    let mut viol = String::new();
    let mut mty = String::new();
    for part in ans.split_whitespace() {
        if let Some(b) = part.strip_prefix("b=") {
            for e in b.split(',').filter(|e| !e.is_empty()) {
                if let Some((n, i)) = e.rsplit_once(':') {
                    mb.insert(n.to_string(), i.parse().unwrap_or(usize::MAX));
                }
            }
        } else if let Some(l) = part.strip_prefix("l=") {
            ml = l.split(',').filter(|e| !e.is_empty()).map(|s| s.to_string()).collect();
        } else if let Some(v) = part.strip_prefix("viol=") {
            viol = v.to_string();
        } else if let Some(t) = part.strip_prefix("ty=") {
            mty = t.to_string();
        }
    }
    if !ans.starts_with("b=") {
        violation(ev, "model-bad-answer", format!("session {si} line {li}: model answered `{ans}`"), replay(lines, transcript), false);
        return;
    }
    if viol != "none" {
        violation(ev, "line-assumption-violated",
            format!("session {si} line {li} `{src}`: the line violates the index assumptions of C11.runLine_preserves_aligned: {viol}"),
            json!({"broken": "C11.runLine_preserves_aligned hypothesis (compiler index assignment / compaction prediction)", "detail": viol, "session": replay(lines, transcript)}), false);
    }
    if mb != obs.index {
        violation(ev, "bindings-differ-from-model",
            format!("session {si} line {li} `{src}`: model bindings {mb:?} vs observed {:?}", obs.index),
            json!({"broken": "correspondence M-Repl<->Repl on the index map (compact / keep_indices)", "session": replay(lines, transcript)}), false);
    }
    let ol: Vec<String> = obs.locals.iter().map(|s| tok(s)).collect();
    if ml != ol {
        violation(ev, "locals-differ-from-model",
            format!("session {si} line {li} `{src}`: model locals {} vs observed {} ({:?})", ml.len(), ol.len(), obs.locals),
            json!({"broken": "correspondence M-Repl<->worker on locals (compact_locals / release_orphan_locals / frame exit)", "model": ml, "observed": obs.locals, "session": replay(lines, transcript)}), false);
    }
    if mty != tok(&obs.last_ty) {
        violation(ev, "last-result-type-differs-from-model",
            format!("session {si} line {li} `{src}`: the REPL records the type {} for the flowing result, the model (a line that runs no code keeps the result's type) predicts another", obs.last_ty),
            json!({"broken": "correspondence M-Repl<->Repl on last_result_type (C11.runLine_preserves_argTyped / code_less_line_keeps_result_and_type)", "observed": obs.last_ty, "session": replay(lines, transcript)}), false);
    }
    ev.hit("checked:model-state");
}

fn main() {
    qverif::quiet_panics();
    let opts = Opts::parse();
    let mut ev = Ev::new("C11", &opts);
    ev.rule = "one case = one generated REPL session (3–12 steps grouped into lines of 1–3 steps; bindings, computed bindings, \
               shadowing, aliases, tuple destructuring, closures over earlier bindings and calls to them, uses of the previous \
               result, block expressions with temporaries, type-alias lines, module imports, parse- and compile-rejected lines) \
               on 1–2 workers under a fair or random schedule; after every line all variables, indices and the process locals are \
               read and compared with the model and with the lines evaluated as one program; non-trivial when at least two lines ran; \
               distinct by the line texts"
        .into();
    let mut model = Model::spawn(opts.model.as_ref().expect("--model"));

    if let Some(p) = &opts.replay {
        let text = std::fs::read_to_string(p).expect("replay file");
        println!("replay (re-run `./check C11 --seed <seed>`; the session is regenerated from (seed, session index)):\n{}", &text[..text.len().min(4000)]);
        std::process::exit(0);
    }

    // regression corpus first: one session per file, one line per text line
    if let Ok(rd) = std::fs::read_dir("/verif/corpus/C11") {
        let mut files: Vec<_> = rd.filter_map(|e| e.ok()).map(|e| e.path()).collect();
        files.sort();
        for (fi, f) in files.iter().enumerate() {
            let Ok(text) = std::fs::read_to_string(f) else { continue };
            let lines: Vec<Step> = text
                .lines()
                .filter(|l| !l.trim().is_empty() && !l.starts_with("//"))
                .map(|l| if l.starts_with('\'') { Step::Alias(l.to_string()) } else { Step::Ok(l.to_string()) })
                .collect();
            let mut r = Rng::for_case(opts.seed ^ 0xC0, fi as u64);
            run_lines(&mut ev, &mut model, 1_000_000 + fi as u64, lines, &mut r);
            ev.hit("corpus:session");
        }
    }
    let n = opts.tier.pick(2500u64, 60_000u64);
    for si in 0..n {
        run_session(&mut ev, &mut model, si, opts.seed ^ 0xC11);
    }
    ev.set_extra("model_requests", json!(model.requests));
    ev.set_extra("sessions", json!(n));
    drop(model);
    std::process::exit(ev.finish());
}
