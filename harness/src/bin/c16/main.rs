//! C16 — tail calls run in constant space.
//!
//! Tail-recursive program shapes (self recursion with and without accumulator, from nested
//! branches and nested blocks with bindings, with helper calls and closures in the body, entered
//! through `^f` / `^~` hops, started below other frames, with binaries allocated and dropped per
//! iteration) are compiled and run on the sync path with `profile = true` at N and 50·N:
//!   * oracle on the implementation: `peak_frame_count`, `peak_locals_size`, `peak_stack_size`
//!     equal at N and 50·N; `heap_stats().slots` at 50·N within one slice's allocations of the
//!     value at N and equal (±1 iteration) to the value at 100·N; growth = VIOLATION with the
//!     program as failing input;
//!   * loop heads on the real executor (instruction trace of the N run): every re-entry of a frame
//!     slot through a tail call has the stack length and locals count of its first entry
//!     (`C16.loop_head_invariant`);
//!   * correspondence with the model (`qm_c16`): every observed `TailCall` step is replayed through
//!     the Lean `handleTailCall` (frames / locals / stack / counter after the step), sampled points
//!     are compared with the closed form `stackBaseOf rest + ann.height`
//!     (`C16.stack_length_running`), loop heads with `entry-sizes` (`C16.AtEntry`).
use qverif::run::{Builtins, RunOutcome, compile_source};
use qverif::{Ev, Model, Opts, Rng};
use serde_json::json;
use std::collections::HashMap;

#[path = "../c07/shared.rs"]
mod shared;
use shared::*;

/// A program shape: source with the iteration count spliced in.
struct Shape {
    kind: &'static str,
    make: Box<dyn Fn(u64) -> String>,
}

fn wrap_blocks(body: String, depth: u64) -> String {
    // wrap a tail-calling step into `depth` nested blocks that bind a local each
    let mut s = body;
    for d in 0..depth {
        s = format!("{{ w{d} = {d}, {s} }}");
    }
    s
}

fn shape(r: &mut Rng) -> Shape {
    let k = r.range(1, 9);
    let depth = r.below(4);
    let hop = r.below(4);
    let kind = r.below(30);
    // how the loop is entered: directly, through `^f`, through `^~`, or below other frames
    let enter = move |loop_name: &str, arg: String| -> (String, String) {
        match hop {
            0 => (String::new(), format!("{arg} {loop_name}")),
            1 => (format!("enter = #'int {{ [~, 0] __integer_add__ ^{loop_name} }},\n"), format!("{arg} enter")),
            2 => (
                format!("outer = #'int {{ [[~ {loop_name}, 1] __integer_add__, 2] __integer_multiply__ }},\nmid = #'int {{ [~ outer, 3] }},\n"),
                format!("{arg} mid"),
            ),
            _ => (format!("nz = #{{ {arg} {loop_name} }},\nrip = #'int {{ &nz ^~ }},\n"), "0 rip".to_string()),
        }
    };
    match kind {
        0 => Shape {
            kind: "self-countdown",
            make: Box::new(move |n| {
                let (pre, call) = enter("loop", format!("{n}"));
                format!("loop = #'int {{ | =0 => 0 | [~, 1] __integer_subtract__ ^ }},\n{pre}{call}")
            }),
        },
        1 => Shape {
            kind: "self-accumulator",
            make: Box::new(move |n| {
                // pair argument: enter through a direct call only
                format!("loop = #['int, 'int] {{ | =[0, acc] => acc | =[n, acc] => [[n, 1] __integer_subtract__, [acc, {k}] __integer_add__] ^ }},\n[{n}, 0] loop")
            }),
        },
        2 => Shape {
            kind: "nested-branch",
            make: Box::new(move |n| {
                format!("loop = #['int, 'int] {{ | =[0, acc] => acc | =[n, acc] => n {{ | =1 => [0, [acc, 1] __integer_add__] ^ | [[n, 1] __integer_subtract__, [acc, {k}] __integer_add__] ^ }} }},\n[{n}, 0] loop")
            }),
        },
        3 => Shape {
            kind: "nested-block-bindings",
            make: Box::new(move |n| {
                let step = wrap_blocks("m = [n, 1] __integer_subtract__, t = [acc, m] __integer_add__, [m, t] ^".to_string(), depth);
                format!("loop = #['int, 'int] {{ =[n, acc], n {{ | =0 => acc | {step} }} }},\n[{n}, 0] loop")
            }),
        },
        4 => Shape {
            kind: "binary-dropped",
            make: Box::new(move |n| {
                let (pre, call) = enter("count", format!("{n}"));
                format!("count = #'int {{ | =0 => 0 | =n => {{ [0x01, 0x02] __binary_concat__, [n, 1] __integer_subtract__ ^ }} }},\n{pre}{call}")
            }),
        },
        5 => Shape {
            kind: "binary-bound-local",
            make: Box::new(move |n| {
                let step = wrap_blocks("b = [0x0a0b, 0x0c] __binary_concat__, c = [b, b] __binary_concat__, [n, 1] __integer_subtract__ ^".to_string(), depth);
                format!("count = #'int {{ | =0 => 0 | =n => {step} }},\n{n} count")
            }),
        },
        6 => Shape {
            kind: "binary-accumulator-replaced",
            make: Box::new(move |n| {
                format!("loop = #['int, 'bin] {{ | =[0, acc] => acc | =[n, acc] => [[n, 1] __integer_subtract__, [0x{:02x}, 0xff] __binary_concat__] ^ }},\n[{n}, 0x00] loop", k)
            }),
        },
        7 => Shape {
            kind: "closure-captures",
            make: Box::new(move |n| {
                let (pre, call) = enter("lp", format!("{n}"));
                format!("mk = #['int, 'int] {{ =[a, b], #'int {{ | =0 => [a, b] __integer_add__ | [~, 1] __integer_subtract__ ^ }} }},\nlp = [{k}, 4] mk,\n{pre}{call}")
            }),
        },
        8 => Shape {
            kind: "helper-calls-in-body",
            make: Box::new(move |n| {
                let (pre, call) = enter("loop", format!("{n}"));
                format!("dec = #'int {{ [~, 1] __integer_subtract__ }},\nid2 = #'int {{ =v, [v dec, 1] __integer_add__ }},\nloop = #'int {{ | =0 => 0 | id2 dec ^ }},\n{pre}{call}")
            }),
        },
        9 => Shape {
            kind: "many-locals",
            make: Box::new(move |n| {
                let step = wrap_blocks("a = [n, 1] __integer_subtract__, b = [a, 1] __integer_add__, c = [b, acc] __integer_add__, [x, y] = [c, a], [y, [x, 0] __integer_multiply__] ^".to_string(), depth);
                format!("loop = #['int, 'int] {{ | =[0, acc] => acc | =[n, acc] => {step} }},\n[{n}, 0] loop")
            }),
        },
        10 => Shape {
            kind: "tuple-arg-ripple",
            make: Box::new(move |n| {
                format!("loop = #P[n: 'int, acc: 'int] {{ | =P[n: 0, acc: a] => a | =P[n: m, acc: a] => [m, 1] __integer_subtract__ P[n: ~, acc: [a, {k}] __integer_add__] ^ }},\nP[n: {n}, acc: 0] loop")
            }),
        },
        12 | 13 => {
            // the loop re-enters itself through a NAMED tail call `^self` (the function is handed to
            // itself, the idiom of std/iter.qv) written inside a nested block that survives
            // simplification: it binds, matches, or has several `|` branches
            let form = r.below(4);
            Shape {
                kind: match form { 0 => "named-in-binding-block", 1 => "named-in-matching-block", 2 => "named-in-branch-block", _ => "named-in-function-branch" },
                make: Box::new(move |n| {
                    let body = match form {
                        0 => format!("{{ m = [n, 1] __integer_subtract__, [&self, m, [acc, {k}] __integer_add__] ^self }}"),
                        1 => format!("{{ [n, acc] =[a, b], [&self, [a, 1] __integer_subtract__, [b, {k}] __integer_add__] ^self }}"),
                        2 => format!("{{ | n =1 => [&self, 0, [acc, 1] __integer_add__] ^self | [&self, [n, 1] __integer_subtract__, [acc, {k}] __integer_add__] ^self }}"),
                        _ => format!("[&self, [n, 1] __integer_subtract__, [acc, {k}] __integer_add__] ^self"),
                    };
                    format!("loop = #[#^ -> 'int, 'int, 'int] {{ | =[_, 0, acc] => acc | =[self, n, acc] => {body} }},\n[&loop, {n}, 0] loop")
                }),
            }
        }
        14 | 15 => {
            // re-entry through a RIPPLE tail call `self ^~` (thunk idiom) inside a nested block
            let form = r.below(3);
            Shape {
                kind: match form { 0 => "ripple-in-binding-block", 1 => "ripple-in-branch-block", _ => "ripple-in-matching-block" },
                make: Box::new(move |n| {
                    let body = match form {
                        0 => format!("#{{ | n =0 => acc | {{ m = [n, 1] __integer_subtract__, [&self, m, [acc, {k}] __integer_add__] self ^~ }} }}"),
                        1 => format!("#{{ {{ | n =0 => acc | n =1 => [&self, 0, [acc, 1] __integer_add__] self ^~ | [&self, [n, 1] __integer_subtract__, [acc, {k}] __integer_add__] self ^~ }} }}"),
                        _ => format!("#{{ | n =0 => acc | {{ [n, acc] =[a, b], [&self, [a, 1] __integer_subtract__, [b, {k}] __integer_add__] self ^~ }} }}"),
                    };
                    format!("mk = #[#^ -> (#[] -> 'int), 'int, 'int] {{ =[self, n, acc], {body} }},\n[&mk, {n}, 0] mk =t, t")
                }),
            }
        }
        16 | 17 => Shape {
            // mutual recursion: ping and pong hand control to each other with `^other`, each call
            // inside a nested multi-branch block
            kind: "mutual-in-branch-block",
            make: Box::new(move |n| {
                format!("pong = #[#^ -> 'int, #^ -> 'int, 'int, 'int] {{ =[me, other, n, acc], {{ | n =0 => acc | [&other, &me, [n, 1] __integer_subtract__, [acc, 1] __integer_add__] ^other }} }},\nping = #[#^ -> 'int, #^ -> 'int, 'int, 'int] {{ =[me, other, n, acc], {{ | n =0 => acc | [&other, &me, [n, 1] __integer_subtract__, [acc, {k}] __integer_add__] ^other }} }},\n[&ping, &pong, {n}, 0] ping")
            }),
        },
        24..=29 => {
            // the loop's state is a value of a UNION of tuple types and every iteration rebuilds it
            // with a spread (one tuple construction per variant, selected at run time): for each
            // variant the state can be at run time
            let form = kind - 24;
            let three = r.chance(1, 2);
            let start = if three { ["A", "B", "C"][r.usize(3)] } else { ["A", "B"][r.usize(2)] };
            let ty = if three { "A[x: 'int, y: 'int] | B[x: 'int, y: 'int] | C[x: 'int, y: 'int]" } else { "A[x: 'int, y: 'int] | B[x: 'int, y: 'int]" };
            Shape {
                kind: match form { 0 | 1 => "union-spread-state-update", 2 | 3 => "union-spread-state-ripple", 4 => "union-spread-into-unnamed", _ => "union-spread-two-sources" },
                make: Box::new(move |n| match form {
                    0 | 1 => format!("'t = {ty},\nloop = #[s: 't, n: 'int] {{ | =[s: s, n: 0] => s.x | =[s: s, n: n] => [s: s[..., x: [s.x, {k}] __integer_add__], n: [n, 1] __integer_subtract__] ^ }},\n[s: {start}[x: 0, y: 1], n: {n}] loop"),
                    2 | 3 => format!("'t = {ty},\nloop = #['t, 'int] {{ | =[s, 0] => s.y | =[s, n] => [s ~[..., y: [s.y, {k}] __integer_add__], [n, 1] __integer_subtract__] ^ }},\n[{start}[x: 1, y: 0], {n}] loop"),
                    4 => format!("'t = {ty},\nloop = #[s: 't, n: 'int] {{ | =[s: s, n: 0] => s.x | =[s: s, n: n] => {{ t = [...s, k: 1], [s: s, n: [n, t.k] __integer_subtract__] ^ }} }},\n[s: {start}[x: {k}, y: 0], n: {n}] loop"),
                    _ => format!("'t = {ty},\nloop = #[s: 't, n: 'int] {{ | =[s: s, n: 0] => s.y | =[s: s, n: n] => {{ d = [y: [s.y, 1] __integer_add__], [s: s[..., ...d], n: [n, 1] __integer_subtract__] ^ }} }},\n[s: {start}[x: {k}, y: 0], n: {n}] loop"),
                }),
            }
        }
        18..=22 => {
            // the standard library's iterator skip loops (`self ^~` inside nested blocks)
            let form = kind - 18;
            Shape {
                kind: match form { 0 => "std-iter-filter", 1 => "std-iter-drop", 2 => "std-iter-drop_while", 3 => "std-iter-cycle", _ => "std-iter-flat_map" },
                make: Box::new(move |n| match form {
                    0 => format!("{n} %range.to %range.iter [~, #'int {{ ={} }}] %iter.filter [~, 0] %iter.nth", n - 1),
                    1 => format!("{n} %range.to %range.iter [~, {}] %iter.drop [~, 0] %iter.nth", n - 1),
                    2 => format!("{n} %range.to %range.iter [~, #'int {{ [~, {}] %num.lt? }}] %iter.drop_while [~, 0] %iter.nth", n - 1),
                    3 => format!("3 %range.to %range.iter %iter.cycle [~, {n}] %iter.nth"),
                    _ => format!("{n} %range.to %range.iter [~, #'int {{ | ={} => 1 %range.to %range.iter | 0 %range.to %range.iter }}] %iter.flat_map [~, 0] %iter.nth", n - 1),
                }),
            }
        }
        _ => Shape {
            kind: "tail-in-fallback-branch",
            make: Box::new(move |n| {
                let (pre, call) = enter("loop", format!("{n}"));
                format!("loop = #'int {{ | =0 => 0 | =n => {{ | n {{ =1 => [] }} | [n, 1] __integer_subtract__ ^ }} }},\n{pre}{call}")
            }),
        },
    }
}

/// Message-driven loops: a spawned server recurses with `^` once per received message (the nilary
/// server-loop idiom `#{ !#'int, ^ }` and its stateful variants); a pump function sends N messages.
fn server_shape(r: &mut Rng) -> (&'static str, Box<dyn Fn(u64) -> String>) {
    let k = r.range(1, 9);
    let pump = |n: u64| format!("pump = #'int {{ | =0 => 0 | =n => {{ n srv, [n, 1] __integer_subtract__ ^ }} }}, {n} pump");
    let bpump = |n: u64| format!("pump = #'int {{ | =0 => 0 | =n => {{ [0x0a0b, 0x0c] __binary_concat__ srv, [n, 1] __integer_subtract__ ^ }} }}, {n} pump");
    match r.below(16) {
        // the binary of every iteration comes from OUTSIDE the looping process: a received message,
        // the argument of a spawn (Executor::inject_heap_data)
        11 => ("server-receives-binary", Box::new(move |n| format!("srv = @#{{ !#'bin, ^ }}, {}", bpump(n)))),
        12 => ("server-binary-state-replaced", Box::new(move |n| format!("srv = 0x0{k} @#'bin {{ =acc, !#'bin =m, m ^ }}, {}", bpump(n)))),
        13 => ("server-receives-binary-and-int", Box::new(move |n| format!("srv = @#{{ ! [#'bin, #'int] {{ | ='bin => 1 | ='int => 2 }}, ^ }}, pump = #'int {{ | =0 => 0 | =n => {{ 0x010203040{k} srv, n srv, [n, 1] __integer_subtract__ ^ }} }}, {n} pump"))),
        14 => ("loop-spawns-with-binary-argument", Box::new(move |n| format!("pump = #'int {{ | =0 => 0 | =n => {{ [0x0a0b, 0x0{k}] __binary_concat__ @#'bin {{ 1 }}, [n, 1] __integer_subtract__ ^ }} }}, {n} pump"))),
        15 => ("server-receives-binary-binds", Box::new(move |n| format!("srv = @#{{ !#'bin =m, [m, 0x0{k}] __binary_concat__, ^ }}, {}", bpump(n)))),
        8 => ("server-nilary-captures", Box::new(move |n| format!("k = {k}, srv = @#{{ !#'int =m, [m, k] __integer_add__, ^ }}, {}", pump(n)))),
        9 => ("server-nilary-two-sources", Box::new(move |n| format!("srv = @#{{ ! [#'int, #'bin] {{ | ='int => 1 | ='bin => 2 }}, ^ }}, 0x0{k} srv, {}", pump(n)))),
        10 => ("server-nilary-spawns-child", Box::new(move |n| format!("srv = @#{{ !#'int =m, @#{{ {k} }}, ^ }}, {}", pump(n)))),
        0 => ("server-nilary", Box::new(move |n| format!("srv = @#{{ !#'int, ^ }}, {}", pump(n)))),
        1 => ("server-nilary-binds", Box::new(move |n| format!("srv = @#{{ !#'int =v, [v, {k}] __integer_add__, ^ }}, {}", pump(n)))),
        2 => ("server-nilary-block", Box::new(move |n| format!("srv = @#{{ !#'int {{ | =0 => Ok | ~ }}, ^ }}, {}", pump(n)))),
        3 => ("server-nilary-binary", Box::new(move |n| format!("srv = @#{{ !#'int =v, [0x01, 0x02] __binary_concat__, ^ }}, {}", pump(n)))),
        4 => ("server-stateful", Box::new(move |n| format!("srv = 0 @#'int {{ =acc, !#'int =m, [acc, m] __integer_add__ ^ }}, {}", pump(n)))),
        5 => ("server-stateful-tuple", Box::new(move |n| format!("srv = [0, {k}] @#['int, 'int] {{ =[cnt, last], !#'int =m, [[cnt, 1] __integer_add__, m] ^ }}, {}", pump(n)))),
        6 => ("server-nilary-nested-tail", Box::new(move |n| format!("srv = @#{{ !#'int =m, m {{ | =0 => Done | {{ t = [m, {k}] __integer_add__, t, ^ }} }} }}, {}", pump(n)))),
        _ => ("server-nilary-filter", Box::new(move |n| format!("srv = @#{{ ! [#'int {{ [~, 0] __integer_compare__ =1 => Ok }}], ^ }}, {}", pump(n)))),
    }
}

/// (pid, stack, locals, frames, status) of every process except the REPL's after the system went quiet.
fn run_server(src: &str, b: &Builtins, iterations: u64) -> Result<(Vec<(usize, usize, usize, usize, String)>, usize), String> {
    use qverif::sim::{EvalOutcome, Sim};
    let src = src.to_string();
    let b = b.clone();
    qverif::catch(move || {
        let mut sim = Sim::new(1, None, b, false).with_repl(HashMap::new());
        let rounds = 400 + 40 * iterations as usize;
        match qverif::sim::eval_in(&mut sim, &src, None, rounds) {
            EvalOutcome::Value(_) => {}
            other => return Err(format!("eval: {}", other.render())),
        }
        // let the server drain its mailbox
        sim.run_fair(rounds, |s| s.quiescent());
        let repl_pid = sim.repl.as_ref().map(|r| r.process_id()).unwrap_or(0);
        let slots = sim.workers[0].verif_executor().heap_stats().slots;
        Ok((
            sim.processes()
                .into_iter()
                .filter(|(pid, _, _)| *pid != repl_pid)
                .map(|(pid, _, info)| (pid, info.stack_size, info.locals_count, info.frames_count, format!("{:?}/mailbox={}", info.status, info.mailbox_size)))
                .collect(),
            slots,
        ))
    })
    .unwrap_or_else(|p| Err(format!("panic: {}", p.lines().next().unwrap_or(""))))
}

/// What else lives on the executor while the churning loop runs.
#[derive(Clone, Copy, Debug, PartialEq)]
enum Parked {
    Nobody,
    /// a process waiting for the answer to an effect request (`effecting`): the normal state of an
    /// I/O server blocked in accept / read / stat
    Effect,
    /// a process whose spawn request has not been answered (`spawning`)
    Spawning,
    /// a process waiting in a receive (`selecting`)
    Receiving,
}

struct Churn {
    slots_end: usize,
    peak_in_use: usize,
    peak_pending: usize,
    steps: usize,
}

/// The program's value is `[effect fn, spawner fn, receiver fn, churn loop]`; the loop allocates
/// and drops binaries and tail-calls itself.
fn churn_program(variant: u64, k: i64) -> String {
    let body = match variant {
        0 => "{ [0x01, 0x02] __binary_concat__, [n, 1] __integer_subtract__ ^ }".to_string(),
        1 => format!("{{ b = [0x0a0b, 0x{:02x}] __binary_concat__, c = [b, b] __binary_concat__, [n, 1] __integer_subtract__ ^ }}", k),
        2 => "{ | n =1 => { [0x01, 0x02] __binary_concat__ =last, 0 ^ } | { t = [[0x03, 0x04] __binary_concat__, n], [n, 1] __integer_subtract__ ^ } }".to_string(),
        _ => "{ [0x05, 0x06] __binary_concat__ =b, [b, 0x07] __binary_concat__ =c, [c, b] =pair, [n, 1] __integer_subtract__ ^ }".to_string(),
    };
    format!("[\n  #{{ 0x2f __filesystem_stat__ }},\n  #{{ @#{{ 1 }} }},\n  #{{ !#'int }},\n  #'int {{ | =0 => Ok | =n => {body} }}\n]")
}

/// Runs the churn loop for `n` iterations as a process of a real executor, driven step by step
/// (virtual clock 0, no Environment), optionally with another process parked on the same executor.
/// After every `step` (the point where `process_pending_free` ran) the heap view is sampled.
fn run_churn(src: &str, n: u64, parked: Parked, b: &Builtins) -> Result<Churn, String> {
    use quiver_core::value::Value;
    let unit = compile_source(src, &HashMap::new(), b).map_err(|e| format!("front end: {e:?}"))?;
    let bc = unit.program.to_bytecode(Some(unit.entry));
    let (end, _, ex) = run_budgeted(&bc, b, false, false, 4000, 1000);
    let Some(mut ex) = ex else { return Err(format!("load: {end:?}")) };
    let fields = match ex.get_process(0).and_then(|p| p.result.clone()) {
        Some(Ok(Value::Tuple(_, fields))) => fields,
        other => return Err(format!("load: unexpected value {other:?}")),
    };
    let idx = |v: &Value| match v {
        Value::Function(i, caps) if caps.is_empty() => Ok(*i),
        other => Err(format!("load: expected a capture-free function, got {other:?}")),
    };
    let (f_effect, f_spawner, f_receiver, f_churn) = (idx(&fields[0])?, idx(&fields[1])?, idx(&fields[2])?, idx(&fields[3])?);
    qverif::catch(move || {
        let mut outstanding = None;
        let other = match parked {
            Parked::Nobody => None,
            Parked::Effect => Some(f_effect),
            Parked::Spawning => Some(f_spawner),
            Parked::Receiving => Some(f_receiver),
        };
        if let Some(f) = other {
            ex.spawn_process(1, Some(f), vec![], Value::nil(), vec![], false).map_err(|e| format!("spawn parked: {e:?}"))?;
            // step it until it has handed its request over / parked in its receive
            for _ in 0..200 {
                let (did, action) = ex.step(1000, 0);
                if let Some(a) = action {
                    outstanding = Some(a); // left unanswered for the duration of the loop
                    break;
                }
                if !did {
                    break;
                }
            }
            let (spawning, selecting, effecting) = ex.verif_parked();
            let ok = match parked {
                Parked::Effect => effecting.contains(&1),
                Parked::Spawning => spawning.contains(&1),
                Parked::Receiving => selecting.contains(&1),
                Parked::Nobody => true,
            };
            if !ok {
                return Err(format!("the other process is not parked as intended ({parked:?}): spawning={spawning:?} selecting={selecting:?} effecting={effecting:?}"));
            }
        }
        ex.spawn_process(2, Some(f_churn), vec![], Value::Integer((n as i64).into()), vec![], false).map_err(|e| format!("spawn churn: {e:?}"))?;
        let mut out = Churn { slots_end: 0, peak_in_use: 0, peak_pending: 0, steps: 0 };
        let budget = n as usize * 60 + 5000;
        loop {
            let (_did, _action) = ex.step(1000, 0);
            out.steps += 1;
            let hv = ex.verif_heap_view();
            let in_use = hv.freed.iter().filter(|f| !**f).count();
            out.peak_in_use = out.peak_in_use.max(in_use);
            out.peak_pending = out.peak_pending.max(hv.pending_free.len());
            match ex.get_process(2).and_then(|p| p.result.clone()) {
                Some(Ok(_)) => break,
                Some(Err(e)) => return Err(format!("churn loop failed: {}", qverif::canon::error_class(&e))),
                None => {}
            }
            if out.steps > budget {
                return Err("churn loop did not finish".to_string());
            }
        }
        if let Err(e) = ex.check_refcounts() {
            return Err(format!("refcount invariant: {e}"));
        }
        out.slots_end = ex.heap_stats().slots;
        drop(outstanding);
        Ok(out)
    })
    .unwrap_or_else(|p| Err(format!("panic: {}", p.lines().next().unwrap_or(""))))
}

struct Peaks {
    frames: usize,
    locals: usize,
    stack: usize,
    slots: usize,
    /// peak slots in use / deferred-free queue length sampled at every step boundary
    in_use: usize,
    pending: usize,
    instructions: u64,
    result: String,
}

/// Profiled run on the sync path, same slice length as `execute_bytecode_sync` (1000 units), with a
/// budget: a loop that does not finish is an outcome.
fn run_profile(src: &str, b: &Builtins, iterations: u64) -> Result<Peaks, String> {
    let unit = compile_source(src, &HashMap::new(), b).map_err(|e| format!("front end: {e:?}"))?;
    let bc = unit.program.to_bytecode(Some(unit.entry));
    // a slice ends at 1000 units *or whenever a frame returns*: allow 60 slices per iteration
    let max_slices = iterations as usize * 60 + 2000;
    let (end, _, ex, hp) = run_budgeted_heap(&bc, b, true, false, max_slices, 1000, true);
    match (end, ex) {
        (RunEnd::Value, Some(ex)) => {
            let result = ex
                .get_process(0)
                .and_then(|p| p.result.clone())
                .and_then(|r| r.ok())
                .map(|v| {
                    let out = RunOutcome::Value(v);
                    qverif::run::canon_outcome(&out, Some(&ex), &bc)
                })
                .unwrap_or_default();
            Ok(Peaks {
                frames: ex.stats.peak_frame_count,
                locals: ex.stats.peak_locals_size,
                stack: ex.stats.peak_stack_size,
                slots: ex.heap_stats().slots,
                in_use: hp.in_use,
                pending: hp.pending,
                instructions: ex.stats.total_instructions(),
                result,
            })
        }
        (RunEnd::Budget, _) => Err("run: budget exhausted (does not terminate)".into()),
        (RunEnd::Error(c), _) => Err(format!("run: error {c}")),
        (RunEnd::Panic(p), _) => Err(format!("run: panic {p}")),
        (e, _) => Err(format!("run: {e:?}")),
    }
}

fn main() {
    qverif::quiet_panics();
    let opts = Opts::parse();
    let mut ev = Ev::new("C16", &opts);
    ev.rule = "one case = one tail-recursive program shape (kind × entry hop × nesting depth × constants) run at N, \
               50N and 100N with profiling plus a traced run at N; non-trivial when all runs return a value and the \
               traced run re-enters a frame slot through a tail call at least N-1 times; distinct by source at N"
        .into();
    let b = qverif::run::builtins();
    let mut model = Model::spawn(opts.model.as_ref().expect("--model"));
    // debugging aid: `c16 --probe FILE` (source with `@N@` for the iteration count): peaks at N = 40
    // and N = 2000 on the sync path, or — with `--probe-server FILE` — under the simulator
    if let Some(i) = opts.extra.iter().position(|x| x == "--probe" || x == "--probe-server") {
        let text = std::fs::read_to_string(&opts.extra[i + 1]).expect("read source");
        let server = opts.extra[i] == "--probe-server";
        for n in [40u64, 2000] {
            let src = text.replace("@N-1@", &(n - 1).to_string()).replace("@N@", &n.to_string());
            if server {
                println!("N={n}: {:?}", run_server(&src, &b, n));
            } else {
                match run_profile(&src, &b, n) {
                    Ok(p) => println!("N={n}: frames={} locals={} stack={} slots={} in_use={} pending={} result={}", p.frames, p.locals, p.stack, p.slots, p.in_use, p.pending, p.result),
                    Err(e) => println!("N={n}: {e}"),
                }
            }
        }
        return;
    }
    let n_shapes = opts.tier.pick(150u64, 3000u64);
    let mut tailcalls_replayed = 0u64;
    let mut samples_checked = 0u64;
    let mut reentries = 0u64;

    // regression corpus first: *.qv with the literal `@N@` for the iteration count
    let mut fixed: Vec<(String, String)> = vec![];
    if let Ok(d) = std::fs::read_dir("/verif/corpus/C16") {
        let mut files: Vec<_> = d.filter_map(|e| e.ok()).map(|e| e.path()).collect();
        files.sort();
        for f in files {
            if f.extension().and_then(|e| e.to_str()) == Some("qv") {
                if let Ok(t) = std::fs::read_to_string(&f) {
                    fixed.push((f.file_name().unwrap().to_string_lossy().to_string(), t));
                }
            }
        }
    }
    let total = fixed.len() as u64 + n_shapes;
    for i in 0..total {
        let mut r = Rng::for_case(opts.seed ^ 0xC16, i);
        let n = 24 + r.below(30);
        let (kind, make): (String, Box<dyn Fn(u64) -> String>) = if (i as usize) < fixed.len() {
            let (name, text) = fixed[i as usize].clone();
            (format!("corpus:{name}"), Box::new(move |n| text.replace("@N-1@", &(n - 1).to_string()).replace("@N@", &n.to_string())))
        } else {
            let sh = shape(&mut r);
            (sh.kind.to_string(), sh.make)
        };
        let src_n = make(n);
        let src_50 = make(50 * n);
        let src_100 = make(100 * n);
        ev.hit(&format!("shape:{kind}"));

        let (pn, p50, p100) = match (run_profile(&src_n, &b, n), run_profile(&src_50, &b, 50 * n), run_profile(&src_100, &b, 100 * n)) {
            (Ok(a), Ok(b2), Ok(c)) => (a, b2, c),
            (a, b2, c) => {
                let why = [a.err(), b2.err(), c.err()].into_iter().flatten().next().unwrap_or_default();
                if kind.starts_with("corpus:reject_") && why.starts_with("front end") {
                    // a must-reject entry (a repaired defect whose repair is a compile error)
                    ev.hit("corpus:must-reject-rejected");
                    ev.case(&src_n, true);
                    continue;
                }
                ev.hit(&format!("skipped:{}", why.split(':').next().unwrap_or("?")));
                ev.case(&src_n, false);
                if why.starts_with("run:") {
                    // every shape is a terminating, well-typed loop: any failure to produce a value
                    // (error, panic, no termination within 60 slices per iteration) is wrong
                    ev.violation(&format!("shape={kind} kind=run-failed"), &format!("tail-recursive shape {kind} fails: {why}"),
                        json!({"source_at_N": src_n, "source_at_50N": src_50, "N": n, "why": why}), true);
                }
                continue;
            }
        };
        if kind.starts_with("corpus:reject_") {
            ev.violation(&format!("shape={kind} kind=must-reject-program-accepted"),
                &format!("{kind} must be rejected by the compiler (its acceptance was a repaired defect) but compiles and runs"),
                json!({"source_at_N": src_n, "N": n}), true);
        }
        ev.sample_sparse(i, 40, || json!({"kind": kind, "N": n, "source_at_N": src_n,
            "peaks_N": [pn.frames, pn.locals, pn.stack, pn.slots], "peaks_50N": [p50.frames, p50.locals, p50.stack, p50.slots]}));

        // (V1) peaks do not grow
        for (what, a, c) in [("frames", pn.frames, p50.frames), ("locals", pn.locals, p50.locals), ("stack", pn.stack, p50.stack)] {
            if a != c {
                ev.violation(
                    &format!("shape={kind} kind=peak-{what}-grows"),
                    &format!("peak {what} of shape {kind} is {a} at N={n} and {c} at 50N"),
                    json!({"source_at_N": src_n, "source_at_50N": src_50, "N": n, "what": what, "peak_N": a, "peak_50N": c,
                           "all_N": [pn.frames, pn.locals, pn.stack, pn.slots], "all_50N": [p50.frames, p50.locals, p50.stack, p50.slots]}),
                    true,
                );
            }
        }
        // (V2) heap: bounded by one slice's allocations, steady between 50N and 100N
        let per_iter = (p50.instructions / (50 * n)).max(1);
        let iters_per_slice = 1000 / per_iter + 2;
        let allocs_per_iter = 4u64; // the shapes allocate at most this many binaries per iteration
        let slack = (iters_per_slice * allocs_per_iter) as usize + 4;
        if p50.slots > pn.slots + slack || p100.slots > p50.slots + allocs_per_iter as usize * 2 + 2 {
            ev.violation(
                &format!("shape={kind} kind=heap-grows"),
                &format!("heap slots of shape {kind}: {} at N={n}, {} at 50N, {} at 100N (slack {slack})", pn.slots, p50.slots, p100.slots),
                json!({"source_at_N": src_n, "source_at_50N": src_50, "N": n, "slots": [pn.slots, p50.slots, p100.slots], "slack": slack}),
                true,
            );
        }
        if p50.in_use > pn.in_use + slack || p100.in_use > p50.in_use + allocs_per_iter as usize * 2 + 2
            || p50.pending > pn.pending + slack
        {
            ev.violation(
                &format!("shape={kind} kind=heap-in-use-grows"),
                &format!("shape {kind}: peak heap slots in use / queued at a step boundary: {}/{} at N={n}, {}/{} at 50N, {}/{} at 100N (slack {slack})", pn.in_use, pn.pending, p50.in_use, p50.pending, p100.in_use, p100.pending),
                json!({"source_at_N": src_n, "source_at_50N": src_50, "N": n, "in_use": [pn.in_use, p50.in_use, p100.in_use], "pending": [pn.pending, p50.pending, p100.pending], "slack": slack}),
                true,
            );
        }
        if pn.slots > 0 {
            ev.hit("heap:allocating-shape");
        }

        // traced run at N + model correspondence
        let unit = compile_source(&src_n, &HashMap::new(), &b).expect("compiled before");
        let bc = unit.program.to_bytecode(Some(unit.entry));
        let t = tables_of(&bc);
        let mut lines = prog_lines(&t);
        lines.push("(annotate)".into());
        let answers = model.ask_all(&lines);
        if !answers.last().map(|a| a.starts_with("ok")).unwrap_or(false) {
            ev.violation(&format!("shape={kind} kind=not-certified"), &format!("shape {kind} is not certified by checkAnn: {:?}", answers.last()),
                json!({"broken": "C07 certificate (hypothesis of the C16 theorems)", "source_at_N": src_n}), false);
            continue;
        }
        let anns = parse_anns(&model.ask("(annotations)")).unwrap_or_default();
        let anns = if anns.is_empty() {
            // qm_c16 has no (annotations); infer through per-function requests is not needed: use stack-at only
            vec![]
        } else {
            anns
        };
        let (end, trace) = run_traced(&bc, &b, 4000);
        if !matches!(end, RunEnd::Value) {
            ev.hit("traced-run:not-a-value");
        }
        // the replay needs annotations for its own checks; ask the C07-style inference from qm_c16
        let tc = if anns.is_empty() { None } else { Some(check_trace(&bc.functions, &anns, &trace)) };
        let Some(tc) = tc else {
            ev.violation("driver kind=no-annotations", "qm_c16 did not return annotations", json!({"broken": "qm_c16 (annotations)"}), false);
            continue;
        };
        reentries += tc.reentries as u64;
        ev.add("loop-reentries", tc.reentries as u64);
        let nontrivial = tc.reentries as u64 + 1 >= n;
        ev.case(&src_n, nontrivial);
        if let Some((k, what)) = &tc.mismatch {
            ev.violation(&format!("shape={kind} kind=trace-shape-mismatch"), &format!("trace of shape {kind} leaves the annotated shape: {what}"),
                json!({"broken": "correspondence M-VM <-> executor", "source_at_N": src_n, "trace_index": k, "what": what}), false);
        }
        // (V3) loop heads on the implementation
        if let Some((k, f, first, now)) = tc.loop_head_drift {
            ev.violation(
                &format!("shape={kind} kind=loop-head-drift"),
                &format!("shape {kind}: function {f} re-entered through a tail call with (stack, locals) = {now:?}, first entry had {first:?}"),
                json!({"source_at_N": src_n, "N": n, "trace_index": k, "function": f, "first_entry": [first.0, first.1], "this_entry": [now.0, now.1]}),
                true,
            );
        }
        // (V4) every observed TailCall step against the Lean `handleTailCall`
        for obs in &tc.tailcalls {
            let Some((f2, s2, l2)) = obs.after else { continue };
            let req = format!(
                "(tailcall {} {} {} {} {} {})",
                if obs.recurse { 1 } else { 0 },
                obs.s,
                obs.l,
                bc.functions[obs.f].captures,
                bc.functions[f2].captures,
                obs.depth
            );
            let ans = model.ask(&req);
            tailcalls_replayed += 1;
            let expect = format!("ok {} {} {} 0", obs.depth, l2, s2);
            if ans != expect {
                ev.violation(
                    &format!("shape={kind} kind=tailcall-step-differs"),
                    &format!("TailCall step of shape {kind}: executor -> (frames {}, locals {l2}, stack {s2}, pc 0), model `{req}` -> `{ans}`", obs.depth),
                    json!({"broken": "correspondence handleTailCall <-> executor::handle_tail_call", "source_at_N": src_n, "request": req, "model": ans, "executor": expect, "trace_index": obs.index}),
                    false,
                );
                break;
            }
            // closed form of the entry sizes on this activation
            let mut req2 = format!("(entry-sizes 0 0 {f2}");
            for (g, pc) in &obs.rest {
                req2.push_str(&format!(" ({g} {pc})"));
            }
            req2.push(')');
            let ans2 = model.ask(&req2);
            let expect2 = format!("ok {} {} {}", obs.depth, l2, s2);
            if ans2 != expect2 {
                ev.violation(
                    &format!("shape={kind} kind=entry-sizes-differ"),
                    &format!("entry sizes of shape {kind}: executor (frames {}, locals {l2}, stack {s2}), model `{req2}` -> `{ans2}`", obs.depth),
                    json!({"broken": "C16.AtEntry closed form <-> executor", "source_at_N": src_n, "request": req2, "model": ans2, "executor": expect2}),
                    false,
                );
                break;
            }
        }
        // sampled points against `stack_length_running`
        for smp in &tc.samples {
            let mut req = "(stack-at 0".to_string();
            for (g, pc) in &smp.frames {
                req.push_str(&format!(" ({g} {pc})"));
            }
            req.push(')');
            let ans = model.ask(&req);
            samples_checked += 1;
            if ans != format!("ok {}", smp.stack_len) {
                ev.violation(
                    &format!("shape={kind} kind=stack-closed-form-differs"),
                    &format!("stack length of shape {kind} at trace point {}: executor {}, model `{req}` -> `{ans}`", smp.index, smp.stack_len),
                    json!({"broken": "C16.stack_length_running closed form <-> executor", "source_at_N": src_n, "request": req, "model": ans, "executor": smp.stack_len}),
                    false,
                );
                break;
            }
        }
        ev.hit(&format!("peaks:frames={}", pn.frames.min(9)));
        let _ = (&p100.result, &pn.result);
        ev.hit(&format!("hop:{}", if src_n.contains("^~") { "ripple" } else if src_n.contains("enter =") { "named" } else if src_n.contains("outer =") { "below-frames" } else { "direct" }));
    }
    // message-driven server loops in the full system (deterministic simulator): the spawned
    // process's stack / locals / frames after N and after 50N messages
    let n_servers = opts.tier.pick(24u64, 400u64);
    let mut server_files: Vec<(String, String)> = vec![];
    if let Ok(d) = std::fs::read_dir("/verif/corpus/C16") {
        let mut files: Vec<_> = d.filter_map(|e| e.ok()).map(|e| e.path()).collect();
        files.sort();
        for f in files {
            if f.extension().and_then(|e| e.to_str()) == Some("srv") {
                if let Ok(t) = std::fs::read_to_string(&f) {
                    server_files.push((f.file_name().unwrap().to_string_lossy().to_string(), t));
                }
            }
        }
    }
    let mut servers_checked = 0u64;
    for i in 0..(server_files.len() as u64 + n_servers) {
        let mut r = Rng::for_case(opts.seed ^ 0x5E7, i);
        let n = 10 + r.below(12);
        let (kind, make): (String, Box<dyn Fn(u64) -> String>) = if (i as usize) < server_files.len() {
            let (name, text) = server_files[i as usize].clone();
            (format!("corpus:{name}"), Box::new(move |n| text.replace("@N@", &n.to_string())))
        } else {
            let (k, m) = server_shape(&mut r);
            (k.to_string(), m)
        };
        ev.hit(&format!("shape:{kind}"));
        let (src_n, src_50) = (make(n), make(50 * n));
        // the certificate (hypothesis of the theorems): the program as the REPL merges it
        if let Ok(unit) = compile_source(&src_n, &HashMap::new(), &b) {
            let bc = unit.program.to_bytecode(Some(unit.entry));
            let t = tables_of(&bc);
            let mut lines = prog_lines(&t);
            lines.push("(annotate)".into());
            let answers = model.ask_all(&lines);
            if !answers.last().map(|a| a.starts_with("ok")).unwrap_or(false) {
                ev.violation(&format!("shape={kind} kind=not-certified"), &format!("server shape {kind} is not certified by checkAnn: {:?}", answers.last()),
                    json!({"broken": "C07 certificate (hypothesis of the C16 theorems)", "source_at_N": src_n}), false);
            }
        }
        match (run_server(&src_n, &b, n), run_server(&src_50, &b, 50 * n)) {
            (Ok((a, slots_n)), Ok((c, slots_50))) => {
                servers_checked += 1;
                // binaries allocated per message and dropped: the worker's heap stays bounded
                if slots_50 > slots_n + 64 {
                    ev.violation(
                        &format!("shape={kind} kind=server-heap-grows"),
                        &format!("server loop {kind}: worker heap has {slots_n} slots after {n} messages and {slots_50} after {}", 50 * n),
                        json!({"source_at_N": src_n, "source_at_50N": src_50, "N": n, "slots_N": slots_n, "slots_50N": slots_50}),
                        true,
                    );
                }
                if slots_n > 0 {
                    ev.hit("server:heap-allocating");
                }
                ev.case(&src_n, !a.is_empty());
                ev.sample_sparse(i, 12, || json!({"kind": kind, "N": n, "source_at_N": src_n, "server_at_N": format!("{a:?}"), "server_at_50N": format!("{c:?}")}));
                // the server is the first process spawned; a shape may spawn a child per message
                let (a, c) = if a.len() != c.len() {
                    ev.hit("server:process-count-differs");
                    (a.into_iter().take(1).collect::<Vec<_>>(), c.into_iter().take(1).collect::<Vec<_>>())
                } else {
                    (a, c)
                };
                for ((pid, s1, l1, f1, st1), (_, s2, l2, f2, st2)) in a.iter().zip(c.iter()) {
                    ev.hit(&format!("server:status:{}", st1.split('/').next().unwrap_or("?")));
                    if st1 != st2 {
                        ev.hit("server:status-differs");
                    }
                    for (what, x, y) in [("stack", s1, s2), ("locals", l1, l2), ("frames", f1, f2)] {
                        if x != y {
                            ev.violation(
                                &format!("shape={kind} kind=server-{what}-grows"),
                                &format!("server loop {kind}: process {pid} holds {x} {what} cells after {n} messages and {y} after {} ({st1} / {st2})", 50 * n),
                                json!({"source_at_N": src_n, "source_at_50N": src_50, "N": n, "what": what, "at_N": x, "at_50N": y,
                                       "process": pid, "status_N": st1, "status_50N": st2}),
                                true,
                            );
                        }
                    }
                }
            }
            (a, c) => {
                let why = [a.err(), c.err()].into_iter().flatten().next().unwrap_or_default();
                ev.hit(&format!("server:skipped:{}", why.split(':').next().unwrap_or("?")));
                ev.case(&src_n, false);
                if why.starts_with("panic") {
                    ev.violation(&format!("shape={kind} kind=server-run-panics"), &format!("server loop {kind}: {why}"),
                        json!({"source_at_N": src_n, "why": why}), true);
                }
            }
        }
    }
    // a binary-churning loop with ANOTHER process of the same executor parked in an effect, in a
    // spawn request, or in a receive: reclamation must not depend on what the neighbours wait for
    let mut b_io = qverif::run::builtins();
    quiver_io::attach_file_builtins(&mut b_io);
    let n_churn = opts.tier.pick(8u64, 120u64);
    let mut churn_checked = 0u64;
    for i in 0..n_churn {
        let mut r = Rng::for_case(opts.seed ^ 0xC4A2, i);
        let variant = i % 4;
        let k = r.range(1, 200);
        let n = 150 + r.below(150);
        let src = churn_program(variant, k);
        for parked in [Parked::Nobody, Parked::Effect, Parked::Spawning, Parked::Receiving] {
            ev.hit(&format!("churn:{parked:?}"));
            match (run_churn(&src, n, parked, &b_io), run_churn(&src, 50 * n, parked, &b_io)) {
                (Ok(a), Ok(c)) => {
                    churn_checked += 1;
                    ev.case(&(src.clone(), format!("{parked:?}"), n), true);
                    ev.sample_sparse(i * 4 + parked as u64, 13, || json!({"churn_variant": variant, "parked": format!("{parked:?}"), "N": n,
                        "at_N": [a.slots_end, a.peak_in_use, a.peak_pending], "at_50N": [c.slots_end, c.peak_in_use, c.peak_pending]}));
                    // one slice's worth of not-yet-reclaimed garbage at most
                    let slack = 64usize;
                    for (what, x, y) in [("heap slots at the end", a.slots_end, c.slots_end), ("peak heap slots in use at a step boundary", a.peak_in_use, c.peak_in_use), ("peak deferred-free queue length", a.peak_pending, c.peak_pending)] {
                        if y > x + slack {
                            ev.violation(
                                &format!("churn parked={parked:?} kind=heap-grows"),
                                &format!("binary-churning loop (variant {variant}) with {parked:?} parked on the same executor: {what} = {x} after {n} iterations and {y} after {}", 50 * n),
                                json!({"program": src, "N": n, "parked": format!("{parked:?}"), "what": what, "at_N": x, "at_50N": y,
                                       "all_N": [a.slots_end, a.peak_in_use, a.peak_pending, a.steps], "all_50N": [c.slots_end, c.peak_in_use, c.peak_pending, c.steps]}),
                                true,
                            );
                        }
                    }
                }
                (a, c) => {
                    let why = [a.err(), c.err()].into_iter().flatten().next().unwrap_or_default();
                    ev.hit(&format!("churn:skipped:{}", why.split(':').next().unwrap_or("?")));
                    ev.case(&(src.clone(), format!("{parked:?}"), n), false);
                    if why.starts_with("refcount") || why.starts_with("panic") || why.starts_with("churn loop") {
                        ev.violation(&format!("churn parked={parked:?} kind=run-failed"), &format!("binary-churning loop with {parked:?} parked: {why}"),
                            json!({"program": src, "N": n, "parked": format!("{parked:?}"), "why": why}), true);
                    } else {
                        ev.set_extra("churn_last_skip_reason", json!(why));
                    }
                }
            }
        }
    }
    ev.set_extra("churn_runs_checked", json!(churn_checked));
    ev.set_extra("server_loops_checked", json!(servers_checked));
    ev.set_extra("shapes", json!(total));
    ev.set_extra("tailcall_steps_replayed_in_model", json!(tailcalls_replayed));
    ev.set_extra("closed_form_samples_checked", json!(samples_checked));
    ev.set_extra("loop_reentries_observed", json!(reentries));
    ev.set_extra("model_requests", json!(model.requests));
    println!("C16: {servers_checked} message-driven server loops; {churn_checked} churn runs with a parked neighbour;");
    println!("C16: {total} shapes, {reentries} loop re-entries observed, {tailcalls_replayed} TailCall steps replayed in the model, {samples_checked} closed-form samples");
    std::process::exit(ev.finish());
}
