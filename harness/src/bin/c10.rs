//! C10 — packaging steps preserve behaviour: tree-shake, serialise, merge, import.
//!
//! For every accepted program (corpora + generator) the harness builds the packaging variants the
//! toolchain can produce — bytecode as compiled `P`, `tree_shake(P)`, a serde_json round trip, the
//! environment's program after merging `P` (or `tree_shake(P)`) behind 1–3 other programs — and
//!
//!  * **validates** each `(P, P')` pair with the Lean validator (`qm_c10`, `checkRenaming`: recovers
//!    the index renaming by lock-step traversal from the two entries and checks `IsRenaming`, which
//!    `C10.run_commutes_with_renaming` proves sufficient for equal behaviour on every execution);
//!    the compatibility / canonical-tuple tables sent with `P'` are the ones the workers were
//!    actually given (`Command::UpdateProgram` seen by the simulator's transport);
//!  * **runs every variant** on the real `Environment`/`Worker` (deterministic simulator) and compares
//!    canonical results / error classes — the property oracle on the implementation;
//!  * compares `%m` / `%m.f` imports with evaluating the module body in place, and the `quiv run`
//!    entry extraction (`inject_function_captures`) with calling the closure in place.
//!
//! A validator rejection means "equivalence is no longer proved for this pair"; the harness then
//! looks for a concrete program whose variants behave differently (the case itself, then more
//! generated programs seeded from it).
use qverif::run::{Builtins, FrontError, RunOutcome, compile_source, run_sync};
use qverif::sim::Sim;
use qverif::{Ev, Model, Opts, Rng};
use quiver_core::bytecode::{Bytecode, ConcreteType, Constant, Instruction};
use quiver_core::compatibility::{CompatibilityInput, compute_canonical_tuples, compute_type_compatibility};
use quiver_core::optimisation::tree_shake;
use quiver_core::types::{TupleTypeInfo, Type};
use quiver_core::value::{Binary, Value};
use quiver_environment::Command;
use serde_json::json;
use std::collections::{BTreeSet, HashMap, HashSet};

// ---------------------------------------------------------------------------------------------
// S-expression encoding of a program for qm_c10
// ---------------------------------------------------------------------------------------------

fn atom(s: &str) -> String {
    let mut out = String::new();
    for c in s.chars() {
        if c.is_ascii_alphanumeric() || "_?!'-./<>#@$^*+:".contains(c) {
            out.push(c);
        } else {
            out.push_str(&format!("%{:02x}", c as u32));
        }
    }
    if out.is_empty() { "%".into() } else { out }
}

fn name_opt(n: &Option<String>) -> String {
    match n {
        Some(s) => format!("={}", atom(s)),
        None => "~".into(),
    }
}

fn nat_opt(n: &Option<usize>) -> String {
    match n {
        Some(x) => x.to_string(),
        None => "~".into(),
    }
}

fn sx_instr(i: &Instruction) -> String {
    use Instruction::*;
    match i {
        Constant(n) => format!("(c {n})"),
        Pop => "pop".into(),
        Duplicate => "dup".into(),
        Pick(n) => format!("(pick {n})"),
        Rotate(n) => format!("(rot {n})"),
        Reset(n) => format!("(reset {n})"),
        Load(n) => format!("(load {n})"),
        Store => "store".into(),
        Tuple(n) => format!("(tup {n})"),
        Get(n) => format!("(get {n})"),
        IsType(n) => format!("(ist {n})"),
        Jump(k) => format!("(jmp {k})"),
        JumpIf(k) => format!("(jif {k})"),
        Call => "call".into(),
        TailCall(b) => format!("(tc {})", if *b { 1 } else { 0 }),
        Function(n) => format!("(fn {n})"),
        Builtin(n) => format!("(bi {n})"),
        Equal(n) => format!("(eq {n})"),
        Not => "not".into(),
        Spawn => "spawn".into(),
        Send => "send".into(),
        Self_ => "self".into(),
        Select => "select".into(),
        Process(p, f) => format!("(proc {p} {f})"),
    }
}

fn sx_type(t: &Type) -> String {
    match t {
        Type::Integer => "int".into(),
        Type::Binary => "bin".into(),
        Type::Reference => "ref".into(),
        Type::Tuple(n) => format!("(tuple {n})"),
        Type::Partial { name, fields } => {
            let mut s = format!("(part {}", name_opt(name));
            for (f, t) in fields {
                s.push_str(&format!(" ({} {t})", atom(f)));
            }
            s.push(')');
            s
        }
        Type::Callable { parameter, result, receive } => format!("(fn {parameter} {result} {receive})"),
        Type::Cycle(d) => format!("(cycle {d})"),
        Type::Union(ids) => {
            let mut s = "(union".to_string();
            for i in ids {
                s.push_str(&format!(" {i}"));
            }
            s.push(')');
            s
        }
        Type::Process { send, receive } => format!("(process {} {})", nat_opt(send), nat_opt(receive)),
        Type::Resource(n) => format!("(resource {})", atom(n)),
        Type::Variable(n) => format!("(var {})", atom(n)),
    }
}

fn sx_tag(c: &ConcreteType) -> String {
    match c {
        ConcreteType::Integer => "i".into(),
        ConcreteType::Binary => "b".into(),
        ConcreteType::Reference => "r".into(),
        ConcreteType::Tuple(n) => format!("t{n}"),
        ConcreteType::Function(n) => format!("f{n}"),
        ConcreteType::Builtin(n) => format!("u{n}"),
        ConcreteType::Process(n) => format!("p{n}"),
        ConcreteType::Resource(n) => format!("x{n}"),
    }
}

/// A runtime value for the model (`Codec.parseVal`); binaries resolved to bytes. `None` for values
/// `value_to_instructions` cannot convert (refs, processes, resources).
fn sx_val(v: &Value, consts: &[Constant], ex: &qverif::run::Exec) -> Option<String> {
    Some(match v {
        Value::Integer(i) => format!("(i {i})"),
        Value::Binary(b) => {
            let bytes = match b {
                Binary::Constant(i) => match consts.get(*i) {
                    Some(Constant::Binary(v)) => v.clone(),
                    _ => return None,
                },
                Binary::Heap(i) => ex.get_heap_binary(*i)?.to_vec(),
            };
            if bytes.is_empty() { "(b)".to_string() } else { format!("(b {})", qverif::hex(&bytes)) }
        }
        Value::Tuple(id, fs) => {
            let inner: Option<Vec<String>> = fs.iter().map(|f| sx_val(f, consts, ex)).collect();
            let inner = inner?;
            if inner.is_empty() { format!("(t {id})") } else { format!("(t {id} {})", inner.join(" ")) }
        }
        Value::Function(i, cs) => {
            let inner: Option<Vec<String>> = cs.iter().map(|f| sx_val(f, consts, ex)).collect();
            let inner = inner?;
            if inner.is_empty() { format!("(f {i})") } else { format!("(f {i} {})", inner.join(" ")) }
        }
        Value::Builtin(i) => format!("(u {i})"),
        Value::Reference(_) | Value::Process(..) | Value::Resource(..) => return None,
    })
}

/// The run-time lookup tables of a program.
#[derive(Clone)]
struct Tables {
    compat: Vec<HashSet<ConcreteType>>,
    canon: Vec<usize>,
    fparam: Vec<HashSet<ConcreteType>>,
    bparam: Vec<HashSet<ConcreteType>>,
}

/// The tables `execute_bytecode_sync` / `merge_bytecode` compute for a stand-alone bytecode.
fn tables_of(bc: &Bytecode) -> Tables {
    let input = CompatibilityInput {
        types: &bc.types,
        tuples: &bc.tuples,
        functions: &bc.functions,
        builtins: &bc.builtins,
        resource_names: &bc.resources,
    };
    let (fparam, bparam) = quiver_core::compatibility::compute_param_compatibility(&input);
    Tables { compat: compute_type_compatibility(&input), canon: compute_canonical_tuples(&bc.tuples), fparam, bparam }
}

fn sx_prog(slot: &str, bc: &Bytecode, t: &Tables) -> String {
    let mut s = String::with_capacity(4096);
    s.push_str(&format!("(prog {slot} (consts"));
    for c in &bc.constants {
        match c {
            Constant::Integer(i) => s.push_str(&format!(" (i {i})")),
            Constant::Binary(b) if b.is_empty() => s.push_str(" (b)"),
            Constant::Binary(b) => s.push_str(&format!(" (b {})", qverif::hex(b))),
        }
    }
    s.push_str(") (fns");
    for f in &bc.functions {
        s.push_str(&format!(" (fn {} {}", f.captures, f.type_id));
        for i in &f.instructions {
            s.push(' ');
            s.push_str(&sx_instr(i));
        }
        s.push(')');
    }
    s.push_str(") (builtins");
    for b in &bc.builtins {
        s.push_str(&format!(" ({} {} {})", atom(&b.name), b.param_type, b.result_type));
    }
    s.push_str(") (tuples");
    for t in &bc.tuples {
        s.push_str(&format!(" ({}", name_opt(&t.name)));
        for (l, ty) in &t.fields {
            s.push_str(&format!(" ({} {ty})", name_opt(l)));
        }
        s.push(')');
    }
    s.push_str(") (types");
    for t in &bc.types {
        s.push(' ');
        s.push_str(&sx_type(t));
    }
    s.push_str(") (resources");
    for r in &bc.resources {
        s.push(' ');
        s.push_str(&atom(r));
    }
    s.push_str(") (compat");
    for (i, row) in t.compat.iter().enumerate() {
        if row.is_empty() {
            continue;
        }
        let mut tags: Vec<String> = row.iter().map(sx_tag).collect();
        tags.sort();
        s.push_str(&format!(" ({i} {})", tags.join(" ")));
    }
    s.push_str(") (canon");
    for c in &t.canon {
        s.push_str(&format!(" {c}"));
    }
    for (name, rows) in [("fparam", &t.fparam), ("bparam", &t.bparam)] {
        s.push_str(&format!(") ({name}"));
        for row in rows.iter() {
            let mut tags: Vec<String> = row.iter().map(sx_tag).collect();
            tags.sort();
            s.push_str(&format!(" ({})", tags.join(" ")));
        }
    }
    s.push_str("))");
    s
}

// ---------------------------------------------------------------------------------------------
// Canonical results (function / process ids hidden: they are what packaging renames)
// ---------------------------------------------------------------------------------------------

struct Canon<'a> {
    tuples: &'a [TupleTypeInfo],
    constants: &'a [Constant],
    heap: &'a [Vec<u8>],
    builtins: Vec<String>,
    refs: Vec<u64>,
    pids: Vec<usize>,
}

impl Canon<'_> {
    fn go(&mut self, v: &Value, s: &mut String) {
        match v {
            Value::Integer(i) => s.push_str(&format!("i{i}")),
            Value::Binary(b) => {
                let bytes = match b {
                    Binary::Constant(i) => match self.constants.get(*i) {
                        Some(Constant::Binary(v)) => Some(v.clone()),
                        _ => None,
                    },
                    Binary::Heap(i) => self.heap.get(*i).cloned(),
                };
                match bytes {
                    Some(b) => s.push_str(&format!("b{}", qverif::hex(&b))),
                    None => s.push_str("b?"),
                }
            }
            Value::Reference(r) => {
                let k = match self.refs.iter().position(|x| x == r) {
                    Some(k) => k,
                    None => {
                        self.refs.push(*r);
                        self.refs.len() - 1
                    }
                };
                s.push_str(&format!("r#{k}"));
            }
            Value::Tuple(id, fields) => {
                s.push_str("t(");
                match self.tuples.get(*id) {
                    Some(info) => {
                        s.push_str(info.name.as_deref().unwrap_or("_"));
                        s.push(';');
                        let info = info.clone();
                        for (i, f) in fields.iter().enumerate() {
                            if i > 0 {
                                s.push(',');
                            }
                            s.push_str(info.fields.get(i).and_then(|(n, _)| n.as_deref()).unwrap_or("_"));
                            s.push('=');
                            self.go(f, s);
                        }
                    }
                    None => s.push_str(&format!("?unknown-tuple-{id}")),
                }
                s.push(')');
            }
            Value::Function(_, caps) => {
                s.push_str("f(");
                for (i, c) in caps.iter().enumerate() {
                    if i > 0 {
                        s.push(',');
                    }
                    self.go(c, s);
                }
                s.push(')');
            }
            Value::Builtin(id) => {
                s.push('u');
                s.push_str(&self.builtins.get(*id).cloned().unwrap_or_else(|| format!("#{id}")));
            }
            Value::Process(pid, _) => {
                let k = match self.pids.iter().position(|x| x == pid) {
                    Some(k) => k,
                    None => {
                        self.pids.push(*pid);
                        self.pids.len() - 1
                    }
                };
                s.push_str(&format!("p#{k}"));
            }
            Value::Resource(_, ty) => s.push_str(&format!("x:{ty}")),
        }
    }
}

// ---------------------------------------------------------------------------------------------
// Running a bytecode on the real Environment + Worker(s) behind a history of other programs
// ---------------------------------------------------------------------------------------------

struct EnvRun {
    /// the environment's program right before the merge
    before: Bytecode,
    outcome: String,
    /// the environment's program right after merging (`get_program().to_bytecode(None)`)
    merged: Bytecode,
    /// entry function index in the merged program (from the `StartProcess` command)
    entry: Option<usize>,
    /// the tables the workers were given (last `UpdateProgram` before the start command)
    tables: Option<Tables>,
    faults: Vec<String>,
}

fn run_in_env(b: &Builtins, bc: &Bytecode, history: &[Bytecode], workers: usize, max_rounds: usize) -> EnvRun {
    let mut sim = Sim::new(workers, None, b.clone(), true);
    for h in history {
        if let Ok(pid) = sim.env.start_process(Some(h.clone())) {
            // let the earlier program finish (or park) before the next one is merged
            if let Ok(rid) = sim.env.request_result(pid, None) {
                let mut got = false;
                sim.run_fair(max_rounds, |s| {
                    if !got {
                        got = s.poll_result(rid).is_some();
                    }
                    got
                });
            }
        }
    }
    let before = sim.env.get_program().to_bytecode(None);
    let pid = match qverif::catch(|| sim.env.start_process(Some(bc.clone()))) {
        Ok(Ok(pid)) => pid,
        Ok(Err(e)) => {
            return EnvRun {
                before,
                outcome: format!("start-error:{e:?}"),
                merged: sim.env.get_program().to_bytecode(None),
                entry: None,
                tables: None,
                faults: vec![],
            };
        }
        Err(p) => {
            return EnvRun {
                before,
                outcome: format!("start-panic:{}", p.lines().next().unwrap_or("")),
                merged: sim.env.get_program().to_bytecode(None),
                entry: None,
                tables: None,
                faults: vec![],
            };
        }
    };
    let merged = sim.env.get_program().to_bytecode(None);
    let mut entry = None;
    let mut tables = None;
    for sh in &sim.chans {
        let c = sh.chan.lock().unwrap();
        for (_, cmd) in &c.cmd_log {
            match cmd {
                Command::UpdateProgram(u) => {
                    tables = Some(Tables {
                        compat: u.type_compatibility.clone(),
                        canon: u.canonical_tuples.clone(),
                        fparam: u.function_param_compatibility.clone(),
                        bparam: u.builtin_param_compatibility.clone(),
                    });
                }
                Command::StartProcess { id, function_index } if *id == pid => entry = *function_index,
                _ => {}
            }
        }
        if tables.is_some() {
            break;
        }
    }
    // the start command may sit in another worker's channel
    if entry.is_none() {
        for sh in &sim.chans {
            let c = sh.chan.lock().unwrap();
            for (_, cmd) in &c.cmd_log {
                if let Command::StartProcess { id, function_index } = cmd
                    && *id == pid
                {
                    entry = *function_index;
                }
            }
        }
    }
    let outcome = match sim.env.request_result(pid, None) {
        Err(e) => format!("request-error:{e:?}"),
        Ok(rid) => {
            let mut result = None;
            let finished = sim.run_fair(max_rounds, |s| {
                if result.is_none() {
                    result = s.poll_result(rid);
                }
                result.is_some()
            });
            if !finished {
                format!("hang:quiescent={}", sim.quiescent())
            } else {
                match result.unwrap() {
                    Ok((v, heap)) => {
                        let p = sim.env.get_program();
                        let mut cx = Canon {
                            tuples: p.get_tuples(),
                            constants: p.get_constants(),
                            heap: &heap,
                            builtins: p.get_builtins().iter().map(|b| b.name.clone()).collect(),
                            refs: vec![],
                            pids: vec![],
                        };
                        let mut s = String::new();
                        cx.go(&v, &mut s);
                        s
                    }
                    Err(e) => format!("error:{}", qverif::canon::error_class(&e)),
                }
            }
        }
    };
    let faults = sim.faults.iter().map(|(i, c, m)| format!("{i}:{c}:{m}")).collect();
    EnvRun { before, outcome, merged, entry, tables, faults }
}

// ---------------------------------------------------------------------------------------------
// Program sources: corpora + generator
// ---------------------------------------------------------------------------------------------

/// A generated program: top-level definitions, then a final expression. `body` is also usable as
/// the body of a nilary function (`#{ body }`) for the `quiv run` path.
struct Gen {
    defs: Vec<String>,
    body: String,
    features: Vec<&'static str>,
}

fn gen_program(r: &mut Rng) -> Gen {
    let mut defs: Vec<String> = vec![];
    let mut ints: Vec<String> = vec![];
    let mut pts: Vec<String> = vec![];
    let mut fns: Vec<String> = vec![]; // 'int -> 'int
    let mut unions: Vec<String> = vec![]; // 'int | Str | Point
    let mut feats: Vec<&'static str> = vec![];
    // type aliases (they must precede every step) and definitions that nothing refers to; both are put
    // BEFORE the live definitions, so that the types they register get the small ids and every live
    // type is renumbered by the sweep
    let mut front: Vec<String> = vec![];
    let mut dead_first: Vec<String> = vec![];
    let n = 3 + r.usize(8);
    let mut k = 0;
    let mut fresh = |p: &str| {
        k += 1;
        format!("{p}{k}")
    };
    // always at least two ints
    for _ in 0..2 {
        let v = fresh("a");
        defs.push(format!("{v} = {}", r.range(-9, 40)));
        ints.push(v);
    }
    for _ in 0..n {
        match r.below(15) {
            0 => {
                let v = fresh("a");
                defs.push(format!("{v} = {}", r.range(-100, 100000)));
                ints.push(v);
            }
            1 => {
                let v = fresh("a");
                let op = *r.pick(&["__integer_add__", "__integer_subtract__", "__integer_multiply__"]);
                defs.push(format!("{v} = [{}, {}] {op}", r.pick(&ints), r.pick(&ints)));
                ints.push(v);
                feats.push("builtin-call");
            }
            2 => {
                let v = fresh("p");
                defs.push(format!("{v} = Point[x: {}, y: {}]", r.pick(&ints), r.pick(&ints)));
                pts.push(v);
                feats.push("named-tuple");
            }
            3 => {
                // closure over two captured variables, order-sensitive
                let v = fresh("f");
                let (c1, c2) = (r.pick(&ints).clone(), r.pick(&ints).clone());
                defs.push(format!(
                    "{v} = #'int {{ [[~, {c1}] __integer_multiply__, {c2}] __integer_subtract__ }}"
                ));
                fns.push(v);
                feats.push("closure-2-captures");
            }
            4 => {
                let v = fresh("f");
                defs.push(format!(
                    "{v} = #'int {{ | [__integer_abs__, 1] __integer_compare__ =1 => [~, 3] __integer_divide__ ^ | {} }}",
                    r.pick(&ints)
                ));
                fns.push(v);
                feats.push("tail-recursion");
            }
            5 if !fns.is_empty() => {
                let v = fresh("a");
                defs.push(format!("{v} = {} {}", r.pick(&ints), r.pick(&fns)));
                ints.push(v);
                feats.push("call");
            }
            6 if !pts.is_empty() => {
                let v = fresh("a");
                defs.push(format!(
                    "{v} = {} {{ | =Point[x: 0, y] => y | =Point[x, y] => [x, y] __integer_add__ }}",
                    r.pick(&pts)
                ));
                ints.push(v);
                feats.push("destructure");
            }
            7 => {
                let v = fresh("u");
                defs.push(format!(
                    "{v} = {} {{ | =0 => Point[x: 1, y: 2] | =1 => \"s{}\" | [~, 3] __integer_add__ }}",
                    r.range(0, 2),
                    r.below(5)
                ));
                unions.push(v);
                feats.push("union-value");
            }
            8 if !unions.is_empty() => {
                let v = fresh("a");
                defs.push(format!(
                    "{v} = {} {{ | =('int)i => i | =Str[b] => 7 | =Point(x) => x }}",
                    r.pick(&unions)
                ));
                ints.push(v);
                feats.push("istype-dispatch");
            }
            9 if !fns.is_empty() => {
                // a value that is a function or an int, then a type test on it
                let w = fresh("w");
                let v = fresh("a");
                defs.push(format!("{w} = {} {{ | =0 => &{} | 5 }}", r.range(0, 1), r.pick(&fns)));
                defs.push(format!("{v} = {w} {{ | =('int)i => i | =(#'int -> 'int)g => 3 g }}"));
                ints.push(v);
                feats.push("istype-function");
            }
            10 => {
                let w = fresh("w");
                let v = fresh("a");
                defs.push(format!("{w} = {} {{ | =0 => &__integer_multiply__ | 5 }}", r.range(0, 1)));
                defs.push(format!(
                    "{v} = {w} {{ | =('int)i => i | =(#['int, 'int] -> 'int)g => [3, {}] g }}",
                    r.pick(&ints)
                ));
                ints.push(v);
                feats.push("istype-builtin");
            }
            11 if !pts.is_empty() => {
                // structural equality through differently-typed but same-shaped tuples
                let v = fresh("a");
                let p = r.pick(&pts).clone();
                defs.push(format!("{v} = {p} {{ | =&{p} => 1 | 0 }}"));
                ints.push(v);
                feats.push("equal");
            }
            13 | 14 => {
                // a closure FACTORY and two of its products: same function index, different captures
                let mk = fresh("mk");
                defs.push(format!(
                    "{mk} = #'int {{ =n => #'int {{ [[~, n] __integer_multiply__, n] __integer_subtract__ }} }}"
                ));
                for _ in 0..2 {
                    let v = fresh("g");
                    defs.push(format!("{v} = {} {mk}", r.range(2, 40)));
                    fns.push(v);
                }
                feats.push("closure-factory-two-products");
            }
            12 => {
                // dead code: never referenced again
                let v = fresh("dead");
                defs.push(format!(
                    "{v} = #'int {{ Unused{}[q: [~, {}] __integer_add__, r: \"dead{}\"] }}",
                    r.below(4),
                    r.range(1000, 2000),
                    r.below(100)
                ));
                feats.push("dead-code");
            }
            _ => {
                let v = fresh("a");
                defs.push(format!("{v} = {}", r.range(0, 9)));
                ints.push(v);
            }
        }
    }
    let mut parts: Vec<String> = vec![];
    let mut zoo_lit = String::new();

    // ---- type zoo: a reachable type of every constructor whose contents are renumbered by the sweep ----
    // (dead aliases / dead functions first, mentioning tuple types of their own; then live partial types,
    // partial parameters, `=(x)` patterns, type tests against partial / callable / recursive / generic /
    // union-in-field types over a tuple type `Cel…` that is registered after the dead ones)
    let mut zoo_process = false;
    if r.chance(3, 5) {
        for _ in 0..(1 + r.usize(3)) {
            let d = fresh("Dz");
            match r.below(6) {
                0 => front.push(format!("'{} = {d}['bin, {d}b['int]]", d.to_lowercase())),
                1 => dead_first.push(format!("{} = #{d}['bin, {d}b['int]] {{ 1 }}", d.to_lowercase())),
                2 => front.push(format!("'{} = @{d}['int]", d.to_lowercase())),
                3 => front.push(format!("'{} = #{d}['int] -> {d}r['bin]", d.to_lowercase())),
                4 => front.push(format!("'{} = {d}n | {d}c[{d}e['int], ^]", d.to_lowercase())),
                _ => dead_first.push(format!("{} = #({}: {d}['int]) {{ {d}q[$, \"{}\"] }}", d.to_lowercase(), *r.pick(&["x", "q"]), d)),
            }
        }
        feats.push("dead-types-first");
        // the live tuple type the zoo's types are built over
        let cel = fresh("Cel");
        let inner = *r.pick(&["'int", "'int", "'bin"]);
        let (lit, other) = if inner == "'int" { (format!("{}", r.range(1, 9)), "0xff") } else { ("0x0a".to_string(), "7") };
        let other_ty = if inner == "'int" { "'bin" } else { "'int" };
        for _ in 0..(1 + r.usize(3)) {
            let k = r.below(13);
            let a = fresh("Az");
            match k {
                0 => {
                    // partial PARAMETER
                    let g = fresh("gp");
                    defs.push(format!("{g} = #(x: {cel}[{inner}]) {{ $.x.0 }}"));
                    let v = fresh("zv");
                    defs.push(format!("{v} = {a}[x: {cel}[{lit}], y: {}] {g}", r.pick(&ints)));
                    parts.push(v);
                    feats.push("zoo:partial-parameter");
                }
                1 => {
                    // type test against an unnamed partial type through an alias
                    let h = fresh("hx");
                    front.push(format!("'{h} = (x: {cel}[{inner}])"));
                    let f = fresh("fp");
                    defs.push(format!("{f} = #({a}[x: {cel}[{inner}]] | {a}[x: {other_ty}]) {{ ='{h} => 1 | 0 }}"));
                    parts.push(format!("{a}[x: {cel}[{lit}]] {f}"));
                    parts.push(format!("{a}[x: {other}] {f}"));
                    feats.push("zoo:partial-type-test");
                }
                2 => {
                    // NAMED partial type
                    let h = fresh("np");
                    front.push(format!("'{h} = {a}(x: {cel}[{inner}])"));
                    let f = fresh("fp");
                    defs.push(format!("{f} = #({a}[x: {cel}[{inner}], y: 'int] | B{a}[x: {other_ty}]) {{ ='{h} => 1 | 0 }}"));
                    parts.push(format!("{a}[x: {cel}[{lit}], y: 2] {f}"));
                    parts.push(format!("B{a}[x: {other}] {f}"));
                    feats.push("zoo:named-partial-type-test");
                }
                3 => {
                    parts.push(format!("{a}[x: {cel}[{lit}], y: 2] {{ | =(x) => x.0 | 0 }}"));
                    feats.push("zoo:partial-pattern");
                }
                4 => {
                    // callable type over the renumbered tuple, in a run-time type test
                    let f = fresh("fc");
                    let w = fresh("w");
                    defs.push(format!("{f} = #{cel}[{inner}] {{ $.0 }}"));
                    defs.push(format!("{w} = {} {{ | =0 => &{f} | 5 }}", r.range(0, 1)));
                    let v = fresh("zv");
                    defs.push(format!("{v} = {w} {{ | =('int)i => i | =(#{cel}[{inner}] -> {inner})g => {cel}[{lit}] g }}"));
                    parts.push(v);
                    feats.push("zoo:callable-type-test");
                }
                5 => {
                    // recursive type (Cycle) with a tail-recursive consumer and a type test
                    let l = fresh("lz");
                    front.push(format!("'{l} = N{a} | K{a}[{cel}[{inner}], ^]"));
                    let f = fresh("cnt");
                    defs.push(format!(
                        "{f} = #['{l}, 'int] {{ | =[N{a}, acc] => acc | =[K{a}[_, t], acc] => [t, [acc, 1] __integer_add__] ^ }}"
                    ));
                    let v = fresh("lv");
                    defs.push(format!(
                        "{v} = {} {{ | =0 => K{a}[{cel}[{lit}], K{a}[{cel}[{lit}], N{a}]] | 5 }}",
                        r.range(0, 1)
                    ));
                    parts.push(format!("{v} {{ | =('{l})l => [l, 0] {f} | =('int)i => i }}"));
                    feats.push("zoo:recursive-type");
                }
                6 => {
                    // generic function (Variable) used at two types
                    let f = fresh("idz");
                    defs.push(format!("{f} = #<'t>{cel}['t] {{ $.0 }}"));
                    parts.push(format!("{cel}[{lit}] {f}"));
                    parts.push(format!("{cel}[{other}] {f}"));
                    feats.push("zoo:generic-function");
                }
                7 => {
                    // union nested in a tuple field
                    let u = fresh("uz");
                    front.push(format!("'{u} = Box{a}[v: ({cel}[{inner}] | {other_ty})]"));
                    let b = fresh("bz");
                    defs.push(format!(
                        "{b} = {} {{ | =0 => Box{a}[v: {cel}[{lit}]] | =1 => Box{a}[v: {other}] | 5 }}",
                        r.range(0, 2)
                    ));
                    parts.push(format!("{b} {{ | =('{u})b => 1 | =('int)i => i }}"));
                    feats.push("zoo:union-in-field");
                }
                8 => {
                    // partial type with TWO fields, one of them itself partial
                    let h = fresh("hx");
                    front.push(format!("'{h} = (x: {cel}[{inner}], y: (z: {cel}[{inner}]))"));
                    let f = fresh("fp");
                    defs.push(format!(
                        "{f} = #({a}[x: {cel}[{inner}], y: {a}i[z: {cel}[{inner}]]] | {a}[x: {other_ty}, y: 'int]) {{ ='{h} => 1 | 0 }}"
                    ));
                    parts.push(format!("{a}[x: {cel}[{lit}], y: {a}i[z: {cel}[{lit}]]] {f}"));
                    parts.push(format!("{a}[x: {other}, y: 3] {f}"));
                    feats.push("zoo:nested-partial-type-test");
                }
                10 => {
                    // resource type in a run-time type test (no resource exists; the type is reachable)
                    let f = fresh("rf");
                    defs.push(format!("{f} = #(\\File | {cel}[{inner}]) {{ | =(\\File) => 1 | ={cel}[n] => n }}"));
                    parts.push(format!("{cel}[{lit}] {f}"));
                    feats.push("zoo:resource-type-test");
                }
                11 => {
                    // 'ref inside the renumbered tuple
                    let v = fresh("rv");
                    defs.push(format!("{v} = {} {{ | =0 => R{cel}[[] %ref] | 5 }}", r.range(0, 1)));
                    parts.push(format!("{v} {{ | =(R{cel}['ref]) => 1 | =('int)i => i }}"));
                    feats.push("zoo:ref-type-test");
                }
                12 => {
                    // partial type over a resource type
                    let h = fresh("hr");
                    front.push(format!("'{h} = (x: \\File)"));
                    let f = fresh("rf");
                    defs.push(format!("{f} = #({a}[x: \\File] | {a}[x: {inner}]) {{ | ='{h} => 1 | 2 }}"));
                    parts.push(format!("{a}[x: {lit}] {f}"));
                    feats.push("zoo:partial-over-resource");
                }
                _ => {
                    zoo_process = true;
                    defs.push(format!("classz = #(@{cel}[{inner}] | 'int) {{ | =(@{cel}[{inner}]) => 1 | ='int => 2 }}"));
                    defs.push(format!("wz = #{{ c = !#{cel}[{inner}], c.0 }}"));
                    zoo_lit = format!("{cel}[{lit}]");
                }
            }
        }
    }
    // final expression
    for _ in 0..(1 + r.usize(3)) {
        parts.push(r.pick(&ints).clone());
    }
    if !pts.is_empty() && r.chance(1, 2) {
        parts.push(r.pick(&pts).clone());
    }
    if !fns.is_empty() && r.chance(1, 2) {
        parts.push(format!("{} {}", r.pick(&ints), r.pick(&fns)));
        feats.push("call");
    }
    if fns.len() >= 2 && r.chance(2, 3) {
        // the entry captures SEVERAL closures (possibly sharing a function index) and applies them in a row
        let i = r.usize(fns.len());
        let mut j = r.usize(fns.len());
        if j == i {
            j = (i + 1) % fns.len();
        }
        parts.push(format!("{} {} {}", r.range(1, 9), fns[i], fns[j]));
        feats.push("entry-captures-two-closures");
    }
    let mut body = format!("[{}]", parts.join(", "));
    // concurrency inside the body
    let conc = if zoo_process { 99 } else { r.below(12) };
    match conc {
        99 => {
            // process type over the renumbered tuple in a run-time type test on a bare pid
            body = format!("w = @wz, c = &w classz, {zoo_lit} w, r = !w, [c, r, {}]", parts.join(", "));
            feats.push("zoo:process-type-test");
        }
        2 => {
            // a BARE process value reaches a run-time type test; the spawning function's receive
            // ('int) and result (a tuple / a Str / an int) types differ or coincide at random
            let result = *r.pick(&["[!#'int, 1]", "[x: !#'int, y: 0x01]", "!#'int", "Got[!#'int]"]);
            defs.push("classify = #(@'int | 'int | 'bin) { | =(@'int) => 1 | ='int => 2 | ='bin => 3 }".to_string());
            defs.push(format!("worker = #{{ {result} }}"));
            let probe = *r.pick(&["&w classify", "&w classify", "5 classify", "0x0a classify"]);
            body = format!("w = @worker, c = {probe}, {} w, r = !w, [c, r, {}]", r.pick(&ints), parts.join(", "));
            feats.push("istype-bare-process");
        }
        3 => {
            // the pid is the top-level MESSAGE: the server's mailbox filter must accept it
            let result = *r.pick(&["[!#'int, 1]", "Got[!#'int]", "!#'int"]);
            defs.push(format!("worker = #{{ {result} }}"));
            defs.push(format!("server = #{{ w = !#(@'int), {} w }}", r.pick(&ints)));
            body = format!("w = @worker, s = @server, &w s, r = !w, [r, {}]", parts.join(", "));
            feats.push("process-value-as-message");
        }
        4 => {
            // F13 shape, but the child returns something other than what it receives
            front.push("'pr = @'int".to_string());
            front.push("'par = @'pr".to_string());
            let tail = *r.pick(&["[!'int, 1]", "Got[!'int]", "!'int"]);
            body = format!(
                "g = #'par {{ =parent, &. parent, {tail} }}, me = &., p = &me @g, !#'pr =q, {} q, r = !p, [r, {}]",
                r.pick(&ints),
                parts.join(", ")
            );
            feats.push("typed-receive-process-differing-result");
        }
        5 => {
            // a builtin value and a closure as bare values in a run-time type test inside the body
            body = format!(
                "pickf = #'int {{ | =0 => &__integer_multiply__ | =1 => &__integer_abs__ | 5 }}, v = {} pickf, k = v {{ | =('int)i => i | =(#['int, 'int] -> 'int)g => [3, 4] g | =(#'int -> 'int)h => -9 h }}, [k, {}]",
                r.range(0, 2),
                parts.join(", ")
            );
            feats.push("istype-bare-builtin");
        }
        0 => {
            body = format!(
                "p = @{{ !'int [~, {}] __integer_add__ }}, {} p, r = !p, [r, {}]",
                r.pick(&ints),
                r.pick(&ints),
                parts.join(", ")
            );
            feats.push("spawn-send-await");
        }
        1 => {
            // typed receive of a process value (the F13 shape, local to the body)
            front.push("'pr = @'int".to_string());
            front.push("'par = @'pr".to_string());
            body = format!(
                "g = #'par {{ =parent, &. parent, !'int }}, me = &., p = &me @g, !#'pr =q, {} q, r = !p, [r, {}]",
                r.pick(&ints),
                parts.join(", ")
            );
            feats.push("typed-receive-process");
        }
        _ => {}
    }
    let mut all = front;
    all.extend(dead_first);
    all.extend(defs);
    Gen { defs: all, body, features: feats }
}

/// Does this bytecode (from `entry`) stay on the sync path: no cold instruction, only pure builtins?
fn sequential(bc: &Bytecode, entry: usize) -> bool {
    let mut seen = HashSet::new();
    let mut todo = vec![entry];
    while let Some(f) = todo.pop() {
        if !seen.insert(f) {
            continue;
        }
        let Some(func) = bc.functions.get(f) else { return false };
        for i in &func.instructions {
            match i {
                Instruction::Spawn | Instruction::Send | Instruction::Self_ | Instruction::Select | Instruction::Process(..) => {
                    return false;
                }
                Instruction::Function(g) => todo.push(*g),
                Instruction::Builtin(b) => {
                    let Some(info) = bc.builtins.get(*b) else { return false };
                    if !(info.name.starts_with("integer_") || info.name.starts_with("binary_") || info.name.starts_with("vector_")) {
                        return false;
                    }
                }
                _ => {}
            }
        }
    }
    true
}

fn has_process_literal(bc: &Bytecode) -> bool {
    bc.functions.iter().any(|f| f.instructions.iter().any(|i| matches!(i, Instruction::Process(..))))
}

// ---------------------------------------------------------------------------------------------
// One packaging case
// ---------------------------------------------------------------------------------------------

struct Ctx<'a> {
    hyp_limit: usize,
    b: &'a Builtins,
    model: Model,
    ev: Ev,
    max_rounds: usize,
    /// pool of stand-alone bytecodes that completed, used as merge histories
    pool: Vec<Bytecode>,
}

/// Ask the validator about (A, eA) → (B, eB). Returns the answer line.
fn validate(cx: &mut Ctx, a: &Bytecode, ta: &Tables, ea: usize, b: &Bytecode, tb: &Tables, eb: usize) -> String {
    let r1 = cx.model.ask(&sx_prog("A", a, ta));
    if !r1.starts_with("ok") {
        return format!("model-parse-A:{r1}");
    }
    let r2 = cx.model.ask(&sx_prog("B", b, tb));
    if !r2.starts_with("ok") {
        return format!("model-parse-B:{r2}");
    }
    // the canonical-tuple tables are the ones the model of `compute_canonical_tuples` computes
    if r1.contains("canon-computed=false") || r2.contains("canon-computed=false") {
        return "reject canon-table differs from the model of compute_canonical_tuples (C10.canon_of_name_label_preservation hypothesis)".to_string();
    }
    if r1.contains("canon-computed=true") {
        cx.ev.hit("validated:canon-table-is-computed");
    }
    if r2.contains("canon-computed=true") {
        cx.ev.hit("validated:canon-table-is-computed");
    }
    let t0 = std::time::Instant::now();
    let ans = cx.model.ask(&format!("(check-renaming {ea} {eb})"));
    let dt = t0.elapsed().as_millis();
    if ans.starts_with("ok") {
        if ans.contains("strict=true") {
            cx.ev.hit("validated:strict");
        } else {
            cx.ev.hit("validated:non-strict");
        }
    }
    if let Some(x) = ans.split_whitespace().find_map(|w| w.strip_prefix("exempt=")) {
        let n: u64 = x.parse().unwrap_or(0);
        if n > 0 {
            cx.ev.hit("validated:with-absent-tag-exemptions");
            cx.ev.add("exempt:row-tag-pairs", n);
        }
    }
    if dt > 500 && std::env::var("VERIF_DEBUG").is_ok() {
        eprintln!("slow check-renaming {dt} ms: fns {} -> {}, types {} -> {}, ans {}", a.functions.len(), b.functions.len(), a.types.len(), b.types.len(), &ans[..ans.len().min(80)]);
    }
    ans
}

/// Translator-strength tie for the merge: the Lean port `mergeBytecode` of `Environment::merge_bytecode`
/// must produce EXACTLY the environment's program (slots A = merged-in bytecode and B = result are loaded
/// by `validate`; C = the environment's program before), the same entry, and remap tables that validate.
fn merge_tie(cx: &mut Ctx, label: &str, src: &str, pair: &str, before: &Bytecode, e: usize, em: usize) {
    let t = Tables { compat: vec![], canon: vec![], fparam: vec![], bparam: vec![] };
    let r = cx.model.ask(&sx_prog("C", before, &t));
    let a = if r.starts_with("ok") { cx.model.ask(&format!("(merge {e})")) } else { format!("model-parse-C:{r}") };
    if a.starts_with("equal") && a.contains(&format!("entry={em} ")) && a.contains("validate=true") {
        cx.ev.hit("merge:model-equals-merge_bytecode");
        // hypothesis of C10.merge_isRenaming_types_tuples: no id bound twice in the final memo tables
        if a.contains("keys-distinct=true") {
            cx.ev.hit("merge:memo-keys-distinct");
        } else {
            cx.ev.hit("merge:memo-keys-rebound");
        }
        // the other hypotheses of C10.merge_isRenaming, decided per merge
        let mut all_hyp = a.contains("keys-distinct=true") && a.contains("src-wf=true");
        for name in ["dedup", "nil-ok", "out-tuples-nodup", "builtin-types", "stratified"] {
            if a.contains(&format!("{name}=true")) {
                cx.ev.hit(&format!("merge:hyp:{name}:holds"));
            } else {
                cx.ev.hit(&format!("merge:hyp:{name}:fails"));
                all_hyp = false;
            }
        }
        cx.ev.hit(if all_hyp { "merge:isRenaming-hypotheses-all-hold" } else { "merge:isRenaming-hypotheses-some-fail" });
        // hypothesis SrcWf of C10.merge_isRenaming_partial
        if a.contains("src-wf=true") {
            cx.ev.hit("merge:source-well-formed");
        } else {
            cx.ev.hit("merge:source-not-well-formed");
        }
    } else {
        cx.ev.hit("merge:model-differs");
        cx.ev.violation(
            &format!("path=merge kind=model-differs-from-merge_bytecode what={}", a.split_whitespace().take(2).collect::<Vec<_>>().join("-")),
            &format!("{label} [{pair}]: the Lean port of merge_bytecode does not reproduce the environment's program: {}", clip(&a)),
            json!({"broken": "correspondence mergeBytecode (Core/Packaging/Merge.lean) <-> environment.rs merge_bytecode / import_type / import_tuple / remap_function (exact equality)", "source": src, "pair": pair, "entry": e, "real_entry": em, "model": a}),
            false,
        );
    }
}

fn reject_kind(ans: &str) -> String {
    // "reject validate compat" / "reject recover function 3/2: pc 4: …" → first three words, digits dropped
    let words: Vec<&str> = ans.split_whitespace().take(3).collect();
    let mut s = words.join("-");
    s.retain(|c| !c.is_ascii_digit() && c != '/' && c != ':');
    s
}

#[derive(Default)]
struct CaseReport {
    outcomes: Vec<(String, String)>,
    rejections: Vec<(String, String)>,
}

/// All packaging variants of one program `p` with entry `e`. `label` identifies the case in replays.
/// Well-formedness of a bytecode's type tables, checked on every packaging OUTPUT before it is executed:
/// every type id / tuple id carried by a type or a tuple field is in range, and the reference graph
/// (types ∪ tuples) is acyclic — recursion is only ever expressed by `Cycle(depth)` leaves. A table that
/// fails this makes `import_type` / the compatibility walk recurse without end (stack overflow, which no
/// `catch_unwind` survives), so such an output is reported and NOT executed.
fn type_table_defect(bc: &Bytecode) -> Option<String> {
    let nt = bc.types.len();
    let nu = bc.tuples.len();
    // node k < nt: type k; node nt + j: tuple j
    let mut succ: Vec<Vec<usize>> = vec![vec![]; nt + nu];
    for (i, t) in bc.types.iter().enumerate() {
        let mut tys: Vec<usize> = vec![];
        match t {
            Type::Tuple(u) => {
                if *u >= nu {
                    return Some(format!("types[{i}] = {t:?}: tuple id {u} out of range ({nu} tuples)"));
                }
                succ[i].push(nt + *u);
            }
            Type::Partial { fields, .. } => tys.extend(fields.iter().map(|(_, t)| *t)),
            Type::Callable { parameter, result, receive } => tys.extend([*parameter, *result, *receive]),
            Type::Union(ids) => tys.extend(ids.iter().copied()),
            Type::Process { send, receive } => tys.extend(send.iter().chain(receive.iter()).copied()),
            _ => {}
        }
        for x in tys {
            if x >= nt {
                return Some(format!("types[{i}] = {t:?}: type id {x} out of range ({nt} types)"));
            }
            succ[i].push(x);
        }
    }
    for (j, u) in bc.tuples.iter().enumerate() {
        for (_, x) in &u.fields {
            if *x >= nt {
                return Some(format!("tuples[{j}] ({:?}): field type id {x} out of range ({nt} types)", u.name));
            }
            succ[nt + j].push(*x);
        }
    }
    // iterative three-colour DFS
    let mut colour = vec![0u8; nt + nu];
    for root in 0..(nt + nu) {
        if colour[root] != 0 {
            continue;
        }
        let mut stack: Vec<(usize, usize)> = vec![(root, 0)];
        colour[root] = 1;
        while let Some((n, k)) = stack.pop() {
            if k < succ[n].len() {
                stack.push((n, k + 1));
                let m = succ[n][k];
                if colour[m] == 1 {
                    let name = |x: usize| if x < nt { format!("types[{x}] = {:?}", bc.types[x]) } else { format!("tuples[{}]", x - nt) };
                    return Some(format!("reference cycle without a Cycle leaf: {} refers (transitively) to itself through {}", name(m), name(n)));
                }
                if colour[m] == 0 {
                    colour[m] = 1;
                    stack.push((m, 0));
                }
            } else {
                colour[n] = 2;
            }
        }
    }
    None
}

fn packaging_case(cx: &mut Ctx, r: &mut Rng, label: &str, src: &str, p: &Bytecode, e: usize) -> CaseReport {
    let mut rep = CaseReport::default();
    let tp = tables_of(p);
    if has_process_literal(p) {
        cx.ev.hit("skipped:process-literal");
        return rep;
    }

    // 0. the validator accepts the identity
    {
        let r1 = cx.model.ask(&sx_prog("A", p, &tp));
        let ans = if r1.starts_with("ok") { cx.model.ask(&format!("(check-identity {e})")) } else { format!("model-parse-A:{r1}") };
        if !ans.starts_with("ok") {
            rep.rejections.push(("identity".into(), ans));
        } else {
            cx.ev.hit("validated:identity");
        }
    }

    // 1. as compiled, in a fresh environment
    let r0 = run_in_env(cx.b, p, &[], 1, cx.max_rounds);
    rep.outcomes.push(("compiled".into(), r0.outcome.clone()));
    if let (Some(e0), Some(t0)) = (r0.entry, &r0.tables) {
        let ans = validate(cx, p, &tp, e, &r0.merged, t0, e0);
        if ans.starts_with("ok") {
            cx.ev.hit("validated:merge-fresh");
        } else {
            rep.rejections.push(("merge-fresh".into(), ans));
        }
        merge_tie(cx, label, src, "merge-fresh", &r0.before, e, e0);
    }
    if sequential(p, e) {
        let (o, ex) = run_sync(p.clone(), cx.b, false);
        let s = match &o {
            RunOutcome::Value(v) => {
                let heap = ex.as_ref().map(|ex| qverif::run::heap_of(ex, v)).unwrap_or((v.clone(), vec![]));
                let mut c = Canon {
                    tuples: &p.tuples,
                    constants: &p.constants,
                    heap: &heap.1,
                    builtins: p.builtins.iter().map(|b| b.name.clone()).collect(),
                    refs: vec![],
                    pids: vec![],
                };
                let mut s = String::new();
                c.go(&heap.0, &mut s);
                s
            }
            RunOutcome::Error(er) => format!("error:{}", qverif::canon::error_class(er)),
            RunOutcome::Panic(m) => format!("panic:{}", m.lines().next().unwrap_or("")),
        };
        rep.outcomes.push(("sync".into(), s));
        cx.ev.hit("variant:sync");
    }

    // 2. tree-shaken
    let shaken = match qverif::catch(|| tree_shake(p.clone(), e)) {
        Ok(s) => s,
        Err(m) => {
            rep.outcomes.push(("shaken".into(), format!("tree_shake-panic:{}", m.lines().next().unwrap_or(""))));
            return rep;
        }
    };
    let se = shaken.entry.unwrap_or(0);
    let ts = tables_of(&shaken);
    let ans = validate(cx, p, &tp, e, &shaken, &ts, se);
    if ans.starts_with("ok") {
        cx.ev.hit("validated:shake");
    } else {
        rep.rejections.push(("shake".into(), ans));
    }
    // translator-strength tie: the Lean port `treeShake` must produce EXACTLY this bytecode (slots A = p,
    // B = shaken are still loaded), and its own remap tables must validate against B's tables
    {
        let a = cx.model.ask(&format!("(shake {e})"));
        if a.starts_with("equal") && a.contains(&format!("entry={se} ")) && a.contains("validate=true") && a.contains("idempotent=true") {
            cx.ev.hit("shake:model-equals-tree_shake");
            // coverage of the sweep's type rewriting: per kept type whose own index moved (m) and/or whose
            // contained ids were rewritten (w), by constructor
            if let Some(tok) = a.split_whitespace().find_map(|w| w.strip_prefix("renumbered=")) {
                for t in tok.split(',').filter(|t| *t != "-" && !t.is_empty()) {
                    let (ctor, flags) = t.split_once(':').unwrap_or((t, ""));
                    if flags.contains('m') {
                        cx.ev.hit(&format!("shake:renumbered:{ctor}:moved"));
                    }
                    if flags.contains('w') {
                        cx.ev.hit(&format!("shake:renumbered:{ctor}:contents-rewritten"));
                    }
                }
            }
            // the hypotheses of `C10.treeShake_preserves_behaviour_computed` decided for this pair (programs up
            // to a size limit: the check evaluates C08's `tagAccepts` for every IsType operand × every tag)
            if p.functions.len() <= cx.hyp_limit {
                let t0 = std::time::Instant::now();
                let hy = cx.model.ask(&format!("(shake-hypotheses {e} 300)"));
                cx.ev.add("shake:T1-hypotheses-ms", t0.elapsed().as_millis() as u64);
                if hy.starts_with("hyp all=true") {
                    cx.ev.hit("shake:T1-hypotheses-all-hold");
                } else {
                    cx.ev.hit("shake:T1-hypotheses-some-fail");
                    for w in hy.split_whitespace().filter(|w| w.ends_with("=false") && !w.starts_with("all=")) {
                        cx.ev.hit(&format!("shake:T1-hypothesis-fails:{}", w.trim_end_matches("=false")));
                    }
                    if let Some(tok) = hy.split_whitespace().find_map(|w| w.strip_prefix("lost-entries=")) {
                        for t in tok.split(',').filter(|t| *t != "-" && !t.is_empty()) {
                            cx.ev.hit(&format!("shake:index-entry-lost:{t}"));
                        }
                    }
                    // the run-time tables of both programs must be what C08's model of compute_type_compatibility /
                    // compute_param_compatibility yields (small programs only: no fuel-out has been seen there)
                    if (hy.contains("tables-computed-A=false") || hy.contains("tables-computed-B=false")) && p.functions.len() <= 24 {
                        cx.ev.violation(
                            "path=shake kind=tables-not-computed",
                            &format!("{label}: the run-time compatibility tables are not the ones C08's model computes: {}", clip(&hy)),
                            json!({"broken": "hypothesis TablesComputed of C10.treeShake_preserves_behaviour_computed (correspondence real tables <-> QM.Types.tagAccepts)", "source": src, "entry": e, "model": hy}),
                            false,
                        );
                    }
                    if std::env::var("VERIF_DEBUG").is_ok() {
                        eprintln!("HYP {label}: {hy}\n  {}", src.replace('\n', " "));
                    }
                }
            } else {
                cx.ev.hit("shake:T1-hypotheses-skipped-size");
            }
        } else {
            cx.ev.hit("shake:model-differs");
            cx.ev.violation(
                &format!("path=shake kind=model-differs-from-tree_shake what={}", a.split_whitespace().take(2).collect::<Vec<_>>().join("-")),
                &format!("{label}: the Lean port of tree_shake does not reproduce the real output: {}", clip(&a)),
                json!({"broken": "correspondence treeShake (Core/Packaging/TreeShake.lean) <-> optimisation.rs tree_shake (exact bytecode equality; C10.treeShake_* theorems speak about the port)", "source": src, "entry": e, "model": a, "real_entry": se}),
                false,
            );
        }
    }
    let input_defect = type_table_defect(p);
    if input_defect.is_some() {
        // never seen; if a front end ever emits such tables the guard below must not raise a false alarm
        cx.ev.hit("shake:input-type-table-ill-formed");
    }
    if let (None, Some(defect)) = (&input_defect, type_table_defect(&shaken)) {
        cx.ev.hit("shake:output-type-table-ill-formed");
        cx.ev.violation(
            "path=shake kind=output-type-table-ill-formed",
            &format!("{label}: tree_shake produced a program whose type tables are ill-formed (not executed): {}", clip(&defect)),
            json!({"broken": "a tree-shaken program is a well-formed program (every id in range, no reference cycle): tree_shake output", "source": src, "entry": e, "defect": defect}),
            true,
        );
        rep.outcomes.push(("shaken".into(), format!("ill-formed-type-table:{}", clip(&defect))));
        return rep;
    }
    cx.ev.hit("shake:output-type-table-well-formed");
    cx.ev.add("shake:functions-dropped", (p.functions.len() - shaken.functions.len()) as u64);
    cx.ev.add("shake:types-dropped", (p.types.len() - shaken.types.len()) as u64);
    cx.ev.add("shake:constants-dropped", (p.constants.len() - shaken.constants.len()) as u64);
    let r1 = run_in_env(cx.b, &shaken, &[], 1, cx.max_rounds);
    rep.outcomes.push(("shaken".into(), r1.outcome.clone()));

    // 3. serde round trip (both forms): JSON value equality + re-run of the deserialised program
    for (name, bc) in [("compiled", p), ("shaken", &shaken)] {
        let text = serde_json::to_string_pretty(bc).expect("serialise");
        match serde_json::from_str::<Bytecode>(&text) {
            Ok(back) => {
                let same = serde_json::to_value(bc).unwrap() == serde_json::to_value(&back).unwrap()
                    && back.functions == bc.functions
                    && back.constants == bc.constants
                    && back.tuples == bc.tuples
                    && back.types == bc.types
                    && back.builtins == bc.builtins
                    && back.entry == bc.entry
                    && back.resources == bc.resources;
                if !same {
                    rep.rejections.push((format!("serde-{name}"), "reject serde value-differs".into()));
                } else {
                    cx.ev.hit("validated:serde-equal");
                }
                if name == "shaken" {
                    let r2 = run_in_env(cx.b, &back, &[], 1, cx.max_rounds);
                    rep.outcomes.push(("serde-shaken".into(), r2.outcome));
                }
            }
            Err(er) => rep.rejections.push((format!("serde-{name}"), format!("reject serde deserialise {er}"))),
        }
    }

    // 4. merged behind a history of other programs (compiled form and shaken form, 1–2 workers)
    if !cx.pool.is_empty() {
        for (name, bc, tb, be) in [("compiled", p, &tp, e), ("shaken", &shaken, &ts, se)] {
            let n = 1 + r.usize(3);
            let hist: Vec<Bytecode> = (0..n).map(|_| cx.pool[r.usize(cx.pool.len())].clone()).collect();
            let workers = 1 + r.usize(2);
            let rm = run_in_env(cx.b, bc, &hist, workers, cx.max_rounds);
            rep.outcomes.push((format!("merged-{name}"), rm.outcome.clone()));
            cx.ev.hit(&format!("merge:history-len-{n}"));
            if !rm.faults.is_empty() {
                cx.ev.hit("merge:run-with-faults");
            }
            if let (Some(em), Some(tm)) = (rm.entry, &rm.tables) {
                let ans = validate(cx, bc, tb, be, &rm.merged, tm, em);
                if ans.starts_with("ok") {
                    cx.ev.hit(&format!("validated:merge-{name}"));
                } else {
                    rep.rejections.push((format!("merge-{name}"), ans));
                }
                merge_tie(cx, label, src, &format!("merge-{name}"), &rm.before, be, em);
            } else {
                rep.rejections.push((format!("merge-{name}"), format!("reject harness no-entry-or-tables {}", rm.outcome)));
            }
        }
    }
    rep
}

fn outcomes_agree(rep: &CaseReport) -> Option<(String, String, String, String)> {
    // a run that exhausted its step budget while still busy is inconclusive, not a result
    let conclusive: Vec<&(String, String)> = rep.outcomes.iter().filter(|o| o.1 != "hang:quiescent=false").collect();
    let first = *conclusive.first()?;
    for o in &conclusive[1..] {
        if o.1 != first.1 {
            return Some((first.0.clone(), first.1.clone(), o.0.clone(), o.1.clone()));
        }
    }
    None
}

/// Compile `src`; `None` if rejected.
fn compile(cx: &mut Ctx, src: &str, modules: &HashMap<Vec<String>, String>) -> Option<(Bytecode, usize)> {
    match compile_source(src, modules, cx.b) {
        Ok(u) => Some((u.program.to_bytecode(Some(u.entry)), u.entry)),
        Err(FrontError::Parse(_)) => {
            cx.ev.hit("front:parse-rejected");
            None
        }
        Err(FrontError::Compile(_)) => {
            cx.ev.hit("front:compile-rejected");
            None
        }
        Err(FrontError::Panic(_)) => {
            cx.ev.hit("front:panic");
            None
        }
    }
}

/// `execute_bytecode_sync`, step for step, but giving up (instead of spinning forever) when the
/// top-level code parks on a scheduler action (spawn / select / effect) or exceeds a step budget.
fn run_sync_guarded(bc: Bytecode, b: &Builtins) -> Option<(Value, qverif::run::Exec)> {
    let r = qverif::catch(|| {
        let entry = bc.entry?;
        let mut ex = qverif::run::Exec::new(b.clone(), false, 0);
        let t = tables_of(&bc);
        let input = CompatibilityInput {
            types: &bc.types,
            tuples: &bc.tuples,
            functions: &bc.functions,
            builtins: &bc.builtins,
            resource_names: &bc.resources,
        };
        let _ = &input;
        let (fpc, bpc) = (t.fparam.clone(), t.bparam.clone());
        let upd = quiver_core::executor::ProgramUpdate {
            constants: bc.constants.clone(),
            functions: bc.functions.clone(),
            tuples: bc.tuples[2..].to_vec(),
            types: bc.types.clone(),
            builtins: bc.builtins.clone(),
            resources: bc.resources.clone(),
            type_compatibility: t.compat,
            function_param_compatibility: fpc,
            builtin_param_compatibility: bpc,
            canonical_tuples: t.canon,
        };
        ex.update_program(upd);
        ex.spawn_process(0, Some(entry), vec![], Value::nil(), vec![], false).ok()?;
        for _ in 0..20_000 {
            let (did, action) = ex.step(1000, 0);
            if action.is_some() || !did {
                return None;
            }
            let p = ex.get_process(0)?;
            if let Some(res) = &p.result {
                return match res {
                    Ok(v) => Some((v.clone(), ex)),
                    Err(_) => None,
                };
            }
        }
        None
    });
    r.ok().flatten()
}

/// The `quiv run` recipe (`compile_and_extract_entry`): evaluate the program on the sync path, take
/// the function it evaluates to, inject its captures. `None` if the program is not of that shape.
fn extract_entry(cx: &mut Ctx, src: &str, modules: &HashMap<Vec<String>, String>) -> Option<(Bytecode, usize)> {
    let u = compile_source(src, modules, cx.b).ok()?;
    let bc = u.program.to_bytecode(Some(u.entry));
    let mut program = u.program;
    let (v, ex) = match run_sync_guarded(bc, cx.b) {
        Some(x) => x,
        None => {
            cx.ev.hit("extract:top-level-not-sequential");
            return None;
        }
    };
    let Value::Function(fi, caps) = v else {
        return None;
    };
    let entry = if caps.is_empty() {
        cx.ev.hit("extract:no-captures");
        fi
    } else {
        cx.ev.hit(&format!("extract:captures-{}", caps.len().min(4)));
        // model side first (the Rust call mutates `program`)
        let before = program.to_bytecode(None);
        let cap_sx: Option<Vec<String>> = caps.iter().map(|c| sx_val(c, &before.constants, &ex)).collect();
        let model_ans = match &cap_sx {
            Some(cs) => {
                let t = Tables { compat: vec![], canon: vec![], fparam: vec![], bparam: vec![] };
                let r1 = cx.model.ask(&sx_prog("A", &before, &t));
                if r1.starts_with("ok") { Some(cx.model.ask(&format!("(inject {fi} {})", cs.join(" ")))) } else { Some(format!("model-parse:{r1}")) }
            }
            None => None,
        };
        match qverif::catch(|| program.inject_function_captures(fi, (*caps).clone(), &ex)) {
            Ok(i) => {
                if let Some(ans) = model_ans {
                    let instrs: Vec<String> = program.get_function(i).map(|f| f.instructions.iter().map(sx_instr).collect()).unwrap_or_default();
                    let consts: Vec<String> = program
                        .get_constants()
                        .iter()
                        .map(|c| match c {
                            Constant::Integer(i) => format!("(i {i})"),
                            Constant::Binary(b) if b.is_empty() => "(b)".to_string(),
                            Constant::Binary(b) => format!("(b {})", qverif::hex(b)),
                        })
                        .collect();
                    let expect = format!("ok g={i} fns={} instrs=({}) consts=({})", program.get_functions().len(), instrs.join(" "), consts.join(" "));
                    cx.ev.hit("inject:model-compared");
                    if caps.iter().any(|c| matches!(c, Value::Function(_, cs) if !cs.is_empty())) {
                        cx.ev.hit("inject:nested-capturing-closure");
                    }
                    if ans != expect {
                        cx.ev.violation(
                            "path=entry kind=inject-differs-from-model",
                            &format!("inject_function_captures({fi}, {} captures) differs from the model: impl `{}` model `{}`", caps.len(), clip(&expect), clip(&ans)),
                            json!({"broken": "correspondence model<->impl on Program::inject_function_captures (C10.injectCaptures_prelude / InjectCapturesEquiv)", "source": src, "function": fi, "captures": cap_sx, "impl": expect, "model": ans}),
                            false,
                        );
                    }
                }
                i
            }
            Err(_) => {
                cx.ev.hit("extract:inject-panic");
                if let Some(ans) = model_ans
                    && ans != "none"
                {
                    cx.ev.hit("inject:impl-panics-model-succeeds");
                }
                return None;
            }
        }
    };
    Some((program.to_bytecode(Some(entry)), entry))
}

fn report(cx: &mut Ctx, path: &str, label: &str, src: &str, rep: &CaseReport, extra: serde_json::Value) {
    let disagree = outcomes_agree(rep);
    if let Some((n0, o0, n1, o1)) = &disagree {
        // the oracle on the implementation fails: two packagings of one program behave differently
        let sig = format!("path={path} kind=result-differs variants={n0}/{n1}");
        cx.ev.violation(
            &sig,
            &format!("{label}: variant `{n0}` gives `{}` but `{n1}` gives `{}`", clip(o0), clip(o1)),
            json!({"label": label, "source": src, "outcomes": rep.outcomes, "rejections": rep.rejections, "extra": extra}),
            true,
        );
    }
    for (pair, ans) in &rep.rejections {
        if disagree.is_some() {
            continue; // already reported with a concrete failing input
        }
        let sig = format!("path={path} kind=validator-reject pair={pair} why={}", reject_kind(ans));
        cx.ev.violation(
            &sig,
            &format!("{label}: validator no longer proves {pair} equivalent: {}", clip(ans)),
            json!({"label": label, "source": src, "broken": format!("C10.checkRenaming_sound / run_commutes_with_renaming hypothesis for pair {pair}"),
                   "validator": ans, "outcomes": rep.outcomes, "extra": extra}),
            false,
        );
    }
}

fn clip(s: &str) -> String {
    if s.len() > 200 { format!("{}…", &s[..s.char_indices().take_while(|(i, _)| *i < 200).last().map(|(i, c)| i + c.len_utf8()).unwrap_or(0)]) } else { s.to_string() }
}

// ---------------------------------------------------------------------------------------------
// Imports vs in-place evaluation
// ---------------------------------------------------------------------------------------------

struct ImportCase {
    module: String,
    with_import: String,
    in_place: String,
}

fn gen_import_case(r: &mut Rng) -> ImportCase {
    // module body: bindings then a record of exports (values, a closure with captures, a builtin,
    // a computed binary living on the module executor's heap)
    let a = r.range(1, 50);
    let b = r.range(1, 50);
    let hexs = ["0a0b", "ff", "00010203", "c0ffee"];
    let h1 = *r.pick(&hexs);
    let h2 = *r.pick(&hexs);
    let defs = vec![
        format!("m_a = {a}"),
        format!("m_b = [m_a, {b}] __integer_multiply__"),
        format!("m_bin = [0x{h1}, 0x{h2}] __binary_concat__"),
        "m_f = #'int { [[~, m_a] __integer_multiply__, m_b] __integer_subtract__ }".to_string(),
        "m_g = #'int { | [__integer_abs__, 1] __integer_compare__ =1 => [~, 3] __integer_divide__ ^ | m_b }".to_string(),
        "m_h = #'int { m_f m_g }".to_string(),
    ];
    let export = "[a: m_a, b: m_b, bin: m_bin, f: &m_f, g: &m_g, h: &m_h, add: &__integer_add__, t: Point[x: m_a, y: Pair[m_b, \"s\"]]]";
    let module = format!("{},\n{}", defs.join(",\n"), export);
    // uses
    let x = r.range(0, 9);
    let uses_import = [
        format!("{x} %m.f"),
        format!("{x} %m.h"),
        "%m.t".to_string(),
        "%m.bin".to_string(),
        format!("[%m.a, {x}] %m.add"),
        format!("m = %m, {x} m.f"),
        "(a, b) = %m, [a, b]".to_string(),
        format!("k = &%m.f, {x} k"),
        format!("[{x} %m.g, %m.t.y]"),
    ];
    let uses_place = [
        format!("{x} m.f"),
        format!("{x} m.h"),
        "m.t".to_string(),
        "m.bin".to_string(),
        format!("[m.a, {x}] m.add"),
        format!("{x} m.f"),
        "(a, b) = m, [a, b]".to_string(),
        format!("k = &m.f, {x} k"),
        format!("[{x} m.g, m.t.y]"),
    ];
    let i = r.usize(uses_import.len());
    ImportCase {
        module,
        with_import: uses_import[i].clone(),
        in_place: format!("{},\nm = {},\n{}", defs.join(",\n"), export, uses_place[i]),
    }
}

// ---------------------------------------------------------------------------------------------

const F13: &str = "'pr = @'int\n'par = @'pr\n#{ g = #'par { =parent, &. parent, !'int }, me = &., p = &me @g, !#'pr =q, &q =&p }";

fn main() {
    qverif::quiet_panics();
    let opts = Opts::parse();
    let mut ev = Ev::new("C10", &opts);
    ev.rule = "one case = one accepted program (test-suite sources, examples, spec blocks, corpus/C10, generated programs \
               with dead code / closures with ≥2 captures / type tests on functions, builtins, processes) taken through every \
               packaging path (compiled, sync, tree-shaken, serde round trip, merged behind 1–3 earlier programs on 1–2 workers, \
               `quiv run` entry extraction, module import vs in place); non-trivial when at least two variants ran to a value or \
               a runtime error and the validator was consulted; distinct by source text + path"
        .into();
    let b = qverif::run::builtins();
    let mut model = Model::spawn(opts.model.as_ref().expect("--model"));
    let _ = model.ask(&format!("(canon-limit {})", opts.tier.pick(48, 1_000_000)));
    let hyp_limit = opts.tier.pick(24usize, 80usize);
    let mut cx = Ctx { hyp_limit, b: &b, model, ev, max_rounds: 4000, pool: vec![] };
    let no_modules: HashMap<Vec<String>, String> = HashMap::new();

    // ---- single-source / replay mode ------------------------------------------------------------
    // `--src '<program>'` or `--replay <file>` (replay.source, optional replay.extra.module):
    // run every path on that one program and print the full report.
    let single: Option<(String, HashMap<Vec<String>, String>)> = if let Some(p) = &opts.replay {
        let j: serde_json::Value = serde_json::from_str(&std::fs::read_to_string(p).expect("replay file")).expect("replay json");
        let src = j["replay"]["source"].as_str().unwrap_or("").to_string();
        let mut m = HashMap::new();
        if let Some(ms) = j["replay"]["extra"]["module"].as_str() {
            m.insert(vec!["m".to_string()], ms.to_string());
        }
        Some((src, m))
    } else if let Some(i) = opts.extra.iter().position(|x| x == "--src") {
        Some((opts.extra.get(i + 1).cloned().unwrap_or_default(), HashMap::new()))
    } else {
        None
    };
    if let Some((src, modules)) = single {
        for s in [
            "x = 1, Point[x: x, y: 2]",
            "u = 1 { | =0 => A[1] | =1 => B[x: 2] | 3 }, u { | =A[a] => a | =B[x: b] => b | =('int)i => i }",
            "p = @{ !'int }, 7 p, !p",
            "[1, 2] %num.add",
        ] {
            if let Some((bc, _)) = compile(&mut cx, s, &no_modules) {
                cx.pool.push(bc);
            }
        }
        let mut r = Rng::for_case(opts.seed, 0);
        println!("source: {src}");
        match compile(&mut cx, &src, &modules) {
            None => println!("rejected by the front end"),
            Some((p, e)) => {
                let rep = packaging_case(&mut cx, &mut r, "single", &src, &p, e);
                println!("[wrapper] outcomes: {:?}\n[wrapper] rejections: {:?}", rep.outcomes, rep.rejections);
                report(&mut cx, "wrapper", "single", &src, &rep, json!({}));
            }
        }
        if let Some((pb, eb)) = extract_entry(&mut cx, &src, &modules) {
            let mut rep = packaging_case(&mut cx, &mut r, "single", &src, &pb, eb);
            let in_place = format!("{} =zzf9,\n[] zzf9", src.trim_end().trim_end_matches(','));
            if let Ok(u) = compile_source(&in_place, &modules, cx.b) {
                let bc = u.program.to_bytecode(Some(u.entry));
                let rp = run_in_env(cx.b, &bc, &[], 1, cx.max_rounds);
                rep.outcomes.insert(0, ("called-in-place".into(), rp.outcome));
            }
            println!("[entry] outcomes: {:?}\n[entry] rejections: {:?}", rep.outcomes, rep.rejections);
            report(&mut cx, "entry", "single", &src, &rep, json!({}));
        } else {
            println!("[entry] program does not evaluate to a function on the sync path");
        }
        let Ctx { model, ev, .. } = cx;
        drop(model);
        std::process::exit(ev.finish());
    }

    // ---- sources -----------------------------------------------------------------------------
    let mut sources: Vec<(String, String)> = vec![];
    // regression corpus first
    if let Ok(rd) = std::fs::read_dir("/verif/corpus/C10") {
        let mut files: Vec<_> = rd.filter_map(|e| e.ok()).map(|e| e.path()).collect();
        files.sort();
        for f in files {
            if let Ok(t) = std::fs::read_to_string(&f) {
                sources.push((format!("corpus:{}", f.file_name().unwrap().to_string_lossy()), t));
            }
        }
    }
    sources.push(("regression:F13".into(), F13.to_string()));
    let mut corpus: Vec<(String, String)> = vec![];
    for (i, (f, s)) in qverif::corpus::test_sources().into_iter().enumerate() {
        corpus.push((format!("tests:{f}#{i}"), s));
    }
    for (f, s) in qverif::corpus::examples() {
        corpus.push((format!("examples:{f}"), s));
    }
    for (i, s) in qverif::corpus::spec_blocks().into_iter().enumerate() {
        corpus.push((format!("spec#{i}"), s));
    }
    // distinct texts only
    let mut seen = BTreeSet::new();
    corpus.retain(|(_, s)| seen.insert(s.clone()));
    let corpus_budget = opts.tier.pick(420usize, corpus.len());
    let mut r0 = Rng::for_case(opts.seed ^ 0xC10, 0);
    r0.shuffle(&mut corpus);
    cx.ev.set_extra("corpus_available", json!(corpus.len()));
    corpus.truncate(corpus_budget);
    sources.extend(corpus);

    // merge-history pool: a few small programs that complete
    for src in [
        "x = 1, Point[x: x, y: 2]",
        "f = #'int { [~, 1] __integer_add__ }, 4 f",
        "Pair[\"s\", 0x00ff]",
        "u = 1 { | =0 => A[1] | =1 => B[x: 2] | 3 }, u { | =A[a] => a | =B[x: b] => b | =('int)i => i }",
        "p = @{ !'int }, 7 p, !p",
        "g = #['int, 'int] { __integer_multiply__ }, [6, 7] g",
        "Point[x: 0x01, y: Point[x: 1, y: 2]]",
        "%num.add",
        "[1, 2] %num.add",
    ] {
        if let Some((bc, _)) = compile(&mut cx, src, &no_modules) {
            cx.pool.push(bc);
        }
    }

    // ---- path: packaging of corpus programs (wrapper function as entry) ------------------------
    for (ci, (label, src)) in sources.iter().enumerate() {
        let mut r = Rng::for_case(opts.seed ^ 0xA, ci as u64);
        let Some((p, e)) = compile(&mut cx, src, &no_modules) else { continue };
        let t_case = std::time::Instant::now();
        let rep = packaging_case(&mut cx, &mut r, label, src, &p, e);
        if std::env::var("VERIF_DEBUG").is_ok() {
            eprintln!("case {ci} {label} {} ms fns={} outcomes={:?}", t_case.elapsed().as_millis(), p.functions.len(), rep.outcomes.iter().map(|o| clip(&o.1).chars().take(30).collect::<String>()).collect::<Vec<_>>());
        }
        let ran = rep.outcomes.iter().filter(|(_, o)| !o.starts_with("hang") && !o.starts_with("start-")).count();
        cx.ev.case(&(label.split('#').next().unwrap_or(""), src, "wrapper"), ran >= 2);
        for (_, o) in &rep.outcomes {
            cx.ev.hit(&format!("outcome:{}", o.split(':').next().unwrap_or("value").chars().take(12).collect::<String>().split('(').next().unwrap_or("")));
        }
        cx.ev.sample_sparse(ci as u64, 97, || json!({"label": label, "source": clip(src), "outcomes": rep.outcomes}));
        report(&mut cx, "wrapper", label, src, &rep, json!({}));
        // a completed program joins the merge-history pool (bounded)
        if cx.pool.len() < 40 && rep.outcomes.first().map(|o| !o.1.starts_with("hang") && !o.1.starts_with("error")).unwrap_or(false) && p.functions.len() < 60 {
            cx.pool.push(p.clone());
        }
        // `quiv run` path for corpus programs that evaluate to a function
        if let Some((pb, eb)) = extract_entry(&mut cx, src, &no_modules) {
            let mut repb = packaging_case(&mut cx, &mut r, label, src, &pb, eb);
            cx.ev.case(&(label.split('#').next().unwrap_or(""), src, "entry"), repb.outcomes.len() >= 2);
            // the extracted (capture-injected) entry must behave like calling the closure in place
            let in_place = format!("{} =zzf9,\n[] zzf9", src.trim_end().trim_end_matches(','));
            if let Ok(u) = compile_source(&in_place, &no_modules, cx.b) {
                let bc = u.program.to_bytecode(Some(u.entry));
                let rp = run_in_env(cx.b, &bc, &[], 1, cx.max_rounds);
                repb.outcomes.insert(0, ("called-in-place".into(), rp.outcome));
                cx.ev.hit("entry:compared-with-call-in-place");
            }
            report(&mut cx, "entry", label, src, &repb, json!({"in_place": in_place}));
        }
    }

    // ---- path: generated programs, both as wrapper and through entry extraction ----------------
    let n_gen = opts.tier.pick(800u64, 6000u64);
    for gi in 0..n_gen {
        let mut r = Rng::for_case(opts.seed ^ 0xB, gi);
        let g = gen_program(&mut r);
        for f in &g.features {
            cx.ev.hit(&format!("gen:{f}"));
        }
        let in_place = format!("{},\nzz = #{{ {} }},\nzz", g.defs.join(",\n"), g.body);
        let as_fn = format!("{},\n#{{ {} }}", g.defs.join(",\n"), g.body);
        let label = format!("gen#{gi}");
        if std::env::var("VERIF_DEBUG").is_ok() {
            eprintln!("GEN {gi} {}", in_place.replace('\n', " "));
        }
        let Some((p, e)) = compile(&mut cx, &in_place, &no_modules) else {
            cx.ev.hit("gen:rejected");
            if std::env::var("VERIF_DEBUG").is_ok() {
                eprintln!("REJECTED gen#{gi}: {in_place}\n  {:?}", compile_source(&in_place, &no_modules, cx.b).err().map(|e| format!("{e:?}").chars().take(300).collect::<String>()));
            }
            continue;
        };
        let mut rep = packaging_case(&mut cx, &mut r, &label, &in_place, &p, e);
        cx.ev.case(&(&in_place, "wrapper"), rep.outcomes.len() >= 2);
        // entry extraction: the extracted (capture-injected) function must behave like the call in place
        if let Some((pb, eb)) = extract_entry(&mut cx, &as_fn, &no_modules) {
            let repb = packaging_case(&mut cx, &mut r, &label, &as_fn, &pb, eb);
            cx.ev.case(&(&as_fn, "entry"), repb.outcomes.len() >= 2);
            for (n, o) in &repb.outcomes {
                rep.outcomes.push((format!("entry-{n}"), o.clone()));
            }
            for (n, a) in &repb.rejections {
                rep.rejections.push((format!("entry-{n}"), a.clone()));
            }
        } else {
            cx.ev.hit("gen:entry-not-extracted");
        }
        cx.ev.sample_sparse(gi, 53, || json!({"label": label, "source": in_place, "outcomes": rep.outcomes}));
        report(&mut cx, "generated", &label, &in_place, &rep, json!({"as_function": as_fn}));
    }

    // ---- path: imports vs in-place --------------------------------------------------------------
    let n_imp = opts.tier.pick(200u64, 1500u64);
    for ii in 0..n_imp {
        let mut r = Rng::for_case(opts.seed ^ 0xC, ii);
        let c = gen_import_case(&mut r);
        let mut modules = HashMap::new();
        modules.insert(vec!["m".to_string()], c.module.clone());
        let label = format!("import#{ii}");
        let (Some((pa, ea)), Some((pb, eb))) = (compile(&mut cx, &c.with_import, &modules), compile(&mut cx, &c.in_place, &no_modules)) else {
            cx.ev.hit("import:rejected");
            continue;
        };
        cx.ev.hit("import:compiled");
        let mut rep = packaging_case(&mut cx, &mut r, &label, &c.with_import, &pa, ea);
        let rb = run_in_env(cx.b, &pb, &[], 1, cx.max_rounds);
        rep.outcomes.push(("in-place".into(), rb.outcome));
        cx.ev.case(&(&c.with_import, &c.module), rep.outcomes.len() >= 2);
        cx.ev.sample_sparse(ii, 29, || json!({"label": label, "module": c.module, "import": c.with_import, "outcomes": rep.outcomes}));
        report(&mut cx, "import", &label, &c.with_import, &rep, json!({"module": c.module, "in_place": c.in_place}));
    }

    let Ctx { model, mut ev, pool, .. } = cx;
    // which type constructors were never renumbered by a sweep in this run (moved, and — for those that
    // carry ids — contents rewritten); expected: none
    {
        let mut missing: Vec<String> = vec![];
        for c in ["int", "bin", "ref", "tuple", "partial", "callable", "cycle", "union", "process", "resource", "var"] {
            if ev.counters.get(&format!("shake:renumbered:{c}:moved")).copied().unwrap_or(0) == 0 {
                missing.push(format!("{c}:moved"));
            }
        }
        for c in ["tuple", "partial", "callable", "union", "process"] {
            if ev.counters.get(&format!("shake:renumbered:{c}:contents-rewritten")).copied().unwrap_or(0) == 0 {
                missing.push(format!("{c}:contents-rewritten"));
            }
        }
        ev.set_extra("type_constructors_never_renumbered", json!(missing));
    }
    ev.set_extra("model_requests", json!(model.requests));
    ev.set_extra("merge_history_pool", json!(pool.len()));
    ev.set_extra("programs", json!(ev.evaluations));
    drop(model);
    std::process::exit(ev.finish());
}
