//! Program families: each builds `Prog`s that sit at one of the carve-outs named in C01.
use crate::gen_::*;
use qverif::Rng;
use std::collections::BTreeSet;

fn arg_of(v: &GVal) -> Arg {
    Arg { src: v.src(), aligned_src: None, note: String::new() }
}

/// pick at most `n` args, varied, smallest first
fn pick_args(r: &mut Rng, mut vals: Vec<GVal>, n: usize) -> Vec<Arg> {
    vals.dedup();
    r.shuffle(&mut vals);
    vals.truncate(n);
    vals.sort_by_key(|v| v.size());
    vals.iter().map(arg_of).collect()
}

/// A: a function dispatching on its parameter by pattern order (narrowing by complement, value
/// patterns, guards, nested patterns, typed bindings, alternations), called with literal-typed and
/// with declared-type (widened) arguments — the latter exercise the whole table, the former the
/// per-branch case table (return-type dispatch).
pub fn fam_dispatch(r: &mut Rng) -> Vec<Prog> {
    let mut g = G::new(r);
    let ty = match g.r.below(10) {
        0..=5 => {
            let d = 1 + g.r.usize(2);
            g.union_ty(d)
        }
        6 => GTy::List(Box::new(if g.r.chance(1, 2) { g.leaf_ty() } else { g.union_ty(0) })),
        7 => GTy::Tree(Box::new(g.leaf_ty())),
        8 => GTy::Opt(Box::new(g.ty(1))),
        _ => {
            // tuple of unions: per-element cross-branch narrowing
            let a = g.union_ty(0);
            let b = if g.r.chance(1, 2) { a.clone() } else { g.union_ty(0) };
            GTy::Tup(None, vec![(None, a), (None, b)])
        }
    };
    let body = g.dispatch_block(&ty, 2);
    let declared_ret = false;
    let _ = declared_ret;
    let f = cat(vec![t(&format!("#{} ", ty.param_src())), body]);
    let w = t(&format!("#{} {{ $ }}", ty.param_src()));
    let vals = g.values(&ty, 2);
    let args = pick_args(g.r, vals, 6);
    let aliases = g.aliases_for(&[&ty]);
    let mut feats = g.feats.clone();
    let mut out = vec![];
    for wide in [false, true] {
        let mut fs = feats.clone();
        fs.insert(if wide { "call:declared-type-arg".into() } else { "call:literal-type-arg".into() });
        out.push(Prog {
            family: "dispatch",
            features: fs,
            aliases: aliases.clone(),
            guards: vec![],
            defs: vec![("f".into(), f.clone()), ("w".into(), w.clone())],
            main: t(if wide { "{ARG} w f" } else { "{ARG} f" }),
            args: args.clone(),
            generic_fn: None,
        declared_ret: None,
        });
    }
    feats.clear();
    out
}

/// A': the scrutinee is a variable (or a field of it, or a tuple of two variables) of union type
/// produced by a maker function; blocks test it with in-chain matches and later branches use it
/// under the complement.
pub fn fam_variable(r: &mut Rng) -> Vec<Prog> {
    let mut g = G::new(r);
    let ty = g.union_ty(1);
    let variants = ty.variants();
    // maker: int -> one literal per variant
    let mut lits = vec![];
    for v in &variants {
        let vals = g.values(v, 1);
        lits.push(vals[g.r.usize(vals.len())].clone());
    }
    let mut mk = vec![];
    for (i, l) in lits.iter().enumerate() {
        if i + 1 == lits.len() {
            mk.push(t(&l.src()));
        } else {
            mk.push(t(&format!("={i} => {}", l.src())));
        }
    }
    let mkf = cat(vec![t("#'int "), Node::Block(mk)]);
    // body: x piped into a dispatch block / in-chain matches
    // gate (finding N13): style 2 (a tuple of two variables matched by patterns that constrain both
    // fields) makes a later, matching branch yield nil; witness in the regression corpus
    let style = g.r.below(2);
    let main = match style {
        0 => {
            g.feats.insert("scrutinee:variable-piped".into());
            let b = g.dispatch_block(&ty, 2);
            cat(vec![t("x = {ARG} mk, x "), b])
        }
        1 => {
            g.feats.insert("scrutinee:variable-inchain".into());
            // { x =PAT => cons | x =PAT => cons | use x optimistically }
            let n = 1 + g.r.usize(3);
            let mut bs = vec![];
            let mut covered = BTreeSet::new();
            for _ in 0..n {
                let mut binds = vec![];
                let (p, _) = g.pat(&ty, 1, &mut binds, true);
                for (i, v) in variants.iter().enumerate() {
                    if let GTy::Tup(Some(nm), _) = v
                        && p.trim_start_matches(|c| c == '(' || c == '\u{27E6}' || c == '\u{27EA}').starts_with(nm.as_str())
                    {
                        covered.insert(i);
                    }
                    if matches!(v, GTy::Int) && (p.starts_with("'int") || p.starts_with("('int")) {
                        covered.insert(i);
                    }
                }
                let c = g.consequence(&binds);
                bs.push(cat(vec![t(&format!("x ={p} => ")), c]));
            }
            let unc: Vec<usize> = (0..variants.len()).filter(|i| !covered.contains(i)).collect();
            let tagname = format!("R{}", 900 + g.r.usize(90));
            if unc.len() == 1 {
                g.feats.insert("narrow:optimistic-complement-use".into());
                let u = g.demanding_use(t("x"), &variants[unc[0]].clone(), 2);
                bs.push(cat(vec![t(&format!("{tagname}[")), u, t("]")]));
            } else {
                bs.push(t(&format!("{tagname}[x]")));
            }
            cat(vec![t("x = {ARG} mk, "), Node::Block(bs)])
        }
        _ => {
            g.feats.insert("scrutinee:tuple-of-variables".into());
            let pair = GTy::Tup(None, vec![(None, ty.clone()), (None, ty.clone())]);
            let b = g.dispatch_block(&pair, 2);
            cat(vec![t("x = {ARG} mk, y = 0 mk, [x, y] "), b])
        }
    };
    let aliases = g.aliases_for(&[&ty]);
    let args: Vec<Arg> = (0..variants.len()).map(|i| Arg { src: i.to_string(), aligned_src: None, note: String::new() }).collect();
    vec![Prog {
        family: "variable",
        features: g.feats.clone(),
        aliases,
        guards: vec![],
        defs: vec![("mk".into(), mkf)],
        main,
        args,
        generic_fn: None,
        declared_ret: None,
    }]
}

/// C: generic functions — unification with widening, unions on either side, recursive aliases,
/// partial parameters, higher-order parameters; arguments are literals (possibly heterogeneous)
/// or union-typed values coming out of a maker function.
pub fn fam_generic(r: &mut Rng) -> Vec<Prog> {
    let mut g = G::new(r);
    let tv = GTy::Var("t".into());
    // instantiation candidates for 't
    let insts = [GTy::Int, GTy::Bin, tag("A"), tup(Some("B"), vec![(None, GTy::Int)]), tag("C")];
    let shape = g.r.below(9);
    let (param, body, feat): (GTy, Node, &str) = match shape {
        0 => {
            let p = GTy::Tup(None, vec![(None, tv.clone()), (None, tv.clone())]);
            let k = g.r.below(3);
            let b = match k {
                0 => t("{ =[a, b] => W[a] }"),
                1 => t("{ =[a, b] => W[b] }"),
                _ => t("{ =[a, b] => [b, a] }"),
            };
            (p, b, "generic:pair-widening")
        }
        1 => {
            let p = GTy::List(Box::new(tv.clone()));
            let b = match g.r.below(4) {
                0 => t("{ | =Cons[h, _] => W[h] | N }"),
                1 => t("{ | =Cons[_, Cons[h, _]] => W[h] | =Cons[h, _] => V[h] | N }"),
                2 => t("{ | =Cons[_, Cons[_, Cons[h, _]]] => W[h] | N }"),
                _ => t("{ | =Nil => N | =Cons[h, tl] => W[h, tl] }"),
            };
            (p, b, "generic:list")
        }
        2 => {
            let p = GTy::Tup(None, vec![(None, GTy::List(Box::new(tv.clone()))), (None, tv.clone())]);
            let b = match g.r.below(3) {
                0 => t("{ =[l, e] => Cons[e, l] }"),
                1 => t("{ | =[Cons[h, _], e] => [h, e] | =[Nil, e] => [e, e] }"),
                _ => t("{ =[l, e] => l { | =Cons[_, Cons[h, _]] => W[h, e] | V[e] } }"),
            };
            (p, b, "generic:list-and-elem")
        }
        3 => {
            let p = GTy::Opt(Box::new(tv.clone()));
            (p, t("{ | =Some[x] => W[x] | =None => N }"), "generic:opt")
        }
        4 => {
            let p = GTy::Union(vec![tup(Some("A"), vec![(None, tv.clone())]), tup(Some("B"), vec![(None, tv.clone())])]);
            let b = match g.r.below(2) {
                0 => t("{ | =A[x] => x | =B[x] => x }"),
                _ => t("{ | =A[x] => W[x] | =B[x] => V[x] }"),
            };
            (p, b, "generic:user-union")
        }
        5 => {
            let p = GTy::Part(None, vec![("x".into(), tv.clone())]);
            let b = match g.r.below(3) {
                0 => cat(vec![t("{ W["), Node::Field(Box::new(t("$")), Acc::partial_field("x")), t("] }")]),
                1 => t("{ =(x: v) => W[v] }"),
                _ => t("{ $ }"),
            };
            (p, b, "generic:partial")
        }
        6 => {
            let u = GTy::Var("u".into());
            let p = GTy::Tup(None, vec![(None, GTy::Fn(Box::new(tv.clone()), Box::new(u))), (None, tv.clone())]);
            (p, t("{ =[f, x] => W[x f] }"), "generic:higher-order")
        }
        7 => {
            let p = GTy::Tree(Box::new(tv.clone()));
            let b = match g.r.below(2) {
                0 => t("{ | =Leaf[x] => W[x] | =Node[Leaf[x], _] => V[x] | =Node[_, Leaf[x]] => U[x] | N }"),
                _ => t("{ | =Node[Node[_, Leaf[x]], _] => W[x] | =Node[_, Node[Leaf[x], _]] => V[x] | N }"),
            };
            (p, b, "generic:tree")
        }
        _ => {
            // 't next to a concrete component
            let p = GTy::Tup(None, vec![(None, GTy::Int), (None, tv.clone())]);
            (p, t("{ =[n, x] => W[x, [n, 1] __integer_add__] }"), "generic:int-and-var")
        }
    };
    g.feats.insert(feat.to_string());
    let is_ho = shape == 6;
    // arguments: instantiate 't at one or two types (heterogeneous values when two)
    let mut args: Vec<Arg> = vec![];
    let mut makers: Vec<GVal> = vec![];
    for _ in 0..5 {
        let i1 = insts[g.r.usize(insts.len())].clone();
        let i2 = insts[g.r.usize(insts.len())].clone();
        let inst = if g.r.chance(1, 2) || i1 == i2 { i1.clone() } else { GTy::Union(vec![i1.clone(), i2.clone()]) };
        let mut pty = param.subst("t", &inst);
        if is_ho {
            pty = pty.subst("u", if g.r.chance(1, 2) { &GTy::Int } else { &GTy::Bin });
        }
        let vals = g.values(&pty, 3);
        if vals.is_empty() {
            continue;
        }
        let v = vals[g.r.usize(vals.len())].clone();
        makers.push(v.clone());
        if matches!(pty, GTy::Part(_, _)) {
            // K3: also a misaligned version of the same value (extra field in front)
            if let GVal::Tup(n, fs) = &v {
                let mut mis = fs.clone();
                mis.insert(0, (Some("zz".into()), GVal::Bin(vec![9])));
                args.push(Arg {
                    src: GVal::Tup(n.clone(), mis).src(),
                    aligned_src: Some(v.src()),
                    note: "partial-misaligned".into(),
                });
            }
        }
        args.push(arg_of(&v));
    }
    // union-typed arguments: a maker returning different literals
    let mut defs: Vec<(String, Node)> = vec![("g".into(), cat(vec![t(&format!("#<'t{}>{} ", if is_ho { ", 'u" } else { "" }, param.param_src())), body]))];
    if makers.len() >= 2 && !is_ho {
        g.feats.insert("generic:union-typed-arg".into());
        let mut mk = vec![];
        let m = makers.len().min(3);
        for (i, l) in makers.iter().take(m).enumerate() {
            if i + 1 == m {
                mk.push(t(&l.src()));
            } else {
                mk.push(t(&format!("={i} => {}", l.src())));
            }
        }
        defs.push(("mk".into(), cat(vec![t("#'int "), Node::Block(mk)])));
        for i in 0..m {
            args.push(Arg { src: format!("{i} mk"), aligned_src: None, note: "maker".into() });
        }
    }
    let aliases = g.aliases_for(&[&param]);
    vec![Prog {
        family: "generic",
        features: g.feats.clone(),
        aliases,
        guards: vec![],
        defs,
        main: t("{ARG} g"),
        args,
        generic_fn: Some("g".into()),
        declared_ret: None,
    }]
}

/// E: tail calls with computed arguments (F5 territory): recursive functions whose `^` argument is
/// sometimes of the wrong shape. The K1 repair routes the argument through `idg_f`.
pub fn fam_tail(r: &mut Rng) -> Vec<Prog> {
    let mut g = G::new(r);
    let shape = g.r.below(5);
    let elem = if g.r.chance(1, 2) { GTy::Int } else { GTy::Bin };
    let list = GTy::List(Box::new(elem.clone()));
    let tg = || Node::TailGuard("f".into());
    let (pty, body, args, feat): (GTy, Node, Vec<String>, &str) = match shape {
        0 => {
            // length with accumulator; the wrong variants swap / drop components
            let p = GTy::Tup(None, vec![(None, list.clone()), (None, GTy::Int)]);
            let arg = match g.r.below(5) {
                0..=1 => "[tl, [n, 1] __integer_add__] ",
                2 => "[[n, 1] __integer_add__, tl] ",
                3 => "tl ",
                _ => "[tl, h] ",
            };
            let b = Node::Block(vec![
                t("=[Nil, n] => n"),
                cat(vec![t(&format!("=[Cons[h, tl], n] => {arg}")), tg(), t("^")]),
            ]);
            let l1 = g.values(&list, 3);
            let args = l1.iter().take(5).map(|v| format!("[{}, 0]", v.src())).collect();
            (p, b, args, "tail:list-accumulator")
        }
        1 => {
            // countdown on a record (the F5 shape)
            let p = tup(None, vec![(Some("a"), GTy::Int), (Some("b"), GTy::Int)]);
            let arg = match g.r.below(4) {
                0..=1 => "[a: [$a, 1] __integer_subtract__, b: [$b, 2] __integer_add__] ",
                2 => "5 ",
                _ => "[b: $b, a: [$a, 1] __integer_subtract__] ",
            };
            let b = Node::Block(vec![
                t("[$a, 0] __integer_compare__ =0 => $b"),
                cat(vec![t(arg), tg(), t("^")]),
            ]);
            (p, b, vec!["[a: 0, b: 2]".into(), "[a: 2, b: 1]".into()], "tail:record-countdown")
        }
        2 => {
            // union parameter, tail call with a variant built from pieces
            let p = GTy::Union(vec![tup(Some("Go"), vec![(None, GTy::Int)]), tup(Some("Stop"), vec![(None, elem.clone())])]);
            let stopv = if elem == GTy::Int { "7" } else { "0x07" };
            let arg = match g.r.below(4) {
                0..=1 => format!("{{ [n, 0] __integer_compare__ =1 => Go[[n, 1] __integer_subtract__] | Stop[{stopv}] }} "),
                2 => "Stop[n] ".to_string(),
                _ => "[n, 1] __integer_subtract__ ".to_string(),
            };
            let b = Node::Block(vec![t("=Stop[x] => W[x]"), cat(vec![t(&format!("=Go[n] => {arg}")), tg(), t("^")])]);
            (p, b, vec!["Go[0]".into(), "Go[2]".into(), format!("Stop[{stopv}]")], "tail:union-param")
        }
        3 => {
            // named tail call into another function
            let p = GTy::Int;
            let arg = match g.r.below(3) {
                0 => "[~, 1] ",
                1 => "~ ",
                _ => "[~, 0x00] ",
            };
            let b = Node::Block(vec![cat(vec![t(arg), Node::TailGuard("h".into()), t("^h")])]);
            (p, b, vec!["1".into(), "5".into()], "tail:named")
        }
        _ => {
            // reverse with accumulator, generic
            let p = GTy::Tup(None, vec![(None, GTy::List(Box::new(GTy::Var("t".into())))), (None, GTy::List(Box::new(GTy::Var("t".into()))))]);
            let arg = match g.r.below(4) {
                0..=1 => "[tl, Cons[h, acc]] ",
                2 => "[tl, h] ",
                _ => "[Cons[h, acc], tl, Nil] ",
            };
            let b = Node::Block(vec![
                t("=[Nil, acc] => acc"),
                cat(vec![t(&format!("=[Cons[h, tl], acc] => {arg}")), tg(), t("^")]),
            ]);
            let l1 = g.values(&list, 3);
            let args = l1.iter().take(5).map(|v| format!("[{}, Nil]", v.src())).collect();
            (p, b, args, "tail:generic-reverse")
        }
    };
    g.feats.insert(feat.to_string());
    let generic = shape == 4;
    let head = if generic { format!("#<'t>{} ", pty.param_src()) } else { format!("#{} ", pty.param_src()) };
    let mut defs = vec![];
    let mut guards = vec![(
        "idg_f".to_string(),
        format!("{}{{ $ }}", head),
    )];
    if shape == 3 {
        defs.push(("h".into(), t("#['int, 'int] { __integer_add__ }")));
        guards.push(("idg_h".into(), "#['int, 'int] { $ }".into()));
    }
    defs.push(("f".into(), cat(vec![t(&head), body])));
    defs.push(("w".into(), t(&format!("{head}{{ $ }}"))));
    let aliases = g.aliases_for(&[&pty, &list]);
    vec![Prog {
        family: "tail",
        features: g.feats.clone(),
        aliases,
        guards,
        defs,
        main: t("{ARG} f"),
        args: args.into_iter().map(|s| Arg { src: s, aligned_src: None, note: String::new() }).collect(),
        generic_fn: None,
        declared_ret: None,
    }]
}

/// G: partial types as parameters — field access, partial patterns, passing on; arguments carry
/// the fields at the declared positions (aligned) or elsewhere (K3), with other names, extra fields.
pub fn fam_partial(r: &mut Rng) -> Vec<Prog> {
    let mut g = G::new(r);
    let n = 1 + g.r.usize(2);
    let mut fs: Vec<(String, GTy)> = vec![];
    let labels = ["x", "y", "a"];
    for l in labels.iter().take(n) {
        // N14 (a partial pattern on a partial-TYPED value narrowed a union-typed field to its
        // tuple variant) is repaired by cf8f770: a field may be a union with a labelled tuple
        let ft = if g.r.chance(2, 3) {
            g.leaf_ty()
        } else if g.r.chance(1, 3) {
            let a = g.leaf_ty();
            let inner = g.leaf_ty();
            GTy::Union(vec![GTy::Tup(Some("P".into()), vec![(Some(l.to_string()), inner)]), a])
        } else {
            let a = g.leaf_ty();
            let b = g.leaf_ty();
            if a == b { a } else { GTy::Union(vec![a, b]) }
        };
        fs.push((l.to_string(), ft));
    }
    let named = g.r.chance(1, 3);
    let pty = GTy::Part(if named { Some("P".into()) } else { None }, fs.clone());
    let (l0, t0) = fs[g.r.usize(fs.len())].clone();
    // `h` takes the *first* declared field only, so that its declared position coincides with the
    // position in `g`'s partial type (anything else is finding N4 again)
    let (lh, th) = fs[0].clone();
    let body: Node = match g.r.below(5) {
        0 => {
            g.feats.insert("partial:field-access".into());
            let acc = Node::Field(Box::new(t("$")), Acc::partial_field(&l0));
            let u = g.demanding_use(acc, &t0, 1);
            cat(vec![t("{ W["), u, t("] }")])
        }
        1 => {
            g.feats.insert("partial:pattern".into());
            let u = g.demanding_use(t("v"), &t0, 1);
            cat(vec![t(&format!("{{ =({l0}: v) => W[")), u, t("] }")])
        }
        2 => {
            g.feats.insert("partial:pass-on".into());
            t("{ $ }")
        }
        3 => {
            g.feats.insert("partial:pass-to-partial-fn".into());
            // hand the value to a function with a smaller partial parameter
            cat(vec![t("{ $ h }")])
        }
        _ => {
            g.feats.insert("partial:positional-access".into());
            t("{ W[$.0] }")
        }
    };
    let mut defs = vec![];
    defs.push(("h".into(), cat(vec![t(&format!("#({lh}: {}) {{ V[", th.src_n(true))), Node::Field(Box::new(t("$")), Acc::partial_field(&lh)), t("] }")])));
    defs.push(("g".into(), cat(vec![t(&format!("#{} ", pty.param_src())), body])));
    // arguments
    let mut args = vec![];
    for _ in 0..3 {
        let mut base: Vec<(Option<String>, GVal)> = vec![];
        for (l, ft) in &fs {
            let vs = g.values(ft, 1);
            base.push((Some(l.clone()), vs[g.r.usize(vs.len())].clone()));
        }
        let nm = if named { Some("P".to_string()) } else if g.r.chance(1, 2) { Some("Q".to_string()) } else { None };
        let aligned = GVal::Tup(nm.clone(), base.clone());
        args.push(arg_of(&aligned));
        let mut behind = base.clone();
        behind.push((Some("zz".into()), GVal::Int(9)));
        args.push(arg_of(&GVal::Tup(nm.clone(), behind)));
        // misaligned: extra field in front / reversed
        let mut front = base.clone();
        front.insert(0, (Some("zz".into()), GVal::Bin(vec![9])));
        args.push(Arg { src: GVal::Tup(nm.clone(), front).src(), aligned_src: Some(aligned.src()), note: "partial-misaligned".into() });
        // a field of the partial type is missing: must be rejected (is_compatible, tuple vs partial)
        if !base.is_empty() {
            let mut missing = base.clone();
            let k = g.r.usize(missing.len());
            missing.remove(k);
            missing.push((Some("zz".into()), GVal::Int(9)));
            args.push(Arg { src: GVal::Tup(nm.clone(), missing).src(), aligned_src: None, note: "partial-missing-field".into() });
        }
        if base.len() > 1 {
            let mut rev = base.clone();
            rev.reverse();
            args.push(Arg { src: GVal::Tup(nm.clone(), rev).src(), aligned_src: Some(aligned.src()), note: "partial-misaligned".into() });
        }
    }
    let tys: Vec<&GTy> = fs.iter().map(|(_, t)| t).collect();
    let aliases = g.aliases_for(&tys);
    vec![Prog {
        family: "partial",
        features: g.feats.clone(),
        aliases,
        guards: vec![],
        defs,
        main: t("{ARG} g"),
        args,
        generic_fn: None,
        declared_ret: None,
    }]
}

/// a literal of type `ty` (first enumerated value, or a random one)
fn lit(g: &mut G, ty: &GTy) -> GVal {
    let vs = g.values(ty, 2);
    vs[g.r.usize(vs.len())].clone()
}

/// near miss of a type: one leaf flipped, a field dropped / added, a variant dropped / added
fn near_miss(t: &GTy, g: &mut G) -> GTy {
    match t {
        GTy::Int => GTy::Bin,
        GTy::Bin => GTy::Int,
        GTy::Tup(n, fs) if fs.is_empty() => GTy::Tup(Some(if n.as_deref() == Some("A") { "B".into() } else { "A".into() }), vec![]),
        GTy::Tup(n, fs) => {
            let mut fs2 = fs.clone();
            match g.r.below(4) {
                0 if fs2.len() > 1 => {
                    fs2.pop();
                }
                1 => fs2.push((fs2[0].0.as_ref().map(|_| "zz".to_string()), GTy::Int)),
                2 => return GTy::Tup(Some("Z".into()), fs2),
                _ => {
                    let i = g.r.usize(fs2.len());
                    fs2[i].1 = near_miss(&fs2[i].1.clone(), g);
                }
            }
            GTy::Tup(n.clone(), fs2)
        }
        GTy::Union(vs) => {
            let mut vs2 = vs.clone();
            match g.r.below(3) {
                0 if vs2.len() > 1 => {
                    let i = g.r.usize(vs2.len());
                    vs2.remove(i);
                    if vs2.len() == 1 {
                        return vs2[0].clone();
                    }
                }
                1 => {
                    let i = g.r.usize(vs2.len());
                    vs2[i] = near_miss(&vs2[i].clone(), g);
                }
                _ => vs2.push(tag("Z")),
            }
            GTy::Union(vs2)
        }
        other => other.clone(),
    }
}

/// D: declared return types. The body's branches produce literals of known types; the declared
/// type is their union — exact, or a near miss (variant dropped, leaf flipped, nil forgotten), which
/// the compiler must reject. An accepted near miss shows up as a value outside the declared type.
pub fn fam_return(r: &mut Rng) -> Vec<Prog> {
    let mut g = G::new(r);
    let ty = g.union_ty(1);
    let k = 2 + g.r.usize(2);
    let mut rtys: Vec<GTy> = vec![];
    for _ in 0..k {
        let t = match g.r.below(4) {
            0..=1 => g.leaf_ty(),
            2 => g.tuple_ty(0),
            _ => {
                let a = g.leaf_ty();
                let b = g.leaf_ty();
                if a == b { a } else { GTy::Union(vec![a, b]) }
            }
        };
        if !rtys.contains(&t) {
            rtys.push(t);
        }
    }
    let catch_all = g.r.chance(2, 3);
    let mut branches = vec![];
    for (i, rt) in rtys.iter().enumerate() {
        let v = lit(&mut g, rt);
        if i + 1 == rtys.len() && catch_all {
            branches.push(t(&v.src()));
        } else {
            let mut binds = vec![];
            let (p, _) = g.pat(&ty, 1, &mut binds, false);
            branches.push(t(&format!("={p} => {}", v.src())));
        }
    }
    let exact = GTy::Union(rtys.clone());
    let declared = match g.r.below(6) {
        0..=1 => {
            g.feats.insert("return:exact".into());
            exact.clone()
        }
        2 => {
            g.feats.insert("return:superset".into());
            let mut vs = rtys.clone();
            vs.push(tag("Z"));
            GTy::Union(vs)
        }
        _ => {
            g.feats.insert("return:near-miss".into());
            near_miss(&exact, &mut g)
        }
    };
    let declared = match &declared {
        GTy::Union(vs) if vs.len() == 1 => vs[0].clone(),
        d => d.clone(),
    };
    if !catch_all {
        g.feats.insert("return:maybe-nil-body".into());
    }
    let f = cat(vec![t(&format!("#{} -> {} ", ty.param_src(), declared.src_n(true))), Node::Block(branches)]);
    let w = t(&format!("#{} {{ $ }}", ty.param_src()));
    let vals = g.values(&ty, 2);
    let args = pick_args(g.r, vals, 5);
    let aliases = g.aliases_for(&[&ty]);
    let wide = g.r.chance(1, 2);
    vec![Prog {
        family: "return",
        features: g.feats.clone(),
        aliases,
        guards: vec![],
        defs: vec![("f".into(), f), ("w".into(), w)],
        main: t(if wide { "{ARG} w f" } else { "{ARG} f" }),
        args,
        generic_fn: None,
        declared_ret: Some(declared.src_n(true)),
    }]
}

/// F: closures and higher-order functions — function subtyping at a higher-order parameter
/// (contravariant parameter, covariant result: supertypes / subtypes / near misses), closures
/// capturing pattern bindings, and two functions sharing one callable type of which only one
/// dispatches (case tables looked up by type).
pub fn fam_hof(r: &mut Rng) -> Vec<Prog> {
    let mut g = G::new(r);
    match g.r.below(3) {
        0 => {
            // run = #[#Pd -> Rd] { =[h] => V h USE }, called with h : #Ph -> Rh
            g.feats.insert("hof:function-subtyping".into());
            let pd = if g.r.chance(1, 2) { g.leaf_ty() } else { g.union_ty(0) };
            let rd = if g.r.chance(1, 2) { g.leaf_ty() } else { g.union_ty(0) };
            // the function actually passed: its parameter may be wider (fine), narrower (must be
            // rejected: `run` calls it with a value of the dropped variant) or a near miss; its
            // result may be narrower (fine), wider (must be rejected: it returns a value of the
            // extra variant) or a near miss
            let mut av = lit(&mut g, &pd);
            let ph = match (g.r.below(5), &pd) {
                (0, _) => pd.clone(),
                (1, _) => GTy::Union(vec![pd.clone(), tag("Z")]),
                (2..=3, GTy::Union(vs)) if vs.len() >= 2 => {
                    g.feats.insert("hof:narrower-parameter".into());
                    let k = g.r.usize(vs.len());
                    av = lit(&mut g, &vs[k]);
                    let mut rest = vs.clone();
                    rest.remove(k);
                    if rest.len() == 1 { rest[0].clone() } else { GTy::Union(rest) }
                }
                _ => near_miss(&pd, &mut g),
            };
            let mut rv_override: Option<GVal> = None;
            let rh = match g.r.below(5) {
                0 => rd.clone(),
                1 => match &rd {
                    GTy::Union(vs) => vs[0].clone(),
                    o => o.clone(),
                },
                2..=3 => {
                    g.feats.insert("hof:wider-result".into());
                    let extra = if rd == GTy::Bin { GTy::Int } else { GTy::Bin };
                    let extra = match &rd {
                        GTy::Union(vs) if vs.contains(&extra) => tag("Z"),
                        _ => extra,
                    };
                    rv_override = Some(lit(&mut g, &extra));
                    GTy::Union(vec![rd.clone(), extra])
                }
                _ => near_miss(&rd, &mut g),
            };
            // h demands its parameter type and returns a literal of its result type
            let rv = match rv_override {
                Some(v) => v,
                None => lit(&mut g, &rh),
            };
            let use_p = g.demanding_use(t("$"), &ph.clone(), 1);
            let h = cat(vec![t(&format!("#{} {{ ", ph.param_src())), use_p, t(&format!(" =u, {} }}", rv.src()))]);
            let use_r = g.demanding_use(t("res"), &rd.clone(), 1);
            let run = cat(vec![
                t(&format!("#[#{} -> {}] {{ =[k] => {} k =res, W[", pd.src_n(true), rd.src_n(true), av.src())),
                use_r,
                t("] }"),
            ]);
            vec![Prog {
                family: "hof",
                features: g.feats.clone(),
                aliases: vec![],
                guards: vec![],
                defs: vec![("h".into(), h), ("run".into(), run)],
                main: t("[&h] run"),
                args: vec![Arg { src: String::new(), aligned_src: None, note: String::new() }],
                generic_fn: None,
        declared_ret: None,
            }]
        }
        1 => {
            // closure capturing a pattern binding
            g.feats.insert("hof:closure-capture".into());
            let t1 = g.union_ty(0);
            let t2 = g.leaf_ty();
            let body_use = {
                let vs = t1.variants();
                let v = vs[g.r.usize(vs.len())].clone();
                // optimistic: the captured value used as one variant after an earlier branch
                let u = g.demanding_use(t("c"), &v, 1);
                cat(vec![t("W["), u, t(", $]")])
            };
            let mut binds = vec![];
            let (p, _) = g.pat(&t1, 1, &mut binds, false);
            let mk = cat(vec![
                t(&format!("#{} {{ | ={p} => #{} {{ V[$] }} | =c => #{} {{ ", t1.param_src(), t2.param_src(), t2.param_src())),
                body_use,
                t(" } }"),
            ]);
            let a2 = lit(&mut g, &t2);
            let vals = g.values(&t1, 1);
            let args = pick_args(g.r, vals, 4);
            vec![Prog {
                family: "hof",
                features: g.feats.clone(),
                aliases: vec![],
                guards: vec![],
                defs: vec![("mk".into(), mk)],
                main: t(&format!("{{ARG}} mk =h, {} h", a2.src())),
                args,
                generic_fn: None,
        declared_ret: None,
            }]
        }
        _ => {
            // two functions with the same callable type; only `d` is a pure parameter dispatch
            g.feats.insert("hof:shared-callable-type".into());
            let a = tag("A");
            let b = tag("B");
            let r1 = g.leaf_ty();
            let mut r2 = g.leaf_ty();
            if r2 == r1 {
                r2 = if r1 == GTy::Int { GTy::Bin } else { GTy::Int };
            }
            let (v1, v2) = (lit(&mut g, &r1), lit(&mut g, &r2));
            let (w1, w2) = (lit(&mut g, &r1), lit(&mut g, &r2));
            let p = GTy::Union(vec![a, b]);
            let d = t(&format!("#{} {{ | =A => {} | =B => {} }}", p.param_src(), v1.src(), v2.src()));
            // same result union in the same order, but branch selection is not a pure dispatch
            let n = t(&format!("#{} {{ | =x, x =B => {} | {} }}", p.param_src(), w1.src(), w2.src()));
            let rty = GTy::Union(vec![r1, r2]);
            let ap = t(&format!("#[#{} -> {}, {}] {{ =[k, a] => a k }}", p.src_n(true), rty.src_n(true), p.src_n(true)));
            let which = if g.r.chance(1, 2) { "n" } else { "d" };
            let main = match g.r.below(2) {
                0 => format!("[&{which}, {{ARG}}] ap"),
                _ => format!("{{ARG}} {which}"),
            };
            vec![Prog {
                family: "hof",
                features: g.feats.clone(),
                aliases: vec![],
                guards: vec![],
                defs: vec![("d".into(), d), ("n".into(), n), ("ap".into(), ap)],
                main: t(&main),
                args: vec![
                    Arg { src: "A".into(), aligned_src: None, note: String::new() },
                    Arg { src: "B".into(), aligned_src: None, note: String::new() },
                ],
                generic_fn: None,
        declared_ret: None,
            }]
        }
    }
}

/// pins and repeated identifiers in tuple patterns (equality requirements) crossed with the
/// per-field complement narrowing of later branches.
pub fn fam_repeat(r: &mut Rng) -> Vec<Prog> {
    let mut g = G::new(r);
    let leaf = if g.r.chance(1, 2) { GTy::Int } else { GTy::Bin };
    let n = GTy::Union(vec![leaf.clone(), tup(Some("K"), vec![(None, leaf.clone())])]);
    let pty = GTy::Tup(None, vec![(None, n.clone()), (None, n.clone())]);
    let nb = 1 + g.r.usize(3);
    let mut branches = vec![];
    for _ in 0..nb {
        let tagname = format!("R{}", 1 + g.r.usize(90));
        let b = match g.r.below(7) {
            0 => {
                g.feats.insert("repeat:wrapped-then-bare".into());
                format!("=[K[a], {}]{} => {tagname}[a]", unrepeat_choice("a", "a2"), unrepeat_choice("", ", a2 =&a"))
            }
            1 => {
                g.feats.insert("repeat:bare-then-wrapped".into());
                format!("=[a, K[{}]]{} => {tagname}[a]", unrepeat_choice("a", "a2"), unrepeat_choice("", ", a2 =&a"))
            }
            2 => {
                g.feats.insert("repeat:both-bare".into());
                format!("=[a, {}]{} => {tagname}[a]", unrepeat_choice("a", "a2"), unrepeat_choice("", ", a2 =&a"))
            }
            3 => {
                g.feats.insert("repeat:pin".into());
                format!("=[K[a], _], $.1 =&a => {tagname}[a]")
            }
            4 => format!("=[K[a], _] => {tagname}[a]"),
            5 => format!("=[_, K[b]] => {tagname}[b]"),
            _ => {
                g.feats.insert("repeat:literal".into());
                let l = if leaf == GTy::Int { "1" } else { "0x00" };
                format!("=[K[{l}], _] => {tagname}")
            }
        };
        branches.push(t(&b));
    }
    // final branch: both elements used as the leaf type (sound only if every K was peeled soundly)
    let u1 = g.demanding_use(t("x"), &leaf, 1);
    let u2 = g.demanding_use(t("y"), &leaf, 1);
    let last = match g.r.below(3) {
        0 => cat(vec![t("=[x, y] => W["), u1, t(", "), u2, t("]")]),
        1 => cat(vec![t("=[x, y] => W["), u1, t(", y]")]),
        _ => t("=[x, y] => W[x, y]"),
    };
    branches.push(last);
    let f = cat(vec![t(&format!("#{} ", pty.param_src())), Node::Block(branches)]);
    let w = t(&format!("#{} {{ $ }}", pty.param_src()));
    let vals = g.values(&pty, 2);
    let args = pick_args(g.r, vals, 6);
    let wide = g.r.chance(1, 2);
    vec![Prog {
        family: "repeat",
        features: g.feats.clone(),
        aliases: vec![],
        guards: vec![],
        defs: vec![("f".into(), f), ("w".into(), w)],
        main: t(if wide { "{ARG} w f" } else { "{ARG} f" }),
        args,
        generic_fn: None,
        declared_ret: None,
    }]
}

/// H: spawn with an argument (the spawned function demands its parameter type) and await; runs
/// under the deterministic simulator. The argument comes from the parameter type or a near miss
/// (which `emit_arg_spawn` must reject).
pub fn fam_spawn(r: &mut Rng) -> Vec<Prog> {
    let mut g = G::new(r);
    let pty = match g.r.below(3) {
        0 => g.leaf_ty(),
        1 => g.tuple_ty(0),
        _ => g.union_ty(0),
    };
    let aty = match g.r.below(3) {
        0 => pty.clone(),
        _ => near_miss(&pty, &mut g),
    };
    g.feats.insert(if aty == pty { "spawn:exact-arg".into() } else { "spawn:near-miss-arg".into() });
    let body = match &pty {
        GTy::Union(_) => g.dispatch_block(&pty, 1),
        _ => {
            let u = g.demanding_use(t("$"), &pty, 1);
            cat(vec![t("{ W["), u, t("] }")])
        }
    };
    let f = cat(vec![t(&format!("#{} ", pty.param_src())), body]);
    let vals = g.values(&aty, 1);
    let args = pick_args(g.r, vals, 3);
    vec![Prog {
        family: "spawn",
        features: g.feats.clone(),
        aliases: vec![],
        guards: vec![],
        defs: vec![("f".into(), f)],
        main: t("p = {ARG} @f, !p"),
        args,
        generic_fn: None,
        declared_ret: None,
    }]
}

/// Programs sitting exactly on the documented carve-outs of complement narrowing
/// (`prevents_complement_narrowing`: literal / pin / partial type check; and
/// `pattern_constrains_recursive_field`): an earlier branch fails for a reason the complement
/// cannot express, a later branch uses the scrutinee as if the whole variant were excluded.
pub fn fam_carveout(r: &mut Rng) -> Vec<Prog> {
    let mut g = G::new(r);
    match g.r.below(3) {
        0 => {
            // partial (type) check on a union-typed field of one variant
            g.feats.insert("carveout:partial-type-check".into());
            let l1 = g.leaf_ty();
            let mut l2 = g.leaf_ty();
            if l2 == l1 {
                l2 = if l1 == GTy::Int { GTy::Bin } else { GTy::Int };
            }
            let a = tup(Some("A"), vec![(Some("a"), GTy::Union(vec![l1.clone(), l2.clone()])), (Some("b"), GTy::Int)]);
            let other = match g.r.below(3) {
                0 => GTy::Int,
                1 => tup(Some("B"), vec![(Some("c"), GTy::Bin)]),
                _ => tag("C"),
            };
            let ty = GTy::Union(vec![a.clone(), other.clone()]);
            let l1pat = l1.src();
            let mut aliases: Vec<String> = vec![];
            let first = match g.r.below(6) {
                4 => {
                    // the partial TYPE (through an alias) as a pattern: a run-time partial type check
                    g.feats.insert("carveout:partial-type-alias-pattern".into());
                    aliases.push(format!("'pt = (a: {l1pat})"));
                    "='pt => R1".to_string()
                }
                5 => {
                    g.feats.insert("carveout:partial-type-alias-pattern".into());
                    aliases.push(format!("'pt = A(a: {l1pat})"));
                    "=('pt)q => R1".to_string()
                }
                0 => format!("=(a: {l1pat}) => R1"),
                1 => format!("=A(a: {l1pat}) => R1"),
                2 => format!("=A(a: {l1pat}, b: _) => R1"),
                _ => format!("=A[a: {l1pat}, b: _] => R1"),
            };
            let u = g.demanding_use(t("x"), &other, 1);
            let second = cat(vec![t("=x => R2["), u, t("]")]);
            let f = cat(vec![t(&format!("#{} ", ty.param_src())), Node::Block(vec![t(&first), second])]);
            let w = t(&format!("#{} {{ $ }}", ty.param_src()));
            let vals = g.values(&ty, 2);
            let args = pick_args(g.r, vals, 8);
            let wide = g.r.chance(1, 2);
            vec![Prog {
                family: "carveout",
                features: g.feats.clone(),
                aliases,
                guards: vec![],
                defs: vec![("f".into(), f), ("w".into(), w)],
                main: t(if wide { "{ARG} w f" } else { "{ARG} f" }),
                args,
                generic_fn: None,
        declared_ret: None,
            }]
        }
        1 => {
            // nested patterns over a recursive type: later branches must keep their run-time checks
            g.feats.insert("carveout:recursive-field-constraint".into());
            let elem = if g.r.chance(1, 2) { GTy::Int } else { GTy::Bin };
            let use_tree = g.r.chance(2, 3);
            let (ty, pool): (GTy, Vec<&str>) = if use_tree {
                (
                    GTy::Tree(Box::new(elem.clone())),
                    vec![
                        "=Node[Node[Leaf[x], _], _] => R1[x]",
                        "=Node[_, Node[_, Leaf[x]]] => R2[x]",
                        "=Node[Node[_, _], Leaf[x]] => R3[x]",
                        "=Node[Leaf[x], _] => R4[x]",
                        "=Node[_, Leaf[x]] => R5[x]",
                        "=Node[Leaf[x], Leaf[y]] => R6[x, y]",
                        "=Leaf[x] => R7[x]",
                        "=Node[Node[a, b], c] => R8",
                    ],
                )
            } else {
                (
                    GTy::List(Box::new(elem.clone())),
                    vec![
                        "=Cons[_, Cons[_, Cons[x, _]]] => R1[x]",
                        "=Cons[_, Cons[x, Nil]] => R2[x]",
                        "=Cons[x, Nil] => R3[x]",
                        "=Cons[x, Cons[y, _]] => R4[x, y]",
                        "=Cons[x, z] => R5[x]",
                        "=Nil => R6",
                    ],
                )
            };
            let mut idx: Vec<usize> = (0..pool.len()).collect();
            g.r.shuffle(&mut idx);
            let nb = 2 + g.r.usize(3);
            let mut branches: Vec<Node> = idx.iter().take(nb).map(|i| t(pool[*i])).collect();
            if g.r.chance(1, 2) {
                branches.push(t("R9"));
            }
            let f = cat(vec![t(&format!("#{} ", ty.param_src())), Node::Block(branches)]);
            let w = t(&format!("#{} {{ $ }}", ty.param_src()));
            let vals = g.values(&ty, 3);
            let args = pick_args(g.r, vals, 10);
            let aliases = g.aliases_for(&[&ty]);
            let wide = g.r.chance(1, 2);
            vec![Prog {
                family: "carveout",
                features: g.feats.clone(),
                aliases,
                guards: vec![],
                defs: vec![("f".into(), f), ("w".into(), w)],
                main: t(if wide { "{ARG} w f" } else { "{ARG} f" }),
                args,
                generic_fn: None,
        declared_ret: None,
            }]
        }
        _ => {
            // pin against a variable, then the complement
            g.feats.insert("carveout:pin".into());
            let leaf = if g.r.chance(1, 2) { GTy::Int } else { GTy::Bin };
            let other = tup(Some("A"), vec![(Some("a"), GTy::Int)]);
            let ty = GTy::Union(vec![leaf.clone(), other.clone()]);
            let pinv = lit(&mut g, &leaf);
            let u = g.demanding_use(t("x"), &other, 1);
            let body = match g.r.below(2) {
                0 => cat(vec![t(&format!("{{ y = {}, $ {{ | =&y => R1 | =x => R2[", pinv.src())), u, t("] } }")]),
                _ => cat(vec![t(&format!("{{ y = {}, x = $, {{ | x =&y => R1 | R2[", pinv.src())), u, t("] } }")]),
            };
            let f = cat(vec![t(&format!("#{} ", ty.param_src())), body]);
            let vals = g.values(&ty, 1);
            let args = pick_args(g.r, vals, 6);
            vec![Prog {
                family: "carveout",
                features: g.feats.clone(),
                aliases: vec![],
                guards: vec![],
                defs: vec![("f".into(), f)],
                main: t("{ARG} f"),
                args,
                generic_fn: None,
        declared_ret: None,
            }]
        }
    }
}

/// H2: typed message passing under the simulator — typed receives with a handler block that
/// dispatches on the message, self-sends, selects over several sources (an awaited process next to
/// one that never finishes, a time-out), process handles passed to a function with a process-typed
/// parameter. Scenarios are confluent: at most one source can ever be ready. A wrongly typed
/// message is never *received* (the runtime re-checks message types), so a missing Send check shows
/// as a hang, not as a stuck state; what the oracle sees here is the typing of received messages,
/// awaited results and select results.
pub fn fam_process(r: &mut Rng) -> Vec<Prog> {
    let mut g = G::new(r);
    let mty = match g.r.below(3) {
        0 => g.leaf_ty(),
        1 => g.tuple_ty(0),
        _ => g.union_ty(0),
    };
    // what is sent: a value of the message type, or of a near miss (must be rejected at Send)
    let sty = if g.r.chance(2, 3) { mty.clone() } else { near_miss(&mty, &mut g) };
    g.feats.insert(if sty == mty { "process:exact-message".into() } else { "process:near-miss-message".into() });
    let handler = match &mty {
        GTy::Union(_) => g.dispatch_block(&mty, 1),
        _ => {
            let u = g.demanding_use(t("~"), &mty, 1);
            cat(vec![t("{ W["), u, t("] }")])
        }
    };
    let vals = g.values(&sty, 1);
    let args = pick_args(g.r, vals, 3);
    let shape = g.r.below(6);
    let (defs, main): (Vec<(String, Node)>, Node) = match shape {
        0 => {
            g.feats.insert("process:typed-receive-handler".into());
            (vec![("srv".into(), cat(vec![t(&format!("#[] {{ !#{} ", mty.param_src())), handler, t(" }")]))], t("p = @srv, {ARG} p, !p"))
        }
        1 => {
            g.feats.insert("process:self-send".into());
            (vec![("srv".into(), cat(vec![t(&format!("#[] {{ {{ARG}} ., !#{} ", mty.param_src())), handler, t(" }")]))], t("p = @srv, !p"))
        }
        2 => {
            g.feats.insert("process:select-two-processes".into());
            (
                vec![
                    ("srv".into(), cat(vec![t(&format!("#[] {{ !#{} ", mty.param_src())), handler, t(" }")])),
                    ("idle".into(), t("#[] { !'bin }")),
                ],
                t("p = @srv, q = @idle, {ARG} p, ! [q, p]"),
            )
        }
        3 => {
            g.feats.insert("process:select-timeout".into());
            (
                vec![("idle".into(), t(&format!("#[] {{ !#{} }}", mty.param_src())))],
                t("q = @idle, ! [q, 3] { | =[] => T0 | =m => M[m] }"),
            )
        }
        4 => {
            g.feats.insert("process:handle-as-argument".into());
            (
                vec![
                    ("srv".into(), cat(vec![t(&format!("#[] {{ !#{} ", mty.param_src())), handler, t(" }")])),
                    ("snd".into(), t(&format!("#[@{}, {}] {{ =[tgt, v] => v tgt, Ok }}", mty.src_n(true), sty.src_n(true)))),
                ],
                t("p = @srv, [&p, {ARG}] snd, !p"),
            )
        }
        _ => {
            g.feats.insert("process:filter-receive".into());
            (
                vec![("srv".into(), cat(vec![
                    t(&format!("#[] {{ ! [#{} {{ Ok }}] ", mty.param_src())),
                    handler,
                    t(" }"),
                ]))],
                t("p = @srv, {ARG} p, !p"),
            )
        }
    };
    // the self-send shape puts {ARG} into a definition: render it there
    let mut progs = vec![];
    if shape == 1 {
        for a in &args {
            let defs2: Vec<(String, Node)> = defs
                .iter()
                .map(|(n, d)| {
                    let mut sx = String::new();
                    d.render(&Repair::default(), &mut sx);
                    (n.clone(), t(&sx.replace("{ARG}", &a.src)))
                })
                .collect();
            progs.push(Prog {
                family: "process",
                features: g.feats.clone(),
                aliases: vec![],
                guards: vec![],
                defs: defs2,
                main: main.clone(),
                args: vec![Arg { src: String::new(), aligned_src: None, note: String::new() }],
                generic_fn: None,
                declared_ret: None,
            });
        }
        return progs;
    }
    vec![Prog {
        family: "process",
        features: g.feats.clone(),
        aliases: vec![],
        guards: vec![],
        defs,
        main,
        args,
        generic_fn: None,
        declared_ret: None,
    }]
}

/// Long `,`-sequences: a step that can yield nil (a refutable match on the parameter, a call of a
/// partial function) somewhere before never-nil steps (irrefutable bindings, literals, total calls)
/// and a nil-free last chain. The sequence short-circuits to nil at run time, so its type must keep
/// `[]` however many never-nil steps follow the nil-able one. Used as a function body, as a nested
/// block, and as the condition of a last `cond => body` branch; the result is also used at its
/// nil-free type (which the compiler must reject). No bare binder is the nil-able step (F25).
pub fn fam_sequence(r: &mut Rng) -> Vec<Prog> {
    let mut g = G::new(r);
    let payload = if g.r.chance(2, 3) { GTy::Int } else { GTy::Bin };
    let other = match g.r.below(3) {
        0 => tag("B"),
        1 => tup(Some("B"), vec![(None, GTy::Bin)]),
        _ => if payload == GTy::Int { GTy::Bin } else { GTy::Int },
    };
    let ty = GTy::Union(vec![tup(Some("A"), vec![(None, payload.clone())]), other.clone()]);
    // the nil-able step binds `a : payload`
    let nilable: Node = match g.r.below(4) {
        0 => {
            g.feats.insert("sequence:refutable-match".into());
            t("=A[a]")
        }
        1 => {
            g.feats.insert("sequence:refutable-typed-bind".into());
            t(&format!("=(A[{}])w, a = w.0", payload.src()))
        }
        2 => {
            g.feats.insert("sequence:partial-call".into());
            t(&format!("$ pick =({})a", payload.src()))
        }
        _ => {
            g.feats.insert("sequence:refutable-match-on-variable".into());
            t("v = $, v =A[a]")
        }
    };
    let never_nil = |g: &mut G, k: usize| -> Node {
        // a binding of a tuple literal (`y = Z[1]`) after a failable step: N17, repaired by 3c07a58
        match g.r.below(4) {
            0 => t(&format!("y{k} = {}", 1 + k)),
            1 => t(&format!("{}", 7 + k)),
            2 => t(&format!("y{k} = Z[{}]", 1 + k)),
            _ => t(&format!("y{k} = {} inc", k)),
        }
    };
    let n_before = g.r.usize(2);
    let n_after = 1 + g.r.usize(3);
    let mut steps: Vec<Node> = vec![];
    for k in 0..n_before {
        steps.push(never_nil(&mut g, 10 + k));
    }
    steps.push(nilable);
    for k in 0..n_after {
        steps.push(never_nil(&mut g, k));
    }
    let last_is_int = payload == GTy::Int;
    let last: Node = match g.r.below(3) {
        0 if last_is_int => t("[a, 1] __integer_add__"),
        0 => t("a __binary_length__"),
        1 => t("R[a]"),
        _ => t("5"),
    };
    steps.push(last);
    let seq = Node::Steps(steps);
    let form = g.r.below(4);
    let body: Node = match form {
        0 => {
            g.feats.insert("sequence:function-body".into());
            cat(vec![t("{ "), seq, t(" }")])
        }
        1 => {
            g.feats.insert("sequence:last-branch-condition".into());
            cat(vec![t("{ "), seq, t(" => K }")])
        }
        2 => {
            g.feats.insert("sequence:nested-block".into());
            cat(vec![t("{ $ { "), seq, t(" } }")])
        }
        _ => {
            g.feats.insert("sequence:second-branch-condition".into());
            cat(vec![t("{ | =Q => Q0 | "), seq, t(" => K }")])
        }
    };
    let defs = vec![
        ("inc".to_string(), t("#'int { [$, 1] __integer_add__ }")),
        ("pick".to_string(), t(&format!("#{} {{ =A[p] => p }}", ty.param_src()))),
        ("f".to_string(), cat(vec![t(&format!("#{} ", ty.param_src())), body])),
        ("w".to_string(), t(&format!("#{} {{ $ }}", ty.param_src()))),
    ];
    let vals = g.values(&ty, 1);
    let args = pick_args(g.r, vals, 5);
    // how the result is used: plainly (inhabitation), or at its nil-free type (must be rejected)
    let main = match g.r.below(4) {
        0 => "{ARG} f",
        1 => "{ARG} w f",
        2 => "[{ARG} w f, 1] __integer_add__",
        _ => "{ARG} w f { =[] => N | =x => S[x] }",
    };
    vec![Prog {
        family: "sequence",
        features: g.feats.clone(),
        aliases: vec![],
        guards: vec![],
        defs,
        main: t(main),
        args,
        generic_fn: None,
        declared_ret: None,
    }]
}

/// By-name field access on a union of labelled tuples that share a field NAME: at the same or at
/// different positions, with the same or with different field types, accessed without narrowing
/// (`$.x`, `~.x`, `.x`, `v.x` on a maker's result). A single `Get(index)` is emitted, so the access
/// is only sound when every variant keeps the field at one index.
pub fn fam_permuted(r: &mut Rng) -> Vec<Prog> {
    let mut g = G::new(r);
    let fx = if g.r.chance(2, 3) { GTy::Int } else { GTy::Bin };
    let fy = if fx == GTy::Int { GTy::Bin } else { GTy::Int };
    let fx2 = if g.r.chance(3, 4) { fx.clone() } else { fy.clone() };
    let nv = 2 + g.r.usize(2);
    let names = ["A", "B", "C"];
    let mut variants = vec![];
    for k in 0..nv {
        // fields: x plus one or two others, in a random order
        let xt = if k == 0 { fx.clone() } else { fx2.clone() };
        let mut fs: Vec<(Option<String>, GTy)> = vec![(Some("x".into()), xt), (Some("y".into()), fy.clone())];
        if g.r.chance(1, 3) {
            fs.push((Some(format!("z{k}")), GTy::Int));
        }
        match g.r.below(3) {
            0 => {}
            1 => fs.reverse(),
            _ => g.r.shuffle(&mut fs),
        }
        let name = if g.r.chance(4, 5) { Some(names[k].to_string()) } else { None };
        variants.push(GTy::Tup(name, fs));
    }
    variants.dedup();
    if variants.len() < 2 {
        return vec![];
    }
    let ty = GTy::Union(variants.clone());
    let positions: Vec<usize> = variants
        .iter()
        .map(|v| match v {
            GTy::Tup(_, fs) => fs.iter().position(|(l, _)| l.as_deref() == Some("x")).unwrap_or(0),
            _ => 0,
        })
        .collect();
    g.feats.insert(if positions.iter().all(|p| *p == positions[0]) { "permuted:same-position".into() } else { "permuted:different-positions".into() });
    g.feats.insert(if fx2 == fx { "permuted:same-field-type".into() } else { "permuted:different-field-types".into() });
    let use_of = |g: &mut G, e: &str| -> Node {
        match g.r.below(3) {
            0 => t(&format!("W[{e}]")),
            _ if fx2 == fx && fx == GTy::Int => t(&format!("[{e}, 1] __integer_add__")),
            _ if fx2 == fx => t(&format!("{e} __binary_length__")),
            _ => t(&format!("W[{e}]")),
        }
    };
    // one maker branch per variant
    let mut mk = vec![];
    let mut lits = vec![];
    for v in &variants {
        lits.push(lit(&mut g, v));
    }
    for (i, l) in lits.iter().enumerate() {
        if i + 1 == lits.len() { mk.push(t(&l.src())); } else { mk.push(t(&format!("={i} => {}", l.src()))); }
    }
    let mkf = cat(vec![t("#'int "), Node::Block(mk)]);
    let (defs, main, args): (Vec<(String, Node)>, Node, Vec<Arg>) = match g.r.below(4) {
        0 => {
            g.feats.insert("permuted:param-access".into());
            let u = use_of(&mut g, "$.x");
            (
                vec![("mk".into(), mkf), ("f".into(), cat(vec![t(&format!("#{} {{ ", ty.param_src())), u, t(" }")]))],
                t("{ARG} mk f"),
                (0..variants.len()).map(|i| Arg { src: i.to_string(), aligned_src: None, note: String::new() }).collect(),
            )
        }
        1 => {
            g.feats.insert("permuted:variable-access".into());
            let u = use_of(&mut g, "v.x");
            (
                vec![("mk".into(), mkf)],
                cat(vec![t("v = {ARG} mk, "), u]),
                (0..variants.len()).map(|i| Arg { src: i.to_string(), aligned_src: None, note: String::new() }).collect(),
            )
        }
        2 => {
            g.feats.insert("permuted:chain-access".into());
            let u = use_of(&mut g, "q");
            (
                vec![("mk".into(), mkf)],
                cat(vec![t("{ARG} mk .x =q, "), u]),
                (0..variants.len()).map(|i| Arg { src: i.to_string(), aligned_src: None, note: String::new() }).collect(),
            )
        }
        _ => {
            g.feats.insert("permuted:after-partial-narrowing".into());
            // narrowed by a partial TYPE check first, then accessed
            let u = use_of(&mut g, "v.x");
            (
                vec![("mk".into(), mkf)],
                cat(vec![t(&format!("v = {{ARG}} mk, v =(x: {}), ", fx.src())), u]),
                (0..variants.len()).map(|i| Arg { src: i.to_string(), aligned_src: None, note: String::new() }).collect(),
            )
        }
    };
    vec![Prog {
        family: "permuted",
        features: g.feats.clone(),
        aliases: vec![],
        guards: vec![],
        defs,
        main,
        args,
        generic_fn: None,
        declared_ret: None,
    }]
}

/// Closures that use an outer variable BOTH whole and through a field path (`p` next to `p.x`),
/// also inside a nested closure or a branch: the capture list of the function value must hold one
/// slot per captured thing the body loads (seeded change C07-4: a path skipped when pushed but
/// still counted makes `Function(i)` pop one value too many → StackUnderflow in an accepted program).
pub fn fam_capture(r: &mut Rng) -> Vec<Prog> {
    let mut g = G::new(r);
    let k = g.r.below(9);
    let j = g.r.below(9);
    let outer = match g.r.below(3) {
        0 => format!("p = P[x: {k}, y: 0x0{j}]"),
        1 => format!("p = [x: {k}, y: [z: {j}]]"),
        _ => format!("p = P[x: {k}, y: Q[x: {j}]]"),
    };
    let nested_int = outer.contains("z:") || outer.contains("Q[");
    let inner_path = if outer.contains("z:") { "p.y.z" } else { "p.y.x" };
    let body = match g.r.below(7) {
        0 => "[~, p.x] __integer_add__ =s => [s, p]".to_string(),
        1 => "[p, [~, p.x] __integer_add__]".to_string(),
        2 => "[p.x, p, p.x]".to_string(),
        3 => "| =0 => [p.x, p] | [p, [$, p.x] __integer_multiply__]".to_string(),
        4 => "g = #'int { [~, p.x] __integer_add__ =s => [s, p] }, $ g".to_string(),
        5 if nested_int => format!("[[~, {inner_path}] __integer_add__, p.y, p]"),
        _ => "q = p, [[~, p.x] __integer_add__, q.x, p.x]".to_string(),
    };
    g.feats.insert("capture:whole-and-path".into());
    if body.contains("g = #") {
        g.feats.insert("capture:nested-closure".into());
    }
    let f = t(&format!("#'int {{ {body} }}"));
    vec![Prog {
        family: "capture",
        features: g.feats.clone(),
        aliases: vec![],
        guards: vec![],
        defs: vec![("p".into(), t(outer.split_once(" = ").map(|x| x.1).unwrap_or("P[x: 1, y: 0x01]"))), ("f".into(), f)],
        main: t("{ARG} f"),
        args: (0..2).map(|i| Arg { src: i.to_string(), aligned_src: None, note: String::new() }).collect(),
        generic_fn: None,
        declared_ret: None,
    }]
}

/// A parameter typed `ConcreteTuple | PartialType`, tuple patterns for the concrete variant, and
/// arguments that enter through the PARTIAL member (seeded change C01-5: the tuple pattern lost its
/// run-time type test for exactly this kind of union and read fields from whatever arrived).
/// Every block ends in a catch-all branch (without it HEAD itself loses the nil: finding N18).
pub fn fam_concrete_or_partial(r: &mut Rng) -> Vec<Prog> {
    let mut g = G::new(r);
    let two = g.r.chance(1, 3);
    let concrete = if two { "A['int, 'bin]" } else { "A['int]" };
    let (partial, pargs): (&str, Vec<&str>) = match g.r.below(4) {
        0 => ("(y: 'bin)", vec!["[y: 0xff]", "B[y: 0x01]", "[x: 3, y: 0x02]"]),
        1 => ("()", vec!["[]", "B[1, 2]", "[y: 0xff]", "B"]),
        2 => ("P(x: 'int)", vec!["P[x: 4]", "P[x: 5, z: 0x01]"]),
        _ => ("(x: 'int)", vec!["[x: 7]", "B[x: 1]", "[w: 0x01, x: 2]"]),
    };
    let pat = if two { "A[n, _]" } else { "A[n]" };
    let use_n = match g.r.below(3) {
        0 => "[n, 1] __integer_add__",
        1 => "W[n]",
        _ => "n",
    };
    let body = match g.r.below(4) {
        0 => format!("| ={pat} => {use_n} | 0"),
        1 => format!("| ={pat} => {use_n} | =v => 0"),
        2 => format!("| =v, v ={pat} => {use_n} | 0"),
        _ => format!("| $ ={pat} => {use_n} | 7"),
    };
    let order = g.r.chance(1, 2);
    let pty = if order { format!("({concrete} | {partial})") } else { format!("({partial} | {concrete})") };
    g.feats.insert("partial-member:tuple-pattern-on-concrete-variant".into());
    let mut args: Vec<Arg> = pargs.iter().map(|a| Arg { src: a.to_string(), aligned_src: None, note: "enters through the partial member".into() }).collect();
    args.push(Arg { src: if two { "A[4, 0x01]".into() } else { "A[4]".into() }, aligned_src: None, note: "the concrete variant".into() });
    vec![Prog {
        family: "partial-member",
        features: g.feats.clone(),
        aliases: vec![],
        guards: vec![],
        defs: vec![("f".into(), t(&format!("#{pty} {{ {body} }}")))],
        main: t("{ARG} f"),
        args,
        generic_fn: None,
        declared_ret: None,
    }]
}

/// Shadowing after narrowing: a variable is narrowed (branch pattern, or a top-level `v =P`), then
/// REBOUND under the same name inside a nested block to a call result of another type, and the inner
/// one is matched / read (seeded change C01-6: narrowings are keyed by name; the outer variable's
/// narrowing was applied to the inner variable, the run-time check elided).
pub fn fam_shadow_narrowed(r: &mut Rng) -> Vec<Prog> {
    let mut g = G::new(r);
    let name = ["v", "x", "p"][g.r.usize(3)];
    // the inner value comes from the SAME maker (a union that contains the outer narrowing) or from
    // another function
    let same = g.r.chance(3, 4);
    let j = g.r.below(2);
    let (inner_call, inner_use): (String, String) = if same {
        let u = match g.r.below(4) {
            0 => format!("{name} {{ | =A[x: m] => [m, 1] __integer_add__ | =B[x: b] => 7 }}"),
            1 => format!("{{ | {name}.x ='int => [{name}.x, 1] __integer_add__ | 7 }}"),
            2 => format!("{name} {{ | =A[x: m] => [m, 1] __integer_add__ | 7 }}"),
            _ => format!("{name} {{ | =B[x: b] => b __binary_length__ | =A[x: m] => m }}"),
        };
        (format!("{j} mk"), u)
    } else {
        match g.r.below(2) {
            0 => (format!("{j} g"), format!("{name} {{ | ='int => 7 | 0 }}")),
            _ => (format!("{j} g"), format!("[{name}, 1] __integer_add__")),
        }
    };
    let narrow_pat = ["A[x: _]", "A[x: q]", "A[x: 'int]"][g.r.usize(3)];
    let main = match g.r.below(3) {
        0 => {
            g.feats.insert("shadow:narrowed-by-branch".into());
            format!("{name} = {{ARG}} mk, {name} {{ | ={narrow_pat} => {{ {name} = {inner_call}, {inner_use} }} | 0 }}")
        }
        1 => {
            g.feats.insert("shadow:narrowed-at-top-level".into());
            format!("{name} = {{ARG}} mk, {name} ={narrow_pat}, {{ {name} = {inner_call}, {inner_use} }}")
        }
        _ => {
            g.feats.insert("shadow:narrowed-in-function".into());
            format!("h = #(A[x: 'int] | B[x: 'bin]) {{ {name} = $, {name} {{ | ={narrow_pat} => {{ {name} = {inner_call}, {inner_use} }} | 0 }} }}, {{ARG}} mk h")
        }
    };
    g.feats.insert(if same { "shadow:rebound-to-same-union".into() } else { "shadow:rebound-to-other-type".into() });
    vec![Prog {
        family: "shadow",
        features: g.feats.clone(),
        aliases: vec![],
        guards: vec![],
        defs: vec![
            ("mk".into(), t("#'int { | =0 => A[x: 1] | B[x: 0xff] }")),
            ("g".into(), t("#'int { [$, 1] __integer_add__ }")),
        ],
        main: t(&main),
        args: (0..2).map(|i| Arg { src: i.to_string(), aligned_src: None, note: String::new() }).collect(),
        generic_fn: None,
        declared_ret: None,
    }]
}

/// set by `main` from `caller_variables_opaque`: an unrepaired compiler overflows its stack on
/// crosswise shared-name generic calls, which no handler can catch
pub static SHARED_NAMES_OK: std::sync::atomic::AtomicBool = std::sync::atomic::AtomicBool::new(false);

/// A generic function calling another generic function whose type parameters have the SAME names,
/// with its own fields passed in a permuted order, and parameters that are unions mentioning the
/// variables (`'b | 'bin`): the callee's variables must not be confused with the caller's (repair
/// 10; seeded change C18-6 is an early-exit variant of the old self-binding check).
pub fn fam_generic_shared(r: &mut Rng) -> Vec<Prog> {
    if !SHARED_NAMES_OK.load(std::sync::atomic::Ordering::Relaxed) {
        return vec![];
    }
    let mut g = G::new(r);
    let field = |g: &mut G| -> &'static str {
        ["'a", "'b", "'b | 'bin", "'a | 'int", "'a | 'b", "['a, 'b]", "'int", "A['b]"][g.r.usize(8)]
    };
    let n = 2 + g.r.usize(2);
    let mut p0: Vec<&str> = (0..n).map(|_| field(&mut g)).collect();
    // gate (finding N19): a callee parameter WITHOUT type variables is checked by is_compatible,
    // which takes a type variable of the caller for assignable to anything
    if !p0.iter().any(|f| f.contains("'a") || f.contains("'b")) {
        p0[0] = "'a";
    }
    let p1: Vec<&str> = (0..n).map(|_| field(&mut g)).collect();
    let mut perm: Vec<usize> = (0..n).collect();
    g.r.shuffle(&mut perm);
    let k0 = g.r.usize(n);
    let body1 = match g.r.below(4) {
        0 => format!("[{}] f0", perm.iter().map(|i| format!("${i}")).collect::<Vec<_>>().join(", ")),
        1 => format!("[{}] f0 =r, [r, $0]", perm.iter().map(|i| format!("${i}")).collect::<Vec<_>>().join(", ")),
        2 => "$ f0".to_string(),
        _ => format!("[{}] f0", (0..n).map(|i| if i == 0 { "1".to_string() } else { format!("${}", perm[i]) }).collect::<Vec<_>>().join(", ")),
    };
    let same = g.r.chance(4, 5);
    let (v0, p0s): (&str, String) = if same {
        ("<'a, 'b>", p0.join(", "))
    } else {
        ("<'c, 'd>", p0.join(", ").replace("'a", "'c").replace("'b", "'d"))
    };
    g.feats.insert(if same { "generic-shared:same-names".into() } else { "generic-shared:distinct-names".into() });
    let lits = ["0xff", "1", "A[2]", "[3, 0x01]", "0x", "7"];
    let args: Vec<Arg> = (0..3)
        .map(|_| {
            let a: Vec<&str> = (0..n).map(|_| lits[g.r.usize(lits.len())]).collect();
            Arg { src: format!("[{}]", a.join(", ")), aligned_src: None, note: String::new() }
        })
        .collect();
    vec![Prog {
        family: "generic-shared",
        features: g.feats.clone(),
        aliases: vec![],
        guards: vec![],
        defs: vec![
            ("f0".into(), t(&format!("#{v0}[{p0s}] {{ ${k0} }}"))),
            ("f1".into(), t(&format!("#<'a, 'b>[{}] {{ {body1} }}", p1.join(", ")))),
        ],
        main: t("{ARG} f1"),
        args,
        generic_fn: None,
        declared_ret: None,
    }]
}

pub fn generate(r: &mut Rng) -> Vec<Prog> {
    match r.below(58) {
        0..=7 => fam_dispatch(r),
        8..=11 => fam_variable(r),
        12..=15 => fam_generic(r),
        16..=17 => fam_tail(r),
        18..=19 => fam_partial(r),
        20..=22 => fam_return(r),
        23..=25 => fam_hof(r),
        26..=27 => fam_repeat(r),
        28..=29 => fam_spawn(r),
        30..=33 => fam_carveout(r),
        34..=37 => fam_process(r),
        38..=41 => fam_sequence(r),
        42..=45 => fam_permuted(r),
        46..=47 => fam_capture(r),
        48..=50 => fam_concrete_or_partial(r),
        51..=53 => fam_shadow_narrowed(r),
        _ => fam_generic_shared(r),
    }
}
