//! (a''') Tie of `QM.Soundness.infer` (the fragment of the inference proved sound by
//! `infer_sound_fragment`, Theorems/C01Infer.lean) to the real compiler: straight-line first-order
//! programs — literals, tuple constructions, variable bindings and reads, `.label` / `.index`
//! accessors, `~`, `,`-sequences, the pure builtins of the reference evaluator — are generated
//! together with their exchange-syntax form (Core/RefSem/Parse.lean). For each one the compiler's
//! inferred result type is compared ID-EXACTLY with `infer`'s on the compiled program's own table
//! (a compiler type that is merely wider — `is_compatible(model type, compiler type)` by the C09
//! model — is counted, not reported), and the value of the real run with the reference evaluator's value on the elaborated program.
//!
//! Union types cannot arise in a closed straight-line program, so half of the programs start with
//! a PREFIX outside the fragment (`mk = #'int { | =0 => [] | $ }, x = K mk, …`) whose variables
//! enter `infer`'s context with the types the compiler gave them.
use crate::oracle::*;
use crate::{Cx, front};
use qverif::{Ev, Rng};
use serde_json::json;

#[derive(Clone, Debug, PartialEq)]
enum FTy {
    Int,
    Bin,
    Ok,
    Tup(Option<String>, Vec<(Option<String>, FTy)>),
    /// `'int | []` (prefix variable)
    IntOrNil,
    /// `A[a: 'int, b: 'bin] | B[a: 'int, c: 'int]` (prefix variable): `.a` at position 0 in both
    UnionAB,
    /// `A[a: 'int, b: 'bin] | C[b: 'bin, a: 'int]` (prefix variable): `.a` at different positions
    UnionPerm,
    /// the result of a block (a union the generator does not track): only read whole
    Opaque,
}

#[derive(Clone, Debug)]
enum Pat {
    Bind(String),
    Wild,
    Int(i64),
    Bin(Vec<u8>),
    Tup(Option<String>, Vec<(Option<String>, Pat)>),
    TyInt,
    TyBin,
}

impl Pat {
    fn src(&self) -> String {
        match self {
            Pat::Bind(x) => x.clone(),
            Pat::Wild => "_".into(),
            Pat::Int(z) => z.to_string(),
            Pat::Bin(b) => format!("0x{}", qverif::hex(b)),
            Pat::Tup(n, fs) => {
                let inner: Vec<String> =
                    fs.iter().map(|(l, p)| match l { Some(l) => format!("{l}: {}", p.src()), None => p.src() }).collect();
                format!("{}[{}]", n.clone().unwrap_or_default(), inner.join(", "))
            }
            Pat::TyInt => "'int".into(),
            Pat::TyBin => "'bin".into(),
        }
    }
    fn sx(&self) -> String {
        match self {
            Pat::Bind(x) => format!("(pb {x})"),
            Pat::Wild => "(pw)".into(),
            Pat::Int(z) => format!("(pi {z})"),
            Pat::Bin(b) => if b.is_empty() { "(pbin)".into() } else { format!("(pbin {})", qverif::hex(b)) },
            Pat::Tup(n, fs) => {
                let inner: String =
                    fs.iter().map(|(l, p)| format!(" ({} {})", l.clone().unwrap_or("_".into()), p.sx())).collect();
                format!("(pt {}{})", n.clone().unwrap_or("_".into()), inner)
            }
            Pat::TyInt => "(pty int)".into(),
            Pat::TyBin => "(pty bin)".into(),
        }
    }
}

#[derive(Clone, Debug)]
enum Acc {
    L(String),
    N(usize),
}

#[derive(Clone, Debug)]
enum Term {
    Int(i64),
    Bin(Vec<u8>),
    Tup(Option<String>, Vec<(Option<String>, Chain)>),
    Var(String, Vec<Acc>),
    Ripple(Vec<Acc>),
    Builtin(&'static str),
    Bind(String),
    /// `=P` (a pattern that may fail: only as the last term of a condition chain)
    Match(Pat),
    /// `{ | cond => cons | cond }`
    Block(Vec<(Vec<Chain>, Option<Vec<Chain>>)>),
}

#[derive(Clone, Debug)]
struct Chain {
    bind: Option<String>,
    terms: Vec<Term>,
}

fn acc_src(a: &[Acc]) -> String {
    a.iter().map(|x| match x { Acc::L(l) => format!(".{l}"), Acc::N(i) => format!(".{i}") }).collect()
}
fn acc_sx(a: &[Acc]) -> String {
    a.iter().map(|x| match x { Acc::L(l) => format!(" (l {l})"), Acc::N(i) => format!(" (n {i})") }).collect()
}

impl Term {
    fn src(&self) -> String {
        match self {
            Term::Int(z) => z.to_string(),
            Term::Bin(b) => format!("0x{}", qverif::hex(b)),
            Term::Tup(n, fs) => {
                let inner: Vec<String> = fs
                    .iter()
                    .map(|(l, c)| match l { Some(l) => format!("{l}: {}", c.src()), None => c.src() })
                    .collect();
                format!("{}[{}]", n.clone().unwrap_or_default(), inner.join(", "))
            }
            Term::Var(x, a) => format!("{x}{}", acc_src(a)),
            Term::Ripple(a) => format!("~{}", acc_src(a)),
            Term::Builtin(b) => format!("__{b}__"),
            Term::Bind(x) => format!("={x}"),
            Term::Match(p) => format!("={}", p.src()),
            Term::Block(brs) => {
                let mut s = String::from("{");
                for (cond, cons) in brs {
                    let c: Vec<String> = cond.iter().map(|c| c.src()).collect();
                    s.push_str(&format!(" | {}", c.join(", ")));
                    if let Some(k) = cons {
                        let k: Vec<String> = k.iter().map(|c| c.src()).collect();
                        s.push_str(&format!(" => {}", k.join(", ")));
                    }
                }
                s.push_str(" }");
                s
            }
        }
    }
    fn sx(&self) -> String {
        match self {
            Term::Int(z) => format!("(i {z})"),
            Term::Bin(b) => if b.is_empty() { "(b)".into() } else { format!("(b {})", qverif::hex(b)) },
            Term::Tup(n, fs) => {
                let inner: String = fs
                    .iter()
                    .map(|(l, c)| format!(" (f {} {})", l.clone().unwrap_or("_".into()), c.sx()))
                    .collect();
                format!("(t {}{})", n.clone().unwrap_or("_".into()), inner)
            }
            Term::Var(x, a) => format!("(v {x}{})", acc_sx(a)),
            Term::Ripple(a) => format!("(~{})", acc_sx(a)),
            Term::Builtin(b) => format!("(bi {b})"),
            Term::Bind(x) => format!("(m (pb {x}))"),
            Term::Match(p) => format!("(m {})", p.sx()),
            Term::Block(brs) => {
                let mut s = String::from("(blk");
                for (cond, cons) in brs {
                    let c: Vec<String> = cond.iter().map(|c| c.sx()).collect();
                    s.push_str(&format!(" (br (s {})", c.join(" ")));
                    if let Some(k) = cons {
                        let k: Vec<String> = k.iter().map(|c| c.sx()).collect();
                        s.push_str(&format!(" (s {})", k.join(" ")));
                    }
                    s.push(')');
                }
                s.push(')');
                s
            }
        }
    }
}

impl Chain {
    fn src(&self) -> String {
        let t: Vec<String> = self.terms.iter().map(|t| t.src()).collect();
        match &self.bind {
            Some(x) => format!("{x} = {}", t.join(" ")),
            None => t.join(" "),
        }
    }
    fn sx(&self) -> String {
        let t: Vec<String> = self.terms.iter().map(|t| t.sx()).collect();
        match &self.bind {
            Some(x) => format!("(cp (pb {x}) {})", t.join(" ")),
            None => format!("(c {})", t.join(" ")),
        }
    }
}

struct FG<'a> {
    r: &'a mut Rng,
    vars: Vec<(String, FTy)>,
    fresh: usize,
    feats: Vec<&'static str>,
}

const LABELS: [&str; 4] = ["a", "b", "c", "d"];
const TNAMES: [&str; 3] = ["P", "Q", "R"];

impl FG<'_> {
    fn feat(&mut self, f: &'static str) {
        if !self.feats.contains(&f) {
            self.feats.push(f);
        }
    }
    fn var_name(&mut self) -> String {
        self.fresh += 1;
        format!("v{}", self.fresh)
    }
    /// the accessors that read something of type `want` out of a value of type `t` (depth ≤ 2)
    fn paths(t: &FTy, want: Option<&FTy>, depth: usize, by_label: bool) -> Vec<(Vec<Acc>, FTy)> {
        let mut out = vec![];
        if want.is_none_or(|w| w == t) {
            out.push((vec![], t.clone()));
        }
        if depth == 0 {
            return out;
        }
        let fields: Vec<(Option<String>, FTy, bool)> = match t {
            FTy::Tup(_, fs) => fs.iter().map(|(l, t)| (l.clone(), t.clone(), true)).collect(),
            // by-name only (the positional access of a union is outside the fragment)
            FTy::UnionAB => vec![(Some("a".into()), FTy::Int, false)],
            FTy::UnionPerm => vec![(Some("a".into()), FTy::Int, false), (Some("b".into()), FTy::Bin, false)],
            _ => vec![],
        };
        for (i, (l, ft, positional)) in fields.iter().enumerate() {
            for (rest, rt) in Self::paths(ft, want, depth - 1, by_label) {
                if let Some(l) = l
                    && (by_label || !positional)
                {
                    let mut p = vec![Acc::L(l.clone())];
                    p.extend(rest.clone());
                    out.push((p, rt.clone()));
                }
                if *positional && !by_label {
                    let mut p = vec![Acc::N(i)];
                    p.extend(rest);
                    out.push((p, rt));
                }
            }
        }
        out
    }
    /// the variants of a scrutinee type the generator can dispatch on
    fn variants(t: &FTy) -> Vec<FTy> {
        let a = FTy::Tup(Some("A".into()), vec![(Some("a".into()), FTy::Int), (Some("b".into()), FTy::Bin)]);
        match t {
            FTy::IntOrNil => vec![FTy::Int, FTy::Tup(None, vec![])],
            FTy::UnionAB => vec![a, FTy::Tup(Some("B".into()), vec![(Some("a".into()), FTy::Int), (Some("c".into()), FTy::Int)])],
            FTy::UnionPerm => vec![a, FTy::Tup(Some("C".into()), vec![(Some("b".into()), FTy::Bin), (Some("a".into()), FTy::Int)])],
            FTy::Opaque | FTy::Ok => vec![],
            t => vec![t.clone()],
        }
    }
    /// a pattern for a value of type `t` (depth-limited); new binders go to `binds`
    fn pat(&mut self, t: &FTy, depth: usize, binds: &mut Vec<(String, FTy)>) -> Pat {
        match self.r.below(10) {
            0 => Pat::Wild,
            1..=2 => {
                let x = self.var_name();
                binds.push((x.clone(), t.clone()));
                Pat::Bind(x)
            }
            _ => match t {
                FTy::Int => match self.r.below(3) {
                    0 => { self.feat("pat:literal"); Pat::Int(self.r.below(3) as i64) }
                    _ => { self.feat("pat:type-test"); Pat::TyInt }
                },
                FTy::Bin => match self.r.below(3) {
                    0 => { self.feat("pat:literal"); Pat::Bin(vec![1]) }
                    _ => { self.feat("pat:type-test"); Pat::TyBin }
                },
                FTy::Tup(n, fs) => {
                    self.feat("pat:tuple");
                    let mut out = vec![];
                    for (l, ft) in fs {
                        let sub = if depth == 0 || self.r.chance(1, 2) {
                            if self.r.chance(1, 2) { Pat::Wild } else {
                                let x = self.var_name();
                                binds.push((x.clone(), ft.clone()));
                                Pat::Bind(x)
                            }
                        } else {
                            self.feat("pat:nested");
                            self.pat(ft, depth - 1, binds)
                        };
                        out.push((l.clone(), sub));
                    }
                    Pat::Tup(n.clone(), out)
                }
                _ => Pat::Wild,
            },
        }
    }
    /// `{ | =P => cons | … }` dispatching on a value of type `scrut`
    fn block(&mut self, scrut: &FTy, depth: usize) -> Term {
        self.feat("term:block");
        let vs = Self::variants(scrut);
        let nbr = 1 + self.r.usize(3);
        let mut brs = vec![];
        let saved = self.vars.clone();
        for k in 0..nbr {
            let last = k + 1 == nbr;
            let mut binds = vec![];
            // gate (finding F25): no bare binder / wildcard branch on a nil-able scrutinee
            let nilable = matches!(scrut, FTy::IntOrNil);
            let p = if vs.is_empty() || (last && !nilable && self.r.chance(1, 3)) {
                if self.r.chance(1, 2) && !nilable { let x = self.var_name(); binds.push((x.clone(), scrut.clone())); Pat::Bind(x) } else if !nilable { Pat::Wild } else { Pat::TyInt }
            } else {
                let v = vs[self.r.usize(vs.len())].clone();
                let mut p = self.pat(&v, 1, &mut binds);
                if nilable && matches!(p, Pat::Wild | Pat::Bind(_)) {
                    binds.clear();
                    p = if v == FTy::Int { Pat::TyInt } else { Pat::Tup(None, vec![]) };
                }
                p
            };
            self.vars = saved.clone();
            self.vars.extend(binds.clone());
            let cond = vec![Chain { bind: None, terms: vec![Term::Match(p)] }];
            let cons = if self.r.chance(4, 5) {
                self.feat("branch:consequence");
                // the consequence starts from the block parameter again (not read: its narrowed
                // type is the model's business, the generator only uses the binders)
                let want = if self.r.chance(2, 3) { Some(FTy::Int) } else { None };
                let (c, _) = self.chain(want.as_ref(), &FTy::Opaque, depth);
                Some(vec![c])
            } else {
                None
            };
            brs.push((cond, cons));
        }
        self.vars = saved;
        Term::Block(brs)
    }
    /// a chain of type `want` (any type when `None`); `flow` = the type of the flowing value
    fn chain(&mut self, want: Option<&FTy>, flow: &FTy, depth: usize) -> (Chain, FTy) {
        let (terms, t) = self.terms(want, flow, depth);
        (Chain { bind: None, terms }, t)
    }
    fn terms(&mut self, want: Option<&FTy>, flow: &FTy, depth: usize) -> (Vec<Term>, FTy) {
        if want.is_none() && depth > 0 && self.r.chance(1, 4) {
            // a scrutinee (a variable read whole, or a fresh simple value) piped into a block
            let cands: Vec<(String, FTy)> =
                self.vars.iter().filter(|(_, t)| !matches!(t, FTy::Opaque | FTy::Ok)).cloned().collect();
            let (first, st) = if !cands.is_empty() && self.r.chance(3, 4) {
                let (x, t) = cands[self.r.usize(cands.len())].clone();
                (vec![Term::Var(x, vec![])], t)
            } else {
                self.terms(Some(&FTy::Int), flow, 0)
            };
            let b = self.block(&st, depth - 1);
            let mut t = first;
            t.push(b);
            return (t, FTy::Opaque);
        }
        for _ in 0..8 {
            let k = self.r.below(12);
            match k {
                0..=2 => {
                    // a variable (or `~`) with accessors
                    let by_label = self.r.chance(1, 2);
                    let mut cands: Vec<(Term, FTy)> = vec![];
                    for (x, t) in self.vars.clone() {
                        for (p, rt) in Self::paths(&t, want, 2, by_label) {
                            cands.push((Term::Var(x.clone(), p), rt));
                        }
                    }
                    for (p, rt) in Self::paths(flow, want, 2, by_label) {
                        cands.push((Term::Ripple(p), rt));
                    }
                    // unions and nil-able values are only read whole where any type will do
                    cands.retain(|(_, t)| want.is_some() || !matches!(t, FTy::Ok));
                    if !cands.is_empty() {
                        let (t, ty) = cands[self.r.usize(cands.len())].clone();
                        match &t {
                            Term::Var(_, p) | Term::Ripple(p) => {
                                if p.iter().any(|a| matches!(a, Acc::L(_))) { self.feat("access:label") }
                                if p.iter().any(|a| matches!(a, Acc::N(_))) { self.feat("access:index") }
                                if matches!(t, Term::Ripple(_)) { self.feat("term:ripple") }
                            }
                            _ => {}
                        }
                        return (vec![t], ty);
                    }
                }
                3..=4 if depth > 0 && want.is_none_or(|w| *w == FTy::Int) => {
                    self.feat("term:builtin");
                    let which = self.r.below(8);
                    if which == 0 {
                        let (a, _) = self.terms(Some(&FTy::Int), flow, depth - 1);
                        let mut t = a;
                        t.push(Term::Builtin("integer_abs"));
                        return (t, FTy::Int);
                    }
                    if which == 1 {
                        let (a, _) = self.terms(Some(&FTy::Bin), flow, depth - 1);
                        let mut t = a;
                        t.push(Term::Builtin("binary_length"));
                        return (t, FTy::Int);
                    }
                    let op = ["integer_add", "integer_subtract", "integer_multiply", "integer_divide", "integer_modulo", "integer_compare"]
                        [self.r.usize(6)];
                    let (a, _) = self.chain(Some(&FTy::Int), flow, depth - 1);
                    let (b, _) = self.chain(Some(&FTy::Int), flow, depth - 1);
                    return (vec![Term::Tup(None, vec![(None, a), (None, b)]), Term::Builtin(op)], FTy::Int);
                }
                5 if depth > 0 && want.is_none_or(|w| *w == FTy::Bin) => {
                    self.feat("term:builtin");
                    let (a, _) = self.chain(Some(&FTy::Bin), flow, depth - 1);
                    let (b, _) = self.chain(Some(&FTy::Bin), flow, depth - 1);
                    return (vec![Term::Tup(None, vec![(None, a), (None, b)]), Term::Builtin("binary_concat")], FTy::Bin);
                }
                6..=8 if depth > 0 && want.is_none_or(|w| matches!(w, FTy::Tup(..))) => {
                    // a tuple construction (of the wanted shape, if any)
                    self.feat("term:tuple");
                    let (name, shape): (Option<String>, Vec<(Option<String>, Option<FTy>)>) = match want {
                        Some(FTy::Tup(n, fs)) => (n.clone(), fs.iter().map(|(l, t)| (l.clone(), Some(t.clone()))).collect()),
                        _ => {
                            let n = self.r.usize(4);
                            let labelled = self.r.chance(1, 2);
                            let name = if self.r.chance(1, 2) { Some(TNAMES[self.r.usize(3)].to_string()) } else { None };
                            (name, (0..n).map(|i| (if labelled { Some(LABELS[i].to_string()) } else { None }, None)).collect())
                        }
                    };
                    let mut fs = vec![];
                    let mut tys = vec![];
                    for (l, ft) in shape {
                        let (c, t) = self.chain(ft.as_ref(), flow, depth - 1);
                        fs.push((l.clone(), c));
                        tys.push((l, t));
                    }
                    return (vec![Term::Tup(name.clone(), fs)], FTy::Tup(name, tys));
                }
                9 if want.is_none_or(|w| *w == FTy::Bin) => {
                    let n = self.r.usize(3);
                    return (vec![Term::Bin((0..n).map(|_| self.r.below(256) as u8).collect())], FTy::Bin);
                }
                _ if want.is_none_or(|w| *w == FTy::Int) => {
                    return (vec![Term::Int(self.r.below(20) as i64)], FTy::Int);
                }
                _ => {}
            }
        }
        // fallback: a literal of the wanted type
        match want {
            Some(FTy::Bin) => (vec![Term::Bin(vec![1])], FTy::Bin),
            Some(FTy::Tup(n, fs)) => {
                let mut out = vec![];
                for (l, t) in fs.clone() {
                    let (c, _) = self.chain(Some(&t), flow, 0);
                    out.push((l, c));
                }
                (vec![Term::Tup(n.clone(), out)], FTy::Tup(n.clone(), fs.clone()))
            }
            Some(FTy::Ok) => (vec![Term::Tup(Some("Ok".into()), vec![])], FTy::Ok),
            _ => (vec![Term::Int(7)], FTy::Int),
        }
    }
}

fn ev_canon(v: &EV) -> String {
    match v {
        EV::Int(i) => format!("i{i}"),
        EV::Bin(b) => format!("b{}", qverif::hex(b)),
        EV::Tup(n, fs) => {
            let inner: Vec<String> =
                fs.iter().map(|(l, v)| format!("{}={}", l.clone().unwrap_or("_".into()), ev_canon(v))).collect();
            format!("t({};{})", n.clone().unwrap_or("_".into()), inner.join(","))
        }
        _ => "?".into(),
    }
}

const PREFIX: &str = "mk = #'int { | =0 => [] | $ },\n\
mu = #'int { | =0 => A[a: 1, b: 0x01] | B[a: 2, c: 3] },\n\
mp = #'int { | =0 => A[a: 1, b: 0x01] | C[b: 0x02, a: 2] },\n";

pub fn infer_differential(ev: &mut Ev, cx: &mut Cx, seed: u64, n: u64) {
    for i in 0..n {
        let mut r = Rng::for_case(seed ^ 0x1FE4, i);
        let with_prefix = r.chance(1, 2);
        let mut g = FG { r: &mut r, vars: vec![], fresh: 0, feats: vec![] };
        // prefix variables (types the fragment cannot build itself)
        let mut prefix = String::new();
        let mut env_vars: Vec<(String, FTy)> = vec![];
        if with_prefix {
            // bound through a tuple pattern: a bare binder on the nil-able `K mk` would type its
            // verdict `Ok | []` (F25) and put nil into the type of the whole program
            prefix.push_str(PREFIX);
            let (k1, k2, k3) = (g.r.below(2), g.r.below(2), g.r.below(2));
            env_vars.push(("xn".into(), FTy::IntOrNil));
            env_vars.push(("xu".into(), FTy::UnionAB));
            if g.r.chance(1, 3) {
                prefix.push_str(&format!("[{k1} mk, {k2} mu, {k3} mp] =[xn, xu, xp],\n"));
                env_vars.push(("xp".into(), FTy::UnionPerm));
            } else {
                prefix.push_str(&format!("[{k1} mk, {k2} mu] =[xn, xu],\n"));
            }
            g.vars = env_vars.clone();
        }
        // the fragment: 1..5 chains
        let nch = 1 + g.r.usize(5);
        let mut chains: Vec<Chain> = vec![];
        let mut flow = if with_prefix { FTy::Ok } else { FTy::Tup(None, vec![]) };
        for k in 0..nch {
            let last = k + 1 == nch;
            // now and then a chain that may be nil (a nil-able prefix variable read whole)
            if with_prefix && !last && g.r.chance(1, 4) {
                g.feat("seq:nilable-chain");
                chains.push(Chain { bind: None, terms: vec![Term::Var("xn".into(), vec![])] });
                flow = FTy::Int; // the threaded value is not nil
                continue;
            }
            let (mut c, t) = g.chain(None, &flow, 2);
            // gate (finding F25): a bare binder on a nil-able (or nil) value — the compiler types
            // the verdict `Ok | []` and strips nil from the variable; `infer` follows the spec
            let nilable = matches!(t, FTy::IntOrNil) || t == FTy::Tup(None, vec![]);
            if !last && !nilable && g.r.chance(1, 2) {
                let x = g.var_name();
                if g.r.chance(1, 4) {
                    g.feat("bind:in-chain");
                    c.terms.push(Term::Bind(x.clone()));
                } else {
                    g.feat("bind:chain");
                    c.bind = Some(x.clone());
                }
                g.vars.push((x, t));
                flow = FTy::Ok;
            } else {
                flow = t;
            }
            chains.push(c);
        }
        let feats = g.feats.clone();
        let frag_src: Vec<String> = chains.iter().map(|c| c.src()).collect();
        let src = format!("{prefix}{}", frag_src.join(",\n"));
        let prog_sx = format!("(prog {})", chains.iter().map(|c| c.sx()).collect::<Vec<_>>().join(" "));
        for f in &feats {
            ev.hit(&format!("infer-feature:{f}"));
        }

        let unit = match front(&src, cx) {
            Ok(u) => u,
            Err(j) => {
                ev.case(&src, false);
                ev.hit(&format!("infer:compiler-{}", j.kind.tag()));
                // what does the model say about a program the compiler rejects?
                continue;
            }
        };
        ev.case(&src, true);
        // the context: the type the compiler gave each prefix variable (`prefix, x` registers the
        // same types in the same order, so the ids are those of the whole program's table)
        let mut env_sx = String::new();
        let mut env_ok = true;
        let show = |p: &quiver_core::program::Program, id: usize| {
            qverif::catch(|| quiver_core::format::format_type_by_id(p, id)).unwrap_or_else(|_| "?".into())
        };
        for (x, _) in &env_vars {
            match front(&format!("{prefix}{x}"), cx) {
                Ok(u) => {
                    // the id, in the whole program's table, of the type the compiler gave `x`
                    let want = show(&u.program, u.compiled_result_type);
                    let n = unit.program.get_types().len();
                    match (0..n).find(|&id| show(&unit.program, id) == want) {
                        Some(id) => env_sx.push_str(&format!(" ({x} {id})")),
                        None => env_ok = false,
                    }
                }
                Err(_) => env_ok = false,
            }
        }
        if !env_ok {
            ev.hit("infer:context-types-not-aligned");
            continue;
        }
        let mut it = Interner::default();
        let table = table_sx(unit.program.get_types(), unit.program.get_tuples(), &mut it);
        let _ = it.id("Ok");
        let t = cx.model.ask(&table);
        if !t.starts_with("ok") {
            ev.hit("infer:model-refused-table");
            continue;
        }
        let req = format!(
            "(infer (names{}) (env{}) {} {})",
            it.names_sx(),
            env_sx,
            if with_prefix { "ok" } else { "nil" },
            prog_sx
        );
        let a = cx.model.ask(&req);
        if a == "outside" {
            ev.hit("infer:outside-fragment");
            continue;
        }
        let parts: Vec<&str> = a.splitn(3, ' ').collect();
        if parts.first() != Some(&"ok") || parts.len() < 2 {
            ev.violation(
                "infer-differential request",
                &format!("the model answered `{a}` to an infer request"),
                json!({"source": src, "request": req, "answer": a}),
                true,
            );
            continue;
        }
        ev.hit("infer:both-accept");
        let model_ty: usize = parts[1].parse().unwrap_or(usize::MAX);
        if model_ty != unit.compiled_result_type {
            // the compiler's type may be WIDER than the proved one (imprecision, e.g. the verdict
            // of a bare binder on a nil-able value typed `Ok | []`): not a soundness matter. Only
            // a compiler type that does not contain the model's type is reported.
            let wider = cx.model.ask(&format!("(compat {} {})", model_ty, unit.compiled_result_type));
            if wider == "true" {
                ev.hit("infer:compiler-type-wider");
                continue;
            }
            let show = |id: usize| {
                qverif::catch(|| quiver_core::format::format_type_by_id(&unit.program, id)).unwrap_or_else(|_| "?".into())
            };
            ev.violation(
                "infer-differential type",
                &format!(
                    "fragment program: the compiler infers type {} `{}`, the model's infer {} `{}`",
                    unit.compiled_result_type,
                    show(unit.compiled_result_type),
                    model_ty,
                    show(model_ty)
                ),
                json!({"source": src, "program_sx": prog_sx, "compiler_type": unit.compiled_result_type, "model_type": model_ty, "table": table}),
                true,
            );
            continue;
        }
        ev.hit("infer:type-id-equal");
        // closed programs: the reference evaluator's value on the elaborated program = the real value
        if !with_prefix && parts.len() == 3 {
            let bc = unit.program.to_bytecode(Some(unit.entry));
            match run_bounded(bc, &cx.b, cx.slices) {
                Ran::Value(v, ex) => {
                    let (_, _, evv) = inh_requests_sync(&unit, &v, &ex);
                    let real = format!("ok {}", ev_canon(&evv));
                    if real != parts[2] {
                        ev.violation(
                            "infer-differential value",
                            &format!("fragment program: the real run yields `{real}`, the reference evaluator on the elaborated program `{}`", parts[2]),
                            json!({"source": src, "program_sx": prog_sx, "real": real, "reference": parts[2]}),
                            true,
                        );
                    } else {
                        ev.hit("infer:value-equal");
                    }
                }
                Ran::Error(e) => {
                    let class = qverif::canon::error_class(&e);
                    if parts[2] == format!("err {class}") {
                        ev.hit("infer:error-equal");
                    } else {
                        ev.violation(
                            "infer-differential value",
                            &format!("fragment program: the real run fails with {class}, the reference evaluator answers `{}`", parts[2]),
                            json!({"source": src, "program_sx": prog_sx, "real": format!("{e:?}"), "reference": parts[2]}),
                            true,
                        );
                    }
                }
                _ => ev.hit("infer:run-not-finished"),
            }
        }
    }
}
