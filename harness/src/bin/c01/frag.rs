//! (a''') Tie of `QM.Soundness.infer` (the fragment of the inference proved sound by
//! `infer_sound_fragment`, Theorems/C01Infer.lean) to the real compiler: straight-line first-order
//! programs — literals, tuple constructions, variable bindings and reads, `.label` / `.index`
//! accessors, `~`, `,`-sequences, the pure builtins of the reference evaluator — are generated
//! together with their exchange-syntax form (Core/RefSem/Parse.lean). For each one the compiler's
//! inferred result type is compared ID-EXACTLY with `infer`'s on the compiled program's own table
//! (a compiler type that is merely wider — `is_compatible(model type, compiler type)` by the C09
//! model — is counted, not reported), and the value of the real run with the reference evaluator's value on the elaborated program.
//!
//! Union types cannot arise in a closed straight-line program, so half of the programs start with
//! a PREFIX outside the fragment (`mk = #'int { | =0 => [] | $ }, x = K mk, …`) whose variables
//! enter `infer`'s context with the types the compiler gave them.
use crate::oracle::*;
use crate::{Cx, front};
use qverif::{Ev, Rng};
use serde_json::json;

#[derive(Clone, Debug, PartialEq)]
enum FTy {
    Int,
    Bin,
    Ok,
    Tup(Option<String>, Vec<(Option<String>, FTy)>),
    /// `'int | []` (prefix variable)
    IntOrNil,
    /// `A[a: 'int, b: 'bin] | B[a: 'int, c: 'int]` (prefix variable): `.a` at position 0 in both
    UnionAB,
    /// `A[a: 'int, b: 'bin] | C[b: 'bin, a: 'int]` (prefix variable): `.a` at different positions
    UnionPerm,
}

#[derive(Clone, Debug)]
enum Acc {
    L(String),
    N(usize),
}

#[derive(Clone, Debug)]
enum Term {
    Int(i64),
    Bin(Vec<u8>),
    Tup(Option<String>, Vec<(Option<String>, Chain)>),
    Var(String, Vec<Acc>),
    Ripple(Vec<Acc>),
    Builtin(&'static str),
    Bind(String),
}

#[derive(Clone, Debug)]
struct Chain {
    bind: Option<String>,
    terms: Vec<Term>,
}

fn acc_src(a: &[Acc]) -> String {
    a.iter().map(|x| match x { Acc::L(l) => format!(".{l}"), Acc::N(i) => format!(".{i}") }).collect()
}
fn acc_sx(a: &[Acc]) -> String {
    a.iter().map(|x| match x { Acc::L(l) => format!(" (l {l})"), Acc::N(i) => format!(" (n {i})") }).collect()
}

impl Term {
    fn src(&self) -> String {
        match self {
            Term::Int(z) => z.to_string(),
            Term::Bin(b) => format!("0x{}", qverif::hex(b)),
            Term::Tup(n, fs) => {
                let inner: Vec<String> = fs
                    .iter()
                    .map(|(l, c)| match l { Some(l) => format!("{l}: {}", c.src()), None => c.src() })
                    .collect();
                format!("{}[{}]", n.clone().unwrap_or_default(), inner.join(", "))
            }
            Term::Var(x, a) => format!("{x}{}", acc_src(a)),
            Term::Ripple(a) => format!("~{}", acc_src(a)),
            Term::Builtin(b) => format!("__{b}__"),
            Term::Bind(x) => format!("={x}"),
        }
    }
    fn sx(&self) -> String {
        match self {
            Term::Int(z) => format!("(i {z})"),
            Term::Bin(b) => if b.is_empty() { "(b)".into() } else { format!("(b {})", qverif::hex(b)) },
            Term::Tup(n, fs) => {
                let inner: String = fs
                    .iter()
                    .map(|(l, c)| format!(" (f {} {})", l.clone().unwrap_or("_".into()), c.sx()))
                    .collect();
                format!("(t {}{})", n.clone().unwrap_or("_".into()), inner)
            }
            Term::Var(x, a) => format!("(v {x}{})", acc_sx(a)),
            Term::Ripple(a) => format!("(~{})", acc_sx(a)),
            Term::Builtin(b) => format!("(bi {b})"),
            Term::Bind(x) => format!("(m (pb {x}))"),
        }
    }
}

impl Chain {
    fn src(&self) -> String {
        let t: Vec<String> = self.terms.iter().map(|t| t.src()).collect();
        match &self.bind {
            Some(x) => format!("{x} = {}", t.join(" ")),
            None => t.join(" "),
        }
    }
    fn sx(&self) -> String {
        let t: Vec<String> = self.terms.iter().map(|t| t.sx()).collect();
        match &self.bind {
            Some(x) => format!("(cp (pb {x}) {})", t.join(" ")),
            None => format!("(c {})", t.join(" ")),
        }
    }
}

struct FG<'a> {
    r: &'a mut Rng,
    vars: Vec<(String, FTy)>,
    fresh: usize,
    feats: Vec<&'static str>,
}

const LABELS: [&str; 4] = ["a", "b", "c", "d"];
const TNAMES: [&str; 3] = ["P", "Q", "R"];

impl FG<'_> {
    fn feat(&mut self, f: &'static str) {
        if !self.feats.contains(&f) {
            self.feats.push(f);
        }
    }
    fn var_name(&mut self) -> String {
        self.fresh += 1;
        format!("v{}", self.fresh)
    }
    /// the accessors that read something of type `want` out of a value of type `t` (depth ≤ 2)
    fn paths(t: &FTy, want: Option<&FTy>, depth: usize, by_label: bool) -> Vec<(Vec<Acc>, FTy)> {
        let mut out = vec![];
        if want.is_none_or(|w| w == t) {
            out.push((vec![], t.clone()));
        }
        if depth == 0 {
            return out;
        }
        let fields: Vec<(Option<String>, FTy, bool)> = match t {
            FTy::Tup(_, fs) => fs.iter().map(|(l, t)| (l.clone(), t.clone(), true)).collect(),
            // by-name only (the positional access of a union is outside the fragment)
            FTy::UnionAB => vec![(Some("a".into()), FTy::Int, false)],
            FTy::UnionPerm => vec![(Some("a".into()), FTy::Int, false), (Some("b".into()), FTy::Bin, false)],
            _ => vec![],
        };
        for (i, (l, ft, positional)) in fields.iter().enumerate() {
            for (rest, rt) in Self::paths(ft, want, depth - 1, by_label) {
                if let Some(l) = l
                    && (by_label || !positional)
                {
                    let mut p = vec![Acc::L(l.clone())];
                    p.extend(rest.clone());
                    out.push((p, rt.clone()));
                }
                if *positional && !by_label {
                    let mut p = vec![Acc::N(i)];
                    p.extend(rest);
                    out.push((p, rt));
                }
            }
        }
        out
    }
    /// a chain of type `want` (any type when `None`); `flow` = the type of the flowing value
    fn chain(&mut self, want: Option<&FTy>, flow: &FTy, depth: usize) -> (Chain, FTy) {
        let (terms, t) = self.terms(want, flow, depth);
        (Chain { bind: None, terms }, t)
    }
    fn terms(&mut self, want: Option<&FTy>, flow: &FTy, depth: usize) -> (Vec<Term>, FTy) {
        for _ in 0..8 {
            let k = self.r.below(12);
            match k {
                0..=2 => {
                    // a variable (or `~`) with accessors
                    let by_label = self.r.chance(1, 2);
                    let mut cands: Vec<(Term, FTy)> = vec![];
                    for (x, t) in self.vars.clone() {
                        for (p, rt) in Self::paths(&t, want, 2, by_label) {
                            cands.push((Term::Var(x.clone(), p), rt));
                        }
                    }
                    for (p, rt) in Self::paths(flow, want, 2, by_label) {
                        cands.push((Term::Ripple(p), rt));
                    }
                    // unions and nil-able values are only read whole where any type will do
                    cands.retain(|(_, t)| want.is_some() || !matches!(t, FTy::Ok));
                    if !cands.is_empty() {
                        let (t, ty) = cands[self.r.usize(cands.len())].clone();
                        match &t {
                            Term::Var(_, p) | Term::Ripple(p) => {
                                if p.iter().any(|a| matches!(a, Acc::L(_))) { self.feat("access:label") }
                                if p.iter().any(|a| matches!(a, Acc::N(_))) { self.feat("access:index") }
                                if matches!(t, Term::Ripple(_)) { self.feat("term:ripple") }
                            }
                            _ => {}
                        }
                        return (vec![t], ty);
                    }
                }
                3..=4 if depth > 0 && want.is_none_or(|w| *w == FTy::Int) => {
                    self.feat("term:builtin");
                    let which = self.r.below(8);
                    if which == 0 {
                        let (a, _) = self.terms(Some(&FTy::Int), flow, depth - 1);
                        let mut t = a;
                        t.push(Term::Builtin("integer_abs"));
                        return (t, FTy::Int);
                    }
                    if which == 1 {
                        let (a, _) = self.terms(Some(&FTy::Bin), flow, depth - 1);
                        let mut t = a;
                        t.push(Term::Builtin("binary_length"));
                        return (t, FTy::Int);
                    }
                    let op = ["integer_add", "integer_subtract", "integer_multiply", "integer_divide", "integer_modulo", "integer_compare"]
                        [self.r.usize(6)];
                    let (a, _) = self.chain(Some(&FTy::Int), flow, depth - 1);
                    let (b, _) = self.chain(Some(&FTy::Int), flow, depth - 1);
                    return (vec![Term::Tup(None, vec![(None, a), (None, b)]), Term::Builtin(op)], FTy::Int);
                }
                5 if depth > 0 && want.is_none_or(|w| *w == FTy::Bin) => {
                    self.feat("term:builtin");
                    let (a, _) = self.chain(Some(&FTy::Bin), flow, depth - 1);
                    let (b, _) = self.chain(Some(&FTy::Bin), flow, depth - 1);
                    return (vec![Term::Tup(None, vec![(None, a), (None, b)]), Term::Builtin("binary_concat")], FTy::Bin);
                }
                6..=8 if depth > 0 && want.is_none_or(|w| matches!(w, FTy::Tup(..))) => {
                    // a tuple construction (of the wanted shape, if any)
                    self.feat("term:tuple");
                    let (name, shape): (Option<String>, Vec<(Option<String>, Option<FTy>)>) = match want {
                        Some(FTy::Tup(n, fs)) => (n.clone(), fs.iter().map(|(l, t)| (l.clone(), Some(t.clone()))).collect()),
                        _ => {
                            let n = self.r.usize(4);
                            let labelled = self.r.chance(1, 2);
                            let name = if self.r.chance(1, 2) { Some(TNAMES[self.r.usize(3)].to_string()) } else { None };
                            (name, (0..n).map(|i| (if labelled { Some(LABELS[i].to_string()) } else { None }, None)).collect())
                        }
                    };
                    let mut fs = vec![];
                    let mut tys = vec![];
                    for (l, ft) in shape {
                        let (c, t) = self.chain(ft.as_ref(), flow, depth - 1);
                        fs.push((l.clone(), c));
                        tys.push((l, t));
                    }
                    return (vec![Term::Tup(name.clone(), fs)], FTy::Tup(name, tys));
                }
                9 if want.is_none_or(|w| *w == FTy::Bin) => {
                    let n = self.r.usize(3);
                    return (vec![Term::Bin((0..n).map(|_| self.r.below(256) as u8).collect())], FTy::Bin);
                }
                _ if want.is_none_or(|w| *w == FTy::Int) => {
                    return (vec![Term::Int(self.r.below(20) as i64)], FTy::Int);
                }
                _ => {}
            }
        }
        // fallback: a literal of the wanted type
        match want {
            Some(FTy::Bin) => (vec![Term::Bin(vec![1])], FTy::Bin),
            Some(FTy::Tup(n, fs)) => {
                let mut out = vec![];
                for (l, t) in fs.clone() {
                    let (c, _) = self.chain(Some(&t), flow, 0);
                    out.push((l, c));
                }
                (vec![Term::Tup(n.clone(), out)], FTy::Tup(n.clone(), fs.clone()))
            }
            Some(FTy::Ok) => (vec![Term::Tup(Some("Ok".into()), vec![])], FTy::Ok),
            _ => (vec![Term::Int(7)], FTy::Int),
        }
    }
}

fn ev_canon(v: &EV) -> String {
    match v {
        EV::Int(i) => format!("i{i}"),
        EV::Bin(b) => format!("b{}", qverif::hex(b)),
        EV::Tup(n, fs) => {
            let inner: Vec<String> =
                fs.iter().map(|(l, v)| format!("{}={}", l.clone().unwrap_or("_".into()), ev_canon(v))).collect();
            format!("t({};{})", n.clone().unwrap_or("_".into()), inner.join(","))
        }
        _ => "?".into(),
    }
}

const PREFIX: &str = "mk = #'int { | =0 => [] | $ },\n\
mu = #'int { | =0 => A[a: 1, b: 0x01] | B[a: 2, c: 3] },\n\
mp = #'int { | =0 => A[a: 1, b: 0x01] | C[b: 0x02, a: 2] },\n";

pub fn infer_differential(ev: &mut Ev, cx: &mut Cx, seed: u64, n: u64) {
    for i in 0..n {
        let mut r = Rng::for_case(seed ^ 0x1FE4, i);
        let with_prefix = r.chance(1, 2);
        let mut g = FG { r: &mut r, vars: vec![], fresh: 0, feats: vec![] };
        // prefix variables (types the fragment cannot build itself)
        let mut prefix = String::new();
        let mut env_vars: Vec<(String, FTy)> = vec![];
        if with_prefix {
            // bound through a tuple pattern: a bare binder on the nil-able `K mk` would type its
            // verdict `Ok | []` (F25) and put nil into the type of the whole program
            prefix.push_str(PREFIX);
            let (k1, k2, k3) = (g.r.below(2), g.r.below(2), g.r.below(2));
            env_vars.push(("xn".into(), FTy::IntOrNil));
            env_vars.push(("xu".into(), FTy::UnionAB));
            if g.r.chance(1, 3) {
                prefix.push_str(&format!("[{k1} mk, {k2} mu, {k3} mp] =[xn, xu, xp],\n"));
                env_vars.push(("xp".into(), FTy::UnionPerm));
            } else {
                prefix.push_str(&format!("[{k1} mk, {k2} mu] =[xn, xu],\n"));
            }
            g.vars = env_vars.clone();
        }
        // the fragment: 1..5 chains
        let nch = 1 + g.r.usize(5);
        let mut chains: Vec<Chain> = vec![];
        let mut flow = if with_prefix { FTy::Ok } else { FTy::Tup(None, vec![]) };
        for k in 0..nch {
            let last = k + 1 == nch;
            // now and then a chain that may be nil (a nil-able prefix variable read whole)
            if with_prefix && !last && g.r.chance(1, 4) {
                g.feat("seq:nilable-chain");
                chains.push(Chain { bind: None, terms: vec![Term::Var("xn".into(), vec![])] });
                flow = FTy::Int; // the threaded value is not nil
                continue;
            }
            let (mut c, t) = g.chain(None, &flow, 2);
            // gate (finding F25): a bare binder on a nil-able (or nil) value — the compiler types
            // the verdict `Ok | []` and strips nil from the variable; `infer` follows the spec
            let nilable = matches!(t, FTy::IntOrNil) || t == FTy::Tup(None, vec![]);
            if !last && !nilable && g.r.chance(1, 2) {
                let x = g.var_name();
                if g.r.chance(1, 4) {
                    g.feat("bind:in-chain");
                    c.terms.push(Term::Bind(x.clone()));
                } else {
                    g.feat("bind:chain");
                    c.bind = Some(x.clone());
                }
                g.vars.push((x, t));
                flow = FTy::Ok;
            } else {
                flow = t;
            }
            chains.push(c);
        }
        let feats = g.feats.clone();
        let frag_src: Vec<String> = chains.iter().map(|c| c.src()).collect();
        let src = format!("{prefix}{}", frag_src.join(",\n"));
        let prog_sx = format!("(prog {})", chains.iter().map(|c| c.sx()).collect::<Vec<_>>().join(" "));
        for f in &feats {
            ev.hit(&format!("infer-feature:{f}"));
        }

        let unit = match front(&src, cx) {
            Ok(u) => u,
            Err(j) => {
                ev.case(&src, false);
                ev.hit(&format!("infer:compiler-{}", j.kind.tag()));
                // what does the model say about a program the compiler rejects?
                continue;
            }
        };
        ev.case(&src, true);
        // the context: the type the compiler gave each prefix variable (`prefix, x` registers the
        // same types in the same order, so the ids are those of the whole program's table)
        let mut env_sx = String::new();
        let mut env_ok = true;
        let show = |p: &quiver_core::program::Program, id: usize| {
            qverif::catch(|| quiver_core::format::format_type_by_id(p, id)).unwrap_or_else(|_| "?".into())
        };
        for (x, _) in &env_vars {
            match front(&format!("{prefix}{x}"), cx) {
                Ok(u) => {
                    // the id, in the whole program's table, of the type the compiler gave `x`
                    let want = show(&u.program, u.compiled_result_type);
                    let n = unit.program.get_types().len();
                    match (0..n).find(|&id| show(&unit.program, id) == want) {
                        Some(id) => env_sx.push_str(&format!(" ({x} {id})")),
                        None => env_ok = false,
                    }
                }
                Err(_) => env_ok = false,
            }
        }
        if !env_ok {
            ev.hit("infer:context-types-not-aligned");
            continue;
        }
        let mut it = Interner::default();
        let table = table_sx(unit.program.get_types(), unit.program.get_tuples(), &mut it);
        let _ = it.id("Ok");
        let t = cx.model.ask(&table);
        if !t.starts_with("ok") {
            ev.hit("infer:model-refused-table");
            continue;
        }
        let req = format!(
            "(infer (names{}) (env{}) {} {})",
            it.names_sx(),
            env_sx,
            if with_prefix { "ok" } else { "nil" },
            prog_sx
        );
        let a = cx.model.ask(&req);
        if a == "outside" {
            ev.hit("infer:outside-fragment");
            continue;
        }
        let parts: Vec<&str> = a.splitn(3, ' ').collect();
        if parts.first() != Some(&"ok") || parts.len() < 2 {
            ev.violation(
                "infer-differential request",
                &format!("the model answered `{a}` to an infer request"),
                json!({"source": src, "request": req, "answer": a}),
                true,
            );
            continue;
        }
        ev.hit("infer:both-accept");
        let model_ty: usize = parts[1].parse().unwrap_or(usize::MAX);
        if model_ty != unit.compiled_result_type {
            // the compiler's type may be WIDER than the proved one (imprecision, e.g. the verdict
            // of a bare binder on a nil-able value typed `Ok | []`): not a soundness matter. Only
            // a compiler type that does not contain the model's type is reported.
            let wider = cx.model.ask(&format!("(compat {} {})", model_ty, unit.compiled_result_type));
            if wider == "true" {
                ev.hit("infer:compiler-type-wider");
                continue;
            }
            let show = |id: usize| {
                qverif::catch(|| quiver_core::format::format_type_by_id(&unit.program, id)).unwrap_or_else(|_| "?".into())
            };
            ev.violation(
                "infer-differential type",
                &format!(
                    "fragment program: the compiler infers type {} `{}`, the model's infer {} `{}`",
                    unit.compiled_result_type,
                    show(unit.compiled_result_type),
                    model_ty,
                    show(model_ty)
                ),
                json!({"source": src, "program_sx": prog_sx, "compiler_type": unit.compiled_result_type, "model_type": model_ty, "table": table}),
                true,
            );
            continue;
        }
        ev.hit("infer:type-id-equal");
        // closed programs: the reference evaluator's value on the elaborated program = the real value
        if !with_prefix && parts.len() == 3 {
            let bc = unit.program.to_bytecode(Some(unit.entry));
            match run_bounded(bc, &cx.b, cx.slices) {
                Ran::Value(v, ex) => {
                    let (_, _, evv) = inh_requests_sync(&unit, &v, &ex);
                    let real = format!("ok {}", ev_canon(&evv));
                    if real != parts[2] {
                        ev.violation(
                            "infer-differential value",
                            &format!("fragment program: the real run yields `{real}`, the reference evaluator on the elaborated program `{}`", parts[2]),
                            json!({"source": src, "program_sx": prog_sx, "real": real, "reference": parts[2]}),
                            true,
                        );
                    } else {
                        ev.hit("infer:value-equal");
                    }
                }
                Ran::Error(e) => {
                    let class = qverif::canon::error_class(&e);
                    if parts[2] == format!("err {class}") {
                        ev.hit("infer:error-equal");
                    } else {
                        ev.violation(
                            "infer-differential value",
                            &format!("fragment program: the real run fails with {class}, the reference evaluator answers `{}`", parts[2]),
                            json!({"source": src, "program_sx": prog_sx, "real": format!("{e:?}"), "reference": parts[2]}),
                            true,
                        );
                    }
                }
                _ => ev.hit("infer:run-not-finished"),
            }
        }
    }
}
