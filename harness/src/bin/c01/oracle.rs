//! Running an accepted program and judging the outcome (the C01 oracle):
//!   * bounded sync runner over the real `Executor` (same recipe as `execute_bytecode_sync`, plus a
//!     slice budget so that a non-terminating program is an outcome, not a hang);
//!   * erasure of the result value to a structural value and serialisation of the compiled
//!     program's type table for the Lean driver `qm_c01`, which decides `inhB`.
use qverif::run::{Builtins, Exec, Unit};
use quiver_core::bytecode::Bytecode;
use quiver_core::compatibility::{
    CompatibilityInput, compute_canonical_tuples, compute_param_compatibility, compute_type_compatibility,
};
use quiver_core::executor::ProgramUpdate;
use quiver_core::types::{BuiltinInfo, TupleTypeInfo, Type};
use quiver_core::value::Value;
use quiver_core::{Error, Executor};
use std::collections::HashMap;

pub enum Ran {
    Value(Value, Exec),
    Error(Error),
    Panic(String),
    /// slice budget exhausted (non-termination or a very long run)
    FuelOut,
    /// the process asked for something only the full system provides (spawn, select, …) or has
    /// nothing left to run without a result
    NeedsSystem,
}

/// `execute_bytecode_sync` with a budget of `max_slices` time slices of 1000 units.
pub fn run_bounded(bc: Bytecode, b: &Builtins, max_slices: usize) -> Ran {
    let r = qverif::catch(|| -> Ran {
        let Some(entry) = bc.entry else { return Ran::Error(Error::InvalidArgument("no entry".into())) };
        let mut ex: Exec = Executor::new(b.clone(), false, 0);
        let input = CompatibilityInput {
            types: &bc.types,
            tuples: &bc.tuples,
            functions: &bc.functions,
            builtins: &bc.builtins,
            resource_names: &bc.resources,
        };
        let type_compatibility = compute_type_compatibility(&input);
        let canonical_tuples = compute_canonical_tuples(&bc.tuples);
        let (fpc, bpc) = compute_param_compatibility(&input);
        let upd = ProgramUpdate {
            constants: bc.constants,
            functions: bc.functions,
            tuples: bc.tuples[2..].to_vec(),
            types: bc.types,
            builtins: bc.builtins,
            resources: bc.resources,
            type_compatibility,
            function_param_compatibility: fpc,
            builtin_param_compatibility: bpc,
            canonical_tuples,
        };
        ex.update_program(upd);
        if let Err(e) = ex.spawn_process(0, Some(entry), vec![], Value::nil(), vec![], false) {
            return Ran::Error(e);
        }
        for _ in 0..max_slices {
            let (did_work, action) = ex.step(1000, 0);
            let Some(p) = ex.get_process(0) else { return Ran::Error(Error::InvalidArgument("process disappeared".into())) };
            if let Some(res) = &p.result {
                return match res {
                    Ok(v) => {
                        let v = v.clone();
                        Ran::Value(v, ex)
                    }
                    Err(e) => Ran::Error(e.clone()),
                };
            }
            if action.is_some() || !did_work {
                return Ran::NeedsSystem;
            }
        }
        Ran::FuelOut
    });
    match r {
        Ok(x) => x,
        Err(p) => Ran::Panic(p),
    }
}

/// Interning of names for the driver protocol (C09's convention: names are small naturals).
#[derive(Default)]
pub struct Interner {
    map: HashMap<String, usize>,
}

impl Interner {
    pub fn id(&mut self, s: &str) -> usize {
        let n = self.map.len() + 1;
        *self.map.entry(s.to_string()).or_insert(n)
    }
    /// ` (<string> <id>)…` for the driver's `infer` request (names that are plain identifiers)
    pub fn names_sx(&self) -> String {
        let mut v: Vec<(&String, &usize)> = self.map.iter().collect();
        v.sort_by_key(|(_, i)| **i);
        v.iter()
            .filter(|(n, _)| !n.is_empty() && n.chars().all(|c| c.is_ascii_alphanumeric() || c == '_' || c == '?'))
            .map(|(n, i)| format!(" ({n} {i})"))
            .collect()
    }
    fn opt(&mut self, s: &Option<String>) -> String {
        match s {
            Some(s) => self.id(s).to_string(),
            None => "_".to_string(),
        }
    }
}

fn opt_id(o: &Option<usize>) -> String {
    match o {
        Some(i) => i.to_string(),
        None => "_".into(),
    }
}

pub fn type_sx(t: &Type, it: &mut Interner) -> String {
    match t {
        Type::Integer => "int".into(),
        Type::Binary => "bin".into(),
        Type::Reference => "ref".into(),
        Type::Tuple(i) => format!("(tuple {i})"),
        Type::Partial { name, fields } => {
            let mut s = format!("(part {}", it.opt(name));
            for (f, t) in fields {
                s.push_str(&format!(" ({} {})", it.id(f), t));
            }
            s.push(')');
            s
        }
        Type::Callable { parameter, result, receive } => format!("(fn {parameter} {result} {receive})"),
        Type::Cycle(d) => format!("(cycle {d})"),
        Type::Union(ids) => {
            let mut s = "(union".to_string();
            for i in ids {
                s.push_str(&format!(" {i}"));
            }
            s.push(')');
            s
        }
        Type::Process { send, receive } => format!("(process {} {})", opt_id(send), opt_id(receive)),
        Type::Resource(n) => format!("(res {})", it.id(n)),
        Type::Variable(n) => format!("(var {})", it.id(n)),
    }
}

pub fn table_sx(types: &[Type], tuples: &[TupleTypeInfo], it: &mut Interner) -> String {
    let mut s = "(table (types".to_string();
    for t in types {
        s.push(' ');
        s.push_str(&type_sx(t, it));
    }
    s.push_str(") (tuples");
    for tu in tuples {
        s.push_str(&format!(" ({}", it.opt(&tu.name)));
        for (l, t) in &tu.fields {
            s.push_str(&format!(" ({} {})", it.opt(l), t));
        }
        s.push(')');
    }
    s.push_str("))");
    s
}

/// Structural (erased) value: tuple ids resolved to name + labels, binaries to bytes, function /
/// builtin / process values to the id of their declared type (registered on demand in `types`).
#[derive(Clone, Debug, PartialEq)]
pub enum EV {
    Int(String),
    Bin(Vec<u8>),
    Ref(u64),
    Tup(Option<String>, Vec<(Option<String>, EV)>),
    Fn(usize),
    Proc(usize),
    Res(String),
    /// something the tables cannot resolve (never expected; reported)
    Bad(String),
}

pub fn find_or_push(types: &mut Vec<Type>, t: Type) -> usize {
    if let Some(i) = types.iter().position(|x| *x == t) {
        i
    } else {
        types.push(t);
        types.len() - 1
    }
}

pub struct EraseCtx<'a> {
    pub tuples: &'a [TupleTypeInfo],
    pub fn_types: &'a [usize],
    pub builtins: &'a [BuiltinInfo],
    pub resources: &'a [String],
    pub bytes: &'a dyn Fn(&quiver_core::value::Binary) -> Option<Vec<u8>>,
}

pub fn erase(v: &Value, cx: &EraseCtx, types: &mut Vec<Type>) -> EV {
    match v {
        Value::Integer(i) => EV::Int(i.to_string()),
        Value::Binary(b) => match (cx.bytes)(b) {
            Some(x) => EV::Bin(x),
            None => EV::Bad("binary".into()),
        },
        Value::Reference(r) => EV::Ref(*r),
        Value::Tuple(id, fs) => match cx.tuples.get(*id) {
            Some(info) => {
                let mut out = vec![];
                for (i, f) in fs.iter().enumerate() {
                    // a value with more fields than its tuple id declares is not well tagged: keep
                    // the extra fields unlabelled so that inhabitation fails on the arity
                    let label = info.fields.get(i).and_then(|(l, _)| l.clone());
                    out.push((label, erase(f, cx, types)));
                }
                EV::Tup(info.name.clone(), out)
            }
            None => EV::Bad(format!("tuple id {id}")),
        },
        Value::Function(idx, _) => match cx.fn_types.get(*idx) {
            Some(t) => EV::Fn(*t),
            None => EV::Bad(format!("function {idx}")),
        },
        Value::Builtin(id) => match cx.builtins.get(*id) {
            Some(info) => {
                let never = find_or_push(types, Type::Union(vec![]));
                EV::Fn(find_or_push(
                    types,
                    Type::Callable { parameter: info.param_type, result: info.result_type, receive: never },
                ))
            }
            None => EV::Bad(format!("builtin {id}")),
        },
        Value::Process(_, fidx) => match cx.fn_types.get(*fidx).and_then(|t| types.get(*t).cloned()) {
            Some(Type::Callable { result, receive, .. }) => {
                EV::Proc(find_or_push(types, Type::Process { send: Some(receive), receive: Some(result) }))
            }
            _ => EV::Bad(format!("process of function {fidx}")),
        },
        Value::Resource(_, tidx) => match cx.resources.get(*tidx) {
            Some(n) => EV::Res(n.clone()),
            None => EV::Bad(format!("resource type {tidx}")),
        },
    }
}

pub fn ev_sx(v: &EV, it: &mut Interner) -> String {
    match v {
        EV::Int(i) => format!("(i {i})"),
        EV::Bin(b) if b.is_empty() => "(b)".into(),
        EV::Bin(b) => format!("(b {})", qverif::hex(b)),
        EV::Ref(r) => format!("(r {r})"),
        EV::Tup(n, fs) => {
            let mut s = format!("(t {}", it.opt(n));
            for (l, f) in fs {
                s.push_str(&format!(" ({} {})", it.opt(l), ev_sx(f, it)));
            }
            s.push(')');
            s
        }
        EV::Fn(t) => format!("(f {t})"),
        EV::Proc(t) => format!("(p {t})"),
        EV::Res(n) => format!("(x {})", it.id(n)),
        EV::Bad(_) => "(bad)".into(),
    }
}

/// Human-readable rendering of an erased value (for replay files and messages).
pub fn ev_show(v: &EV) -> String {
    match v {
        EV::Int(i) => i.clone(),
        EV::Bin(b) => format!("0x{}", qverif::hex(b)),
        EV::Ref(r) => format!("<ref {r}>"),
        EV::Tup(n, fs) => {
            let mut s = n.clone().unwrap_or_default();
            if fs.is_empty() && n.is_some() {
                return s;
            }
            s.push('[');
            for (i, (l, f)) in fs.iter().enumerate() {
                if i > 0 {
                    s.push_str(", ");
                }
                if let Some(l) = l {
                    s.push_str(l);
                    s.push_str(": ");
                }
                s.push_str(&ev_show(f));
            }
            s.push(']');
            s
        }
        EV::Fn(t) => format!("<fn:type{t}>"),
        EV::Proc(t) => format!("<process:type{t}>"),
        EV::Res(n) => format!("<resource {n}>"),
        EV::Bad(s) => format!("<bad {s}>"),
    }
}

/// The inhabitation question for a sync run: (table request, inh request, shown value).
pub fn inh_requests_sync(unit: &Unit, v: &Value, ex: &Exec) -> (String, String, EV) {
    let p = &unit.program;
    let mut types: Vec<Type> = p.get_types().clone();
    let fn_types: Vec<usize> = p.get_functions().iter().map(|f| f.type_id).collect();
    let resources = p.collect_resource_names();
    let bytes = |b: &quiver_core::value::Binary| ex.get_binary_data(b).ok().map(|d| d.to_vec());
    let cx = EraseCtx {
        tuples: p.get_tuples(),
        fn_types: &fn_types,
        builtins: p.get_builtins(),
        resources: &resources,
        bytes: &bytes,
    };
    let ev = erase(v, &cx, &mut types);
    let mut it = Interner::default();
    let table = table_sx(&types, p.get_tuples(), &mut it);
    let inh = format!("(inh {} {})", unit.compiled_result_type, ev_sx(&ev, &mut it));
    (table, inh, ev)
}
