//! Type-feature-crossing program generator for C01.
//!
//! A generated program is a small tree (`Node`) so that (1) it can be rendered in several
//! *repaired* forms — the repair differentials that classify known findings — and (2) it can be
//! shrunk structurally (drop block branches, drop sequence steps, drop definitions).
use qverif::Rng;
use std::collections::BTreeSet;

// ------------------------------------------------------------------------------------------
// generator-side types and values
// ------------------------------------------------------------------------------------------

#[derive(Clone, Debug, PartialEq)]
pub enum GTy {
    Int,
    Bin,
    /// tuple; `Tup(None, [])` is nil
    Tup(Option<String>, Vec<(Option<String>, GTy)>),
    Union(Vec<GTy>),
    /// `'list<T>` = Nil | Cons[T, ^]
    List(Box<GTy>),
    /// `'tree<T>` = Leaf[T] | Node[^, ^]
    Tree(Box<GTy>),
    /// `'opt<T>` = None | Some[T]
    Opt(Box<GTy>),
    Var(String),
    Fn(Box<GTy>, Box<GTy>),
    Part(Option<String>, Vec<(String, GTy)>),
}

pub fn nil() -> GTy {
    GTy::Tup(None, vec![])
}
pub fn tag(n: &str) -> GTy {
    GTy::Tup(Some(n.to_string()), vec![])
}
pub fn tup(name: Option<&str>, fs: Vec<(Option<&str>, GTy)>) -> GTy {
    GTy::Tup(name.map(|s| s.to_string()), fs.into_iter().map(|(l, t)| (l.map(|s| s.to_string()), t)).collect())
}

impl GTy {
    pub fn is_union_like(&self) -> bool {
        matches!(self, GTy::Union(_) | GTy::List(_) | GTy::Tree(_) | GTy::Opt(_))
    }
    /// type syntax; `nested` = inside a tuple field / union member (parenthesise unions and fns)
    pub fn src_n(&self, nested: bool) -> String {
        match self {
            GTy::Int => "'int".into(),
            GTy::Bin => "'bin".into(),
            GTy::Tup(name, fs) => {
                if fs.is_empty() {
                    return name.clone().unwrap_or_else(|| "[]".into());
                }
                let mut s = name.clone().unwrap_or_default();
                s.push('[');
                for (i, (l, t)) in fs.iter().enumerate() {
                    if i > 0 {
                        s.push_str(", ");
                    }
                    if let Some(l) = l {
                        s.push_str(l);
                        s.push_str(": ");
                    }
                    s.push_str(&t.src_n(true));
                }
                s.push(']');
                s
            }
            GTy::Union(vs) => {
                let body = vs.iter().map(|v| v.src_n(true)).collect::<Vec<_>>().join(" | ");
                if nested { format!("({body})") } else { body }
            }
            GTy::List(t) => format!("'list<{}>", t.src_n(true)),
            GTy::Tree(t) => format!("'tree<{}>", t.src_n(true)),
            GTy::Opt(t) => format!("'opt<{}>", t.src_n(true)),
            GTy::Var(v) => format!("'{v}"),
            GTy::Fn(p, r) => {
                let body = format!("#{} -> {}", p.src_n(true), r.src_n(true));
                if nested { format!("({body})") } else { body }
            }
            GTy::Part(name, fs) => {
                let mut s = name.clone().unwrap_or_default();
                s.push('(');
                for (i, (l, t)) in fs.iter().enumerate() {
                    if i > 0 {
                        s.push_str(", ");
                    }
                    s.push_str(l);
                    s.push_str(": ");
                    s.push_str(&t.src_n(true));
                }
                s.push(')');
                s
            }
        }
    }
    pub fn src(&self) -> String {
        self.src_n(false)
    }
    /// parameter position of a function literal: `#T {` — unions must be parenthesised
    pub fn param_src(&self) -> String {
        match self {
            GTy::Union(_) | GTy::Fn(_, _) => self.src_n(true),
            _ => self.src_n(false),
        }
    }
    /// one level of variants (aliases unfolded)
    pub fn variants(&self) -> Vec<GTy> {
        match self {
            GTy::Union(vs) => vs.iter().flat_map(|v| v.variants()).collect(),
            GTy::List(t) => vec![tag("Nil"), tup(Some("Cons"), vec![(None, (**t).clone()), (None, self.clone())])],
            GTy::Tree(t) => vec![
                tup(Some("Leaf"), vec![(None, (**t).clone())]),
                tup(Some("Node"), vec![(None, self.clone()), (None, self.clone())]),
            ],
            GTy::Opt(t) => vec![tag("None"), tup(Some("Some"), vec![(None, (**t).clone())])],
            other => vec![other.clone()],
        }
    }
    pub fn subst(&self, var: &str, by: &GTy) -> GTy {
        match self {
            GTy::Var(v) if v == var => by.clone(),
            GTy::Tup(n, fs) => GTy::Tup(n.clone(), fs.iter().map(|(l, t)| (l.clone(), t.subst(var, by))).collect()),
            GTy::Union(vs) => GTy::Union(vs.iter().map(|v| v.subst(var, by)).collect()),
            GTy::List(t) => GTy::List(Box::new(t.subst(var, by))),
            GTy::Tree(t) => GTy::Tree(Box::new(t.subst(var, by))),
            GTy::Opt(t) => GTy::Opt(Box::new(t.subst(var, by))),
            GTy::Fn(p, r) => GTy::Fn(Box::new(p.subst(var, by)), Box::new(r.subst(var, by))),
            GTy::Part(n, fs) => GTy::Part(n.clone(), fs.iter().map(|(l, t)| (l.clone(), t.subst(var, by))).collect()),
            other => other.clone(),
        }
    }
    pub fn uses_alias(&self, which: &str) -> bool {
        match self {
            GTy::List(t) => which == "list" || t.uses_alias(which),
            GTy::Tree(t) => which == "tree" || t.uses_alias(which),
            GTy::Opt(t) => which == "opt" || t.uses_alias(which),
            GTy::Tup(_, fs) => fs.iter().any(|(_, t)| t.uses_alias(which)),
            GTy::Union(vs) => vs.iter().any(|t| t.uses_alias(which)),
            GTy::Fn(p, r) => p.uses_alias(which) || r.uses_alias(which),
            GTy::Part(_, fs) => fs.iter().any(|(_, t)| t.uses_alias(which)),
            _ => false,
        }
    }
}

#[derive(Clone, Debug, PartialEq)]
pub enum GVal {
    Int(i64),
    Bin(Vec<u8>),
    Tup(Option<String>, Vec<(Option<String>, GVal)>),
    /// a function literal (source text)
    Fun(String),
}

impl GVal {
    pub fn src(&self) -> String {
        match self {
            GVal::Int(i) => i.to_string(),
            GVal::Bin(b) => format!("0x{}", qverif::hex(b)),
            GVal::Tup(n, fs) => {
                if fs.is_empty() {
                    return n.clone().unwrap_or_else(|| "[]".into());
                }
                let mut s = n.clone().unwrap_or_default();
                s.push('[');
                for (i, (l, v)) in fs.iter().enumerate() {
                    if i > 0 {
                        s.push_str(", ");
                    }
                    if let Some(l) = l {
                        s.push_str(l);
                        s.push_str(": ");
                    }
                    s.push_str(&v.src());
                }
                s.push(']');
                s
            }
            GVal::Fun(s) => s.clone(),
        }
    }
    pub fn size(&self) -> usize {
        match self {
            GVal::Tup(_, fs) => 1 + fs.iter().map(|(_, v)| v.size()).sum::<usize>(),
            _ => 1,
        }
    }
}

// ------------------------------------------------------------------------------------------
// program trees
// ------------------------------------------------------------------------------------------

#[derive(Clone, Debug, PartialEq)]
pub struct Acc {
    pub idx: usize,
    /// access by label (else by position)
    pub by_name: Option<String>,
    /// labels and name of the tuple the generator believes it is looking at (empty labels = the
    /// base is partial-typed: no checked form exists)
    pub labels: Vec<Option<String>>,
    pub tname: Option<String>,
}

impl Acc {
    pub fn partial_field(l: &str) -> Acc {
        Acc { idx: 0, by_name: Some(l.to_string()), labels: vec![], tname: None }
    }
}

#[derive(Clone, Debug, PartialEq)]
pub enum Node {
    T(String),
    Cat(Vec<Node>),
    /// `{ | b1 | b2 … }` — branches are removable while shrinking
    Block(Vec<Node>),
    /// comma-separated steps — removable while shrinking
    Steps(Vec<Node>),
    /// marker in front of a tail call to function `0` (repair K1: `idg_<f> ` is inserted)
    TailGuard(String),
    /// field access on `base` (repair K2: rendered through a checked pattern match)
    Field(Box<Node>, Acc),
}

#[derive(Clone, Copy, Debug, Default, PartialEq)]
pub struct Repair {
    /// K1: route every tail-call argument through an identity function of the callee's parameter type
    pub guard_tail: bool,
    /// K2: replace `e.f` by a pattern match that fails (nil) on values without the field
    pub checked_field: bool,
    /// K7: write every nested tuple sub-pattern `P` as the alternation `(P | P)` — same meaning,
    /// but no longer a "flat tuple sub-pattern", so no field-specific complement is recorded
    pub alt_subpat: bool,
    /// K6: pass the argument through the identity function `w` of the declared parameter type, so
    /// that the call is typed from the whole function, not from the per-branch case table
    pub widen_arg: bool,
    /// K9: write every partial pattern `N(a: p)` over a known tuple variant as the full pattern
    /// `N[a: p, b: _, …]`
    pub full_for_partial: bool,
    /// K6b: replace the recursive aliases by finite unfoldings (no `Cycle` back-references), deep
    /// enough for every generated value
    pub unfold_rec: bool,
    /// K12: every wildcard of a generated pattern becomes a fresh (unused) binder, so that no
    /// pattern has exactly one binder
    pub bind_wildcards: bool,
    /// C3: a repeated identifier `[K[a], a]` is written with a fresh binder and a separate pin
    /// step `[K[a], a2], a2 =&a`
    pub unrepeat: bool,
    /// N10: a branch whose pattern is an alternation becomes one branch per alternative
    pub split_alt: bool,
}

/// Resolve the repair markers of a rendered source:
///   `\u{27E6}P\u{27E7}`                         K7: `P`, or `(P | P)` under `alt`
///   `\u{27EA}X\u{27EB}\u{27EC}Y\u{27ED}`      K9: `X` (a partial pattern), or `Y` (the full pattern) under `full`
pub fn resolve_markers(s: &str, alt: bool, full: bool, bind_wild: bool, unrepeat: bool, split_alt: bool) -> String {
    let s = &{
        // wildcards first: each becomes `_` or a unique binder
        let mut out = String::new();
        let mut k = 0;
        for c in s.chars() {
            if c == '\u{27EE}' {
                if bind_wild {
                    k += 1;
                    out.push_str(&format!("z{k}__"));
                } else {
                    out.push('_');
                }
            } else {
                out.push(c);
            }
        }
        out
    };
    const CLOSERS: [char; 7] = ['\u{27E7}', '\u{27EB}', '\u{27ED}', '\u{2984}', '\u{2986}', '\u{2988}', '\u{298A}'];
    fn go(cs: &[char], i: &mut usize, fl: (bool, bool, bool, bool), out: &mut String) {
        let (alt, full, unrepeat, split_alt) = fl;
        while *i < cs.len() {
            let c = cs[*i];
            if c == '\u{27E6}' {
                *i += 1;
                let mut inner = String::new();
                go(cs, i, fl, &mut inner);
                if alt {
                    out.push_str(&format!("({inner} | {inner})"));
                } else {
                    out.push_str(&inner);
                }
            } else if c == '\u{27EA}' || c == '\u{2983}' || c == '\u{2987}' {
                let second = if c == '\u{27EA}' {
                    full
                } else if c == '\u{2983}' {
                    unrepeat
                } else {
                    split_alt
                };
                *i += 1;
                let mut x = String::new();
                go(cs, i, fl, &mut x);
                // the opener of the second part
                if *i < cs.len() && (cs[*i] == '\u{27EC}' || cs[*i] == '\u{2985}' || cs[*i] == '\u{2989}') {
                    *i += 1;
                }
                let mut y = String::new();
                go(cs, i, fl, &mut y);
                out.push_str(if second { &y } else { &x });
            } else if CLOSERS.contains(&c) {
                *i += 1;
                return;
            } else {
                out.push(c);
                *i += 1;
            }
        }
    }
    let cs: Vec<char> = s.chars().collect();
    let mut out = String::new();
    let mut i = 0;
    go(&cs, &mut i, (alt, full, unrepeat, split_alt), &mut out);
    out
}

/// choice marker of the N10 repair: `x` normally (one branch with an alternation), `y` under
/// `split_alt` (one branch per alternative)
pub fn split_alt_choice(x: &str, y: &str) -> String {
    format!("\u{2987}{x}\u{2988}\u{2989}{y}\u{298A}")
}

/// choice marker of the C3 repair: `x` normally, `y` under `unrepeat`
pub fn unrepeat_choice(x: &str, y: &str) -> String {
    format!("\u{2983}{x}\u{2984}\u{2985}{y}\u{2986}")
}

pub fn t(s: &str) -> Node {
    Node::T(s.to_string())
}
pub fn cat(v: Vec<Node>) -> Node {
    Node::Cat(v)
}

impl Node {
    pub fn render(&self, rp: &Repair, out: &mut String) {
        match self {
            Node::T(s) => out.push_str(s),
            Node::Cat(v) => {
                for n in v {
                    n.render(rp, out);
                }
            }
            Node::Block(bs) => {
                out.push_str("{ ");
                for (i, b) in bs.iter().enumerate() {
                    if i > 0 || bs.len() > 1 {
                        out.push_str("| ");
                    }
                    b.render(rp, out);
                    out.push(' ');
                }
                out.push('}');
            }
            Node::Steps(ss) => {
                for (i, s) in ss.iter().enumerate() {
                    if i > 0 {
                        out.push_str(", ");
                    }
                    s.render(rp, out);
                }
            }
            Node::TailGuard(f) => {
                if rp.guard_tail {
                    out.push_str(&format!("idg_{f} "));
                }
            }
            Node::Field(base, acc) => {
                base.render(rp, out);
                if rp.checked_field && !acc.labels.is_empty() {
                    // a full pattern of the believed tuple type (full patterns test the shape; a
                    // partial pattern would not: finding N9)
                    let pats: Vec<String> = acc
                        .labels
                        .iter()
                        .enumerate()
                        .map(|(k, l)| {
                            let v = if k == acc.idx { "v__" } else { "_" };
                            match l {
                                Some(l) => format!("{l}: {v}"),
                                None => v.to_string(),
                            }
                        })
                        .collect();
                    out.push_str(&format!(" {{ ={}[{}] => v__ }}", acc.tname.clone().unwrap_or_default(), pats.join(", ")));
                } else {
                    match &acc.by_name {
                        Some(n) => out.push_str(&format!(".{n}")),
                        None => out.push_str(&format!(".{}", acc.idx)),
                    }
                }
            }
        }
    }
    pub fn size(&self) -> usize {
        match self {
            Node::T(_) | Node::TailGuard(_) => 1,
            Node::Cat(v) | Node::Block(v) | Node::Steps(v) => 1 + v.iter().map(|n| n.size()).sum::<usize>(),
            Node::Field(b, _) => 1 + b.size(),
        }
    }
    /// all one-step structural reductions of this node
    pub fn reductions(&self) -> Vec<Node> {
        let mut out = vec![];
        match self {
            Node::T(_) | Node::TailGuard(_) => {}
            Node::Cat(v) => {
                for (i, c) in v.iter().enumerate() {
                    for r in c.reductions() {
                        let mut w = v.clone();
                        w[i] = r;
                        out.push(Node::Cat(w));
                    }
                }
            }
            Node::Block(v) | Node::Steps(v) => {
                let is_block = matches!(self, Node::Block(_));
                if v.len() > 1 {
                    for i in 0..v.len() {
                        let mut w = v.clone();
                        w.remove(i);
                        out.push(if is_block { Node::Block(w) } else { Node::Steps(w) });
                    }
                }
                for (i, c) in v.iter().enumerate() {
                    for r in c.reductions() {
                        let mut w = v.clone();
                        w[i] = r;
                        out.push(if is_block { Node::Block(w) } else { Node::Steps(w) });
                    }
                }
            }
            Node::Field(b, a) => {
                for r in b.reductions() {
                    out.push(Node::Field(Box::new(r), a.clone()));
                }
            }
        }
        out
    }
}

/// An argument expression: how it is written, and (when the generator knows it) its value.
#[derive(Clone, Debug, PartialEq)]
pub struct Arg {
    pub src: String,
    /// K3 repair: the same value with the fields of every tuple reordered to the declared
    /// positions of the partial type it is passed for (None = no such repair applies)
    pub aligned_src: Option<String>,
    pub note: String,
}

#[derive(Clone, Debug)]
pub struct Prog {
    pub family: &'static str,
    pub features: BTreeSet<String>,
    /// top-level type aliases
    pub aliases: Vec<String>,
    /// K1 guards: (`idg_<f>`, definition source), emitted only under `Repair.guard_tail`
    pub guards: Vec<(String, String)>,
    /// value definitions `name = node`
    pub defs: Vec<(String, Node)>,
    /// the final step; contains the text `{ARG}` where the argument goes
    pub main: Node,
    pub args: Vec<Arg>,
    /// for the generics family: name of the generic function called in `main` (model-based
    /// classification of unify findings)
    pub generic_fn: Option<String>,
    /// for the declared-return family: the declared result type of `f` (source); the value of
    /// `{ARG} f` must inhabit it as well
    pub declared_ret: Option<String>,
}

impl Prog {
    pub fn render(&self, arg: &str, rp: &Repair) -> String {
        let mut s = String::new();
        for a in &self.aliases {
            if rp.unfold_rec && a == LIST_ALIAS {
                s.push_str(&list_unfolded(6));
            } else if rp.unfold_rec && a == TREE_ALIAS {
                s.push_str(&tree_unfolded(4));
            } else {
                s.push_str(a);
            }
            s.push_str(",\n");
        }
        if rp.guard_tail {
            for (n, d) in &self.guards {
                s.push_str(&format!("{n} = {d},\n"));
            }
        }
        for (n, d) in &self.defs {
            s.push_str(n);
            s.push_str(" = ");
            d.render(rp, &mut s);
            s.push_str(",\n");
        }
        let mut m = String::new();
        self.main.render(rp, &mut m);
        let arg = if rp.widen_arg { format!("{arg} w") } else { arg.to_string() };
        s.push_str(&m.replace("{ARG}", &arg));
        resolve_markers(&s, rp.alt_subpat, rp.full_for_partial, rp.bind_wildcards, rp.unrepeat, rp.split_alt)
    }
    pub fn size(&self) -> usize {
        self.defs.iter().map(|(_, d)| d.size()).sum::<usize>() + self.main.size() + self.aliases.len()
    }
    /// one-step reductions of the whole program (for shrinking)
    pub fn reductions(&self) -> Vec<Prog> {
        let mut out = vec![];
        for i in 0..self.defs.len() {
            // drop a definition (only useful if nothing refers to it; the compiler tells)
            let mut p = self.clone();
            p.defs.remove(i);
            out.push(p);
        }
        for i in 0..self.aliases.len() {
            let mut p = self.clone();
            p.aliases.remove(i);
            out.push(p);
        }
        for (i, (_, d)) in self.defs.iter().enumerate() {
            for r in d.reductions() {
                let mut p = self.clone();
                p.defs[i].1 = r;
                out.push(p);
            }
        }
        for r in self.main.reductions() {
            let mut p = self.clone();
            p.main = r;
            out.push(p);
        }
        out
    }
}

// ------------------------------------------------------------------------------------------
// the generator
// ------------------------------------------------------------------------------------------

/// wildcard inside a generated pattern: `_`, or a fresh binder under the `bind_wildcards` repair
pub const WILD: &str = "\u{27EE}";
pub const LIST_ALIAS: &str = "'list<'t> = Nil | Cons['t, ^]";
pub const TREE_ALIAS: &str = "'tree<'t> = Leaf['t] | Node[^, ^]";
pub const OPT_ALIAS: &str = "'opt<'t> = None | Some['t]";

/// `'list<'t>` unfolded `n` times (lists up to length `n`), without back-reference
pub fn list_unfolded(n: usize) -> String {
    let mut t = "Nil".to_string();
    for _ in 0..n {
        t = format!("(Nil | Cons['t, {t}])");
    }
    let body = if n == 0 { t.clone() } else { t[1..t.len() - 1].to_string() };
    format!("'list<'t> = {body}")
}
/// `'tree<'t>` unfolded to height `n`
pub fn tree_unfolded(n: usize) -> String {
    let mut t = "Leaf['t]".to_string();
    for _ in 0..n {
        t = format!("(Leaf['t] | Node[{t}, {t}])");
    }
    let body = &t[1..t.len() - 1];
    format!("'tree<'t> = {body}")
}

pub struct G<'a> {
    pub r: &'a mut Rng,
    fresh: usize,
    pub feats: BTreeSet<String>,
    /// currently generating sub-patterns of a tuple pattern
    in_tuple_pat: bool,
    no_whole_bind: bool,
}

const NAMES: [&str; 6] = ["A", "B", "C", "D", "P", "Q"];
const LABELS: [&str; 5] = ["a", "b", "c", "x", "y"];

#[derive(Clone, Debug)]
pub struct Bind {
    pub name: String,
    pub ty: GTy,
}

/// remove the binder `name` from a pattern source: a plain binder becomes a wildcard, a
/// type-ascribed binder `(T)name` becomes the type pattern `T`
fn drop_binder(p: &str, name: &str) -> String {
    let typed = format!("){name}");
    if let Some(pos) = p.find(&typed) {
        // matching opening parenthesis
        let bytes: Vec<char> = p.chars().collect();
        let close = p[..pos].chars().count();
        let mut depth = 0i32;
        let mut open = None;
        for i in (0..=close).rev() {
            match bytes[i] {
                ')' => depth += 1,
                '(' => {
                    depth -= 1;
                    if depth == 0 {
                        open = Some(i);
                        break;
                    }
                }
                _ => {}
            }
        }
        if let Some(o) = open {
            let inner: String = bytes[o + 1..close].iter().collect();
            let before: String = bytes[..o].iter().collect();
            let after: String = bytes[close + 1 + name.chars().count()..].iter().collect();
            return format!("{before}{inner}{after}");
        }
    }
    p.replace(name, WILD)
}

fn bind_var(g: &mut G, binds: &mut Vec<Bind>, ty: &GTy) -> String {
    let v = g.var("v");
    binds.push(Bind { name: v.clone(), ty: ty.clone() });
    v
}

impl<'a> G<'a> {
    pub fn new(r: &'a mut Rng) -> Self {
        G { r, fresh: 0, feats: BTreeSet::new(), in_tuple_pat: false, no_whole_bind: false }
    }
    fn feat(&mut self, s: &str) {
        self.feats.insert(s.to_string());
    }
    fn var(&mut self, p: &str) -> String {
        self.fresh += 1;
        format!("{p}{}", self.fresh)
    }
    fn rtag(&mut self) -> String {
        self.fresh += 1;
        format!("R{}", self.fresh)
    }

    // ---- types -------------------------------------------------------------------------

    /// gate (finding N8): a bare binder on a value whose type contains nil is typed as if the
    /// binder failed on nil (it does not), so nil never appears as a declared leaf / variant here;
    /// the witness lives in the regression corpus.
    pub fn leaf_ty(&mut self) -> GTy {
        match self.r.below(10) {
            0..=4 => GTy::Int,
            5..=6 => GTy::Bin,
            _ => tag(*self.r.pick(&NAMES)),
        }
    }

    pub fn tuple_ty(&mut self, depth: usize) -> GTy {
        let name = if self.r.chance(3, 4) { Some(self.r.pick(&NAMES).to_string()) } else { None };
        let n = 1 + self.r.usize(3);
        let labelled = self.r.chance(1, 2);
        let mut used = vec![];
        let mut fs = vec![];
        for _ in 0..n {
            let l = if labelled {
                let mut l = self.r.pick(&LABELS).to_string();
                while used.contains(&l) {
                    l = self.r.pick(&LABELS).to_string();
                }
                used.push(l.clone());
                Some(l)
            } else {
                None
            };
            let ft = if depth == 0 { self.leaf_ty() } else { self.ty(depth - 1) };
            fs.push((l, ft));
        }
        GTy::Tup(name, fs)
    }

    /// union with variants distinguishable by constructor (plus near-miss twins now and then)
    pub fn union_ty(&mut self, depth: usize) -> GTy {
        let n = 2 + self.r.usize(3);
        let mut vs: Vec<GTy> = vec![];
        let mut tries = 0;
        while vs.len() < n && tries < 20 {
            tries += 1;
            let v = match self.r.below(10) {
                0..=1 => GTy::Int,
                2 => GTy::Bin,
                3..=4 => tag(*self.r.pick(&NAMES)),
                _ => self.tuple_ty(depth.saturating_sub(1)),
            };
            // keep variants pairwise different; same-name twins allowed with low probability
            let clash = vs.iter().any(|w| {
                w == &v
                    || match (w, &v) {
                        // same-named twins (also of the same size with different labels: N16,
                        // repaired by e0ad7de) are kept with low probability
                        (GTy::Tup(a, _), GTy::Tup(b, _)) => a == b && !self.r.chance(1, 6),
                        _ => false,
                    }
            });
            if !clash {
                vs.push(v);
            }
        }
        if vs.len() < 2 {
            vs = vec![GTy::Int, tag("A")];
        }
        GTy::Union(vs)
    }

    pub fn ty(&mut self, depth: usize) -> GTy {
        if depth == 0 {
            return self.leaf_ty();
        }
        match self.r.below(12) {
            0..=2 => self.leaf_ty(),
            3..=5 => self.tuple_ty(depth - 1),
            6..=8 => self.union_ty(depth - 1),
            9 => {
                let e = if self.r.chance(1, 3) { self.union_ty(0) } else { self.leaf_ty() };
                GTy::List(Box::new(e))
            }
            10 => GTy::Opt(Box::new(self.leaf_ty())),
            _ => GTy::Tree(Box::new(self.leaf_ty())),
        }
    }

    pub fn aliases_for(&self, tys: &[&GTy]) -> Vec<String> {
        let mut v = vec![];
        if tys.iter().any(|t| t.uses_alias("list")) {
            v.push(LIST_ALIAS.to_string());
        }
        if tys.iter().any(|t| t.uses_alias("tree")) {
            v.push(TREE_ALIAS.to_string());
        }
        if tys.iter().any(|t| t.uses_alias("opt")) {
            v.push(OPT_ALIAS.to_string());
        }
        v
    }

    // ---- values ------------------------------------------------------------------------

    /// a handful of inhabitants of `ty` (structurally enumerated, bounded)
    pub fn values(&mut self, ty: &GTy, depth: usize) -> Vec<GVal> {
        match ty {
            GTy::Int => vec![GVal::Int(0), GVal::Int(1), GVal::Int(2), GVal::Int(7)],
            GTy::Bin => vec![GVal::Bin(vec![]), GVal::Bin(vec![0]), GVal::Bin(vec![1, 2])],
            GTy::Var(_) => vec![GVal::Int(3)],
            GTy::Tup(n, fs) => {
                let mut rows: Vec<Vec<(Option<String>, GVal)>> = vec![vec![]];
                for (l, ft) in fs {
                    let vals = self.values(ft, depth.saturating_sub(1));
                    let mut next = vec![];
                    for row in &rows {
                        for v in vals.iter().take(3) {
                            let mut r2 = row.clone();
                            r2.push((l.clone(), v.clone()));
                            next.push(r2);
                        }
                    }
                    // keep the product small but varied
                    self.r.shuffle(&mut next);
                    next.truncate(6);
                    rows = next;
                }
                rows.into_iter().map(|r| GVal::Tup(n.clone(), r)).collect()
            }
            GTy::Union(_) | GTy::List(_) | GTy::Tree(_) | GTy::Opt(_) => {
                let mut out = vec![];
                for v in ty.variants() {
                    let recursive = matches!(&v, GTy::Tup(_, fs) if fs.iter().any(|(_, t)| t == ty));
                    if recursive && depth == 0 {
                        continue;
                    }
                    let vals = self.values(&v, depth.saturating_sub(1));
                    out.extend(vals.into_iter().take(if recursive { 4 } else { 3 }));
                }
                out
            }
            GTy::Fn(p, r) => {
                // a constant function and (when possible) the identity
                let rv = self.values(r, 1);
                let mut out = vec![];
                if let Some(v) = rv.first() {
                    out.push(GVal::Fun(format!("#{} {{ {} }}", p.param_src(), v.src())));
                }
                if p == r {
                    out.push(GVal::Fun(format!("#{} {{ $ }}", p.param_src())));
                }
                out
            }
            GTy::Part(n, fs) => {
                // aligned, extra field in front, extra field behind, other name
                let mut base: Vec<(Option<String>, GVal)> = vec![];
                for (l, ft) in fs {
                    let v = self.values(ft, depth.saturating_sub(1));
                    base.push((Some(l.clone()), v[self.r.usize(v.len())].clone()));
                }
                let nm = n.clone();
                let mut out = vec![GVal::Tup(nm.clone(), base.clone())];
                let mut behind = base.clone();
                behind.push((Some("zz".into()), GVal::Bin(vec![9])));
                out.push(GVal::Tup(nm.clone(), behind));
                if n.is_none() {
                    out.push(GVal::Tup(Some("Q".into()), base.clone()));
                }
                out
            }
        }
    }

    // ---- patterns ----------------------------------------------------------------------

    /// A pattern for a value of type `ty`. Returns (source without the leading `=`, has a value
    /// test). Binders are appended to `binds` with their *declared* position type.
    pub fn pat(&mut self, ty: &GTy, depth: usize, binds: &mut Vec<Bind>, allow_bind: bool) -> (String, bool) {
        let bind = bind_var;
        if ty.is_union_like() {
            let vs = ty.variants();
            let k = self.r.below(20);
            // gate (finding N6): a binder at a recursive position of a tree gets a mis-resolved
            // back-reference as its type; do not bind whole sub-trees
            if k < 3 && allow_bind {
                return (bind(self, binds, ty), false);
            }
            if k < 5 {
                return (WILD.into(), false);
            }
            if k < 7 && vs.len() >= 2 && depth > 0 && !self.in_tuple_pat {
                // alternation of two variants, no binders (never inside a tuple pattern: N11)
                self.feat("pat:alternation");
                let i = self.r.usize(vs.len());
                let mut j = self.r.usize(vs.len());
                if j == i {
                    j = (i + 1) % vs.len();
                }
                // gate (finding N10): an alternative that constrains nested structure is
                // subtracted as its whole variant; members are flat here (depth 0)
                // (and never partial patterns: finding N11). Over a recursive alias the members
                // may constrain nested structure (8b75929 repaired that half of N10; the variants
                // of 'list / 'tree carry no labels, so no partial patterns arise).
                if matches!(ty, GTy::List(_) | GTy::Tree(_)) && self.r.chance(1, 2) {
                    self.feat("pat:alternation-nested-recursive");
                    let mut none = vec![];
                    let saved = self.in_tuple_pat;
                    self.in_tuple_pat = true; // no alternation inside the members
                    let (p1, v1) = self.pat(&vs[i], 1, &mut none, false);
                    let (p2, v2) = self.pat(&vs[j], 1, &mut none, false);
                    self.in_tuple_pat = saved;
                    return (format!("({p1} | {p2})"), v1 || v2);
                }
                let (p1, v1) = self.flat_pat(&vs[i]);
                let (p2, v2) = self.flat_pat(&vs[j]);
                return (format!("({p1} | {p2})"), v1 || v2);
            }
            if k < 9 && allow_bind {
                // type-ascribed binding at one variant's type
                self.feat("pat:typed-bind");
                let v = &vs[self.r.usize(vs.len())];
                if !matches!(v, GTy::Tup(_, fs) if fs.iter().any(|(_, t)| t == ty)) {
                    let name = bind(self, binds, v);
                    return (format!("({}){}", v.src(), name), false);
                }
            }
            let v = vs[self.r.usize(vs.len())].clone();
            // the position's type is the union: a binder of the WHOLE value here must not be
            // recorded at the variant's type (inner binders are fine)
            return match &v {
                GTy::Tup(name, fs) if !fs.is_empty() => {
                    let saved = (self.in_tuple_pat, self.no_whole_bind);
                    self.in_tuple_pat = true;
                    self.no_whole_bind = true;
                    let res = self.tuple_pat(&v, name, fs, depth, binds, allow_bind);
                    self.in_tuple_pat = saved.0;
                    self.no_whole_bind = saved.1;
                    res
                }
                _ => self.pat(&v, depth, binds, false),
            };
        }
        match ty {
            GTy::Int => match self.r.below(10) {
                0..=2 if allow_bind => (bind(self, binds, ty), false),
                3..=4 => (WILD.into(), false),
                5..=7 => {
                    self.feat("pat:int-literal");
                    (self.r.pick(&[0i64, 1, 2]).to_string(), true)
                }
                8 => ("'int".into(), false),
                _ if allow_bind => {
                    self.feat("pat:typed-bind");
                    let n = bind(self, binds, ty);
                    (format!("('int){n}"), false)
                }
                _ => (WILD.into(), false),
            },
            GTy::Bin => match self.r.below(8) {
                0..=2 if allow_bind => (bind(self, binds, ty), false),
                3..=4 => (WILD.into(), false),
                5..=6 => {
                    self.feat("pat:bin-literal");
                    (self.r.pick(&["0x", "0x00"]).to_string(), true)
                }
                _ => ("'bin".into(), false),
            },
            GTy::Tup(name, fs) => {
                if fs.is_empty() {
                    return (name.clone().unwrap_or_else(|| "[]".into()), false);
                }
                let saved = self.in_tuple_pat;
                self.in_tuple_pat = true;
                let res = self.tuple_pat(ty, name, fs, depth, binds, allow_bind);
                self.in_tuple_pat = saved;
                res
            }
            GTy::Part(_, _) | GTy::Fn(_, _) | GTy::Var(_) => {
                if allow_bind && self.r.chance(2, 3) {
                    (bind_var(self, binds, ty), false)
                } else {
                    (WILD.into(), false)
                }
            }
            _ => (WILD.into(), false),
        }
    }

    fn tuple_pat(
        &mut self,
        ty: &GTy,
        name: &Option<String>,
        fs: &[(Option<String>, GTy)],
        depth: usize,
        binds: &mut Vec<Bind>,
        allow_bind: bool,
    ) -> (String, bool) {
        let bind = bind_var;
        {
            {
                let k = self.r.below(12);
                let whole_ok = !self.no_whole_bind;
                self.no_whole_bind = false;
                if k == 0 && allow_bind && whole_ok {
                    return (bind(self, binds, ty), false);
                }
                if k == 1 && !fs.iter().any(|(_, t)| t.is_union_like()) {
                    // the type itself as a pattern (a union-typed field would be an alternation
                    // inside a tuple pattern: gate N11)
                    self.feat("pat:type-ref");
                    // written field by field so that tuple-typed fields carry the K7 marker (a
                    // type like `[P]` is syntactically a tuple pattern with a nested tuple pattern)
                    let parts: Vec<String> = fs
                        .iter()
                        .map(|(l, ft)| {
                            let fsrc = ft.src_n(true);
                            let fsrc = if fsrc.starts_with(|c: char| c.is_ascii_uppercase() || c == '[') {
                                format!("\u{27E6}{fsrc}\u{27E7}")
                            } else {
                                fsrc
                            };
                            match l {
                                Some(l) => format!("{l}: {fsrc}"),
                                None => fsrc,
                            }
                        })
                        .collect();
                    return (format!("{}[{}]", name.clone().unwrap_or_default(), parts.join(", ")), false);
                }
                let labelled = fs.iter().all(|(l, _)| l.is_some());
                if k <= 3 && labelled {
                    // partial pattern over a subset of the labels (K9 marker: also the full form)
                    self.feat("pat:partial");
                    let mut val = false;
                    let mut parts = vec![];
                    let mut fullparts = vec![];
                    let mut any = false;
                    for (fi, (l, ft)) in fs.iter().enumerate() {
                        let force = !any && fi + 1 == fs.len();
                        if force || self.r.chance(2, 3) {
                            any = true;
                            let (p, v) = if depth == 0 {
                                (if allow_bind { bind(self, binds, ft) } else { WILD.into() }, false)
                            } else {
                                self.pat(ft, depth - 1, binds, allow_bind)
                            };
                            val |= v;
                            parts.push(format!("{}: {}", l.as_ref().unwrap(), p));
                            fullparts.push(format!("{}: {}", l.as_ref().unwrap(), p));
                        } else {
                            fullparts.push(format!("{}: _", l.as_ref().unwrap()));
                        }
                    }
                    let nm = if self.r.chance(1, 2) { name.clone().unwrap_or_default() } else { String::new() };
                    return (
                        format!(
                            "\u{27EA}{nm}({})\u{27EB}\u{27EC}{}[{}]\u{27ED}",
                            parts.join(", "),
                            name.clone().unwrap_or_default(),
                            fullparts.join(", ")
                        ),
                        val,
                    );
                }
                // full positional / labelled pattern
                let mut val = false;
                let mut parts = vec![];
                let use_labels = labelled; // a positional pattern never matches a labelled tuple
                for (l, ft) in fs {
                    let (p, v) = if depth == 0 {
                        match self.r.below(3) {
                            0 if allow_bind => (bind(self, binds, ft), false),
                            _ => (WILD.into(), false),
                        }
                    } else {
                        self.pat(ft, depth - 1, binds, allow_bind)
                    };
                    val |= v;
                    // K7 marker: a nested tuple sub-pattern (rendered `(P | P)` under the repair)
                    let p = if p.starts_with(|c: char| c.is_ascii_uppercase() || c == '[') {
                        format!("\u{27E6}{p}\u{27E7}")
                    } else {
                        p
                    };
                    if use_labels {
                        parts.push(format!("{}: {}", l.as_ref().unwrap(), p));
                    } else {
                        parts.push(p);
                    }
                }
                (format!("{}[{}]", name.clone().unwrap_or_default(), parts.join(", ")), val)
            }
        }
    }

    /// a flat pattern for one variant: constructor with wildcards, a type, or a literal
    pub fn flat_pat(&mut self, ty: &GTy) -> (String, bool) {
        match ty {
            GTy::Int => {
                if self.r.chance(1, 3) {
                    self.feat("pat:int-literal");
                    (self.r.pick(&[0i64, 1, 2]).to_string(), true)
                } else {
                    ("'int".into(), false)
                }
            }
            GTy::Bin => ("'bin".into(), false),
            GTy::Tup(name, fs) => {
                if fs.is_empty() {
                    return (name.clone().unwrap_or_else(|| "[]".into()), false);
                }
                let parts: Vec<String> = fs
                    .iter()
                    .map(|(l, _)| match l {
                        Some(l) => format!("{l}: _"),
                        None => "_".to_string(),
                    })
                    .collect();
                (format!("{}[{}]", name.clone().unwrap_or_default(), parts.join(", ")), false)
            }
            _ => ("_".into(), false),
        }
    }

    // ---- uses --------------------------------------------------------------------------

    /// A type-demanding use of expression `e` believed to have type `ty`; falls back to `e`.
    pub fn demanding_use(&mut self, e: Node, ty: &GTy, depth: usize) -> Node {
        match ty {
            GTy::Int => {
                self.feat("use:int-builtin");
                let op = *self.r.pick(&["__integer_add__", "__integer_multiply__", "__integer_subtract__"]);
                cat(vec![t("["), e, t(&format!(", 1] {op}"))])
            }
            GTy::Bin => {
                self.feat("use:bin-builtin");
                cat(vec![e, t(" __binary_length__")])
            }
            GTy::Tup(tname, fs) if !fs.is_empty() && depth > 0 => {
                let i = self.r.usize(fs.len());
                let (l, ft) = &fs[i];
                // gate (finding N6): field access into a recursive position of a narrowed
                // recursive type yields a dangling back-reference

                let acc = Acc {
                    idx: i,
                    by_name: match l {
                        Some(l) if self.r.chance(3, 4) => Some(l.clone()),
                        _ => None,
                    },
                    labels: fs.iter().map(|(l, _)| l.clone()).collect(),
                    tname: tname.clone(),
                };
                self.feat("use:field-access");
                let f = Node::Field(Box::new(e), acc);
                if self.r.chance(1, 2) { self.demanding_use(f, ft, depth - 1) } else { f }
            }
            GTy::Fn(p, r) => {
                self.feat("use:call");
                let vals = self.values(p, 1);
                match vals.first() {
                    Some(v) => {
                        // a function-typed variable in a chain is called with the flowing value
                        let call = cat(vec![t(&format!("{} ", v.src())), e]);
                        if self.r.chance(1, 2) { self.demanding_use(call, r, depth.saturating_sub(1)) } else { call }
                    }
                    None => e,
                }
            }
            _ => e,
        }
    }

    /// consequence of a branch from its binders: a fresh result tag wrapping passive copies and
    /// demanding uses
    pub fn consequence(&mut self, binds: &[Bind]) -> Node {
        let tagname = self.rtag();
        if binds.is_empty() {
            return t(&tagname);
        }
        let mut parts: Vec<Node> = vec![];
        for b in binds.iter().take(3) {
            let e = t(&b.name);
            let n = if self.r.chance(1, 2) { self.demanding_use(e, &b.ty.clone(), 2) } else { e };
            parts.push(n);
        }
        let mut v = vec![t(&format!("{tagname}["))];
        for (i, p) in parts.into_iter().enumerate() {
            if i > 0 {
                v.push(t(", "));
            }
            v.push(p);
        }
        v.push(t("]"));
        cat(v)
    }

    /// top-level constructor of a pattern source (for the liberal coverage bookkeeping)
    fn liberal_cover(pat_src: &str, variants: &[GTy]) -> Vec<usize> {
        let p = pat_src.trim_start_matches(|c| c == '(' || c == '\u{27E6}' || c == '\u{27EA}');
        let mut out = vec![];
        for (i, v) in variants.iter().enumerate() {
            let hit = match v {
                GTy::Int => p.starts_with("'int") || p.chars().next().is_some_and(|c| c.is_ascii_digit() || c == '-'),
                GTy::Bin => p.starts_with("'bin") || p.starts_with("0x"),
                GTy::Tup(Some(n), _) => {
                    p.starts_with(n.as_str())
                        && !p[n.len()..].chars().next().is_some_and(|c| c.is_ascii_alphanumeric())
                }
                GTy::Tup(None, fs) => {
                    if fs.is_empty() { p.starts_with("[]") } else { p.starts_with('[') }
                }
                _ => false,
            };
            if hit {
                out.push(i);
            }
        }
        out
    }

    /// The branches of a block dispatching on a scrutinee of type `ty` (the block's input).
    /// Later branches may use the input *optimistically*: as if every variant whose constructor
    /// an earlier pattern mentions had been excluded (liberal complement) — a sound compiler must
    /// reject those programs whenever the earlier pattern also tests values.
    pub fn dispatch_block(&mut self, ty: &GTy, depth: usize) -> Node {
        let variants = ty.variants();
        let n = 1 + self.r.usize(4);
        let mut branches = vec![];
        let mut covered: BTreeSet<usize> = BTreeSet::new();
        // gate (finding N6): a complement-narrowed recursive type keeps a dangling back-reference;
        // embedding the narrowed scrutinee in a result mis-types it. For recursive scrutinees the
        // later branches therefore never bind or embed the whole input.
        let recursive = false;
        for bi in 0..n {
            let last = bi + 1 == n;
            // optimistic fallback: use the input as the single liberally-uncovered variant
            let uncovered: Vec<usize> = (0..variants.len()).filter(|i| !covered.contains(i)).collect();
            if recursive && last && bi > 0 && self.r.chance(1, 2) {
                let tagname = self.rtag();
                branches.push(t(&tagname));
                break;
            }
            if !recursive && bi > 0 && uncovered.len() == 1 && self.r.chance(1, 2) {
                let v = variants[uncovered[0]].clone();
                self.feat("narrow:optimistic-complement-use");
                let tagname = self.rtag();
                let how = self.r.below(3);
                let e = match how {
                    0 => {
                        let x = self.var("v");
                        let u = self.demanding_use(t(&x), &v, 2);
                        cat(vec![t(&format!("={x} => {tagname}[")), u, t("]")])
                    }
                    1 => {
                        let u = self.demanding_use(t("$"), &v, 2);
                        cat(vec![t(&format!("{tagname}[")), u, t("]")])
                    }
                    _ => {
                        let u = self.demanding_use(t("~"), &v, 2);
                        cat(vec![t(&format!("{tagname}[")), u, t("]")])
                    }
                };
                branches.push(e);
                break;
            }
            if !recursive && last && self.r.chance(1, 3) {
                // plain fallback
                self.feat("branch:fallback");
                let tagname = self.rtag();
                let e = match self.r.below(3) {
                    0 => t(&tagname),
                    1 => {
                        let x = self.var("v");
                        t(&format!("={x} => {tagname}[{x}]"))
                    }
                    _ => t(&format!("{tagname}[$]")),
                };
                branches.push(e);
                break;
            }
            let mut binds = vec![];
            let (mut p, val) = self.pat(ty, depth, &mut binds, true);
            if recursive && bi > 0 && binds.iter().any(|b| b.name == p) {
                // a bare whole-value binder on a narrowed recursive scrutinee (gate N6)
                binds.retain(|b| b.name != p);
                p = "_".into();
            }
            if matches!(ty, GTy::List(_) | GTy::Tree(_)) && binds.len() == 1 && !self.r.chance(1, 2) {
                // N12 (a pattern with exactly one binder on a recursive scrutinee typed the binder
                // as the whole narrowed cell) is repaired by cf8f770: the lone binder is kept half
                // of the time; otherwise an unused second binder is added, or the binder dropped
                if p.contains(WILD) {
                    let extra = self.var("u");
                    p = p.replacen(WILD, &extra, 1);
                } else {
                    let b = binds.remove(0);
                    p = drop_binder(&p, &b.name);
                }
            }
            for i in Self::liberal_cover(&p, &variants) {
                covered.insert(i);
            }
            if val {
                self.feat("branch:value-pattern");
            }
            // optional guard on an int binder
            let mut cond = format!("={p}");
            if let Some(b) = binds.iter().find(|b| b.ty == GTy::Int)
                && self.r.chance(1, 6)
            {
                self.feat("branch:guard");
                cond.push_str(&format!(", [{}, 1] __integer_compare__ =1", b.name));
            }
            let cons = if depth > 0 && self.r.chance(1, 6) && !binds.is_empty() {
                // nested dispatch on a binder
                self.feat("branch:nested-block");
                let b = binds[self.r.usize(binds.len())].clone();
                let inner = self.dispatch_block(&b.ty, depth - 1);
                cat(vec![t(&format!("{} ", b.name)), inner])
            } else {
                self.consequence(&binds)
            };
            // a top-level alternation `(P1 | P2)` (no binders, tag consequence): under the N10
            // repair the branch is written as two branches `=P1 => C | =P2 => C`
            if binds.is_empty() && p.starts_with('(') && p.ends_with(')') && p.contains(" | ") && cond == format!("={p}") {
                if let Node::T(ctext) = &cons {
                    let inner = &p[1..p.len() - 1];
                    // split at the top-level bar (members are flat: no nested parentheses with bars)
                    let mut depth_p = 0i32;
                    let mut cut = None;
                    let cs: Vec<char> = inner.chars().collect();
                    for k in 0..cs.len() {
                        match cs[k] {
                            '(' | '[' => depth_p += 1,
                            ')' | ']' => depth_p -= 1,
                            '|' if depth_p == 0 && k > 0 && cs[k - 1] == ' ' => {
                                cut = Some(k);
                                break;
                            }
                            _ => {}
                        }
                    }
                    if let Some(k) = cut {
                        let p1: String = cs[..k].iter().collect::<String>().trim().to_string();
                        let p2: String = cs[k + 1..].iter().collect::<String>().trim().to_string();
                        let joined = format!("={p} => {ctext}");
                        let split = format!("={p1} => {ctext} | ={p2} => {ctext}");
                        branches.push(t(&split_alt_choice(&joined, &split)));
                        continue;
                    }
                }
            }
            if self.r.chance(1, 8) && binds.is_empty() {
                // condition without consequence
                branches.push(t(&cond));
            } else {
                branches.push(cat(vec![t(&format!("{cond} => ")), cons]));
            }
        }
        Node::Block(branches)
    }
}
