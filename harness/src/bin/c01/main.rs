//! C01 — type soundness: accepted programs never get stuck on a type error, and a produced value
//! structurally inhabits the inferred result type.
//!
//! (a) guard differential: the call guard (`contains_variables` → `unify` + `substitute`, else
//!     `is_compatible`) of the real compiler, reached through source programs, against the Lean
//!     guards model (`QM.Soundness.callGuard`);
//! (b) end-to-end oracle on generated, type-feature-crossing programs and on the corpora:
//!     every ACCEPTED program is run; a stuck error or a result outside the inferred type is a
//!     concrete violation (replay = source). Known findings are classified by *repair
//!     differentials*: the suspected unsound mechanism is neutralised (in the source, in the
//!     argument, or in the model's rule set) and the finding applies iff the failure disappears;
//!     see `classify`. Anything that no repair explains is a VIOLATION.
mod families;
mod frag;
mod gen_;
mod oracle;

use gen_::{Arg, Prog, Repair};
use oracle::*;
use qverif::run::{Builtins, FrontError, Unit, compile_source};
use qverif::{Ev, Model, Opts, Rng};
use quiver_core::types::Type;
use serde_json::json;
use std::collections::HashMap;

/// What happened to one source program.
#[derive(Clone, Debug, PartialEq)]
pub enum Kind {
    ParseError,
    Rejected,
    FrontPanic,
    /// value inhabits the inferred result type
    Inhabits,
    /// value does NOT inhabit the inferred result type
    NotInhabits,
    InhFuelOut,
    /// documented value-domain failure (InvalidArgument, OperationNotAllowed)
    DomainError(String),
    /// VM-level type / structure failure
    Stuck(String),
    VmPanic(String),
    FuelOut,
    NeedsSystem,
}

impl Kind {
    pub fn accepted(&self) -> bool {
        !matches!(self, Kind::ParseError | Kind::Rejected | Kind::FrontPanic)
    }
    /// does this outcome violate C01?
    pub fn fails(&self) -> bool {
        matches!(self, Kind::NotInhabits | Kind::Stuck(_) | Kind::VmPanic(_))
    }
    pub fn tag(&self) -> String {
        match self {
            Kind::ParseError => "parse-error".into(),
            Kind::Rejected => "rejected".into(),
            Kind::FrontPanic => "front-panic".into(),
            Kind::Inhabits => "value-inhabits".into(),
            Kind::NotInhabits => "value-NOT-inhabiting".into(),
            Kind::InhFuelOut => "inh-fuel-out".into(),
            Kind::DomainError(c) => format!("domain-error:{c}"),
            Kind::Stuck(c) => format!("stuck:{c}"),
            Kind::VmPanic(_) => "vm-panic".into(),
            Kind::FuelOut => "fuel-out".into(),
            Kind::NeedsSystem => "needs-system".into(),
        }
    }
}

#[derive(Clone, Debug)]
pub struct Judged {
    pub kind: Kind,
    /// compile error / runtime error text / value
    pub detail: String,
    /// inferred result type, formatted by the implementation
    pub result_type: String,
    pub value: Option<EV>,
}

pub struct Cx {
    pub b: Builtins,
    pub modules: HashMap<Vec<String>, String>,
    pub model: Model,
    pub slices: usize,
    pub judged: u64,
}

pub fn front(src: &str, cx: &Cx) -> Result<Unit, Judged> {
    let mk = |kind, detail| Judged { kind, detail, result_type: String::new(), value: None };
    match compile_source(src, &cx.modules, &cx.b) {
        Ok(u) => Ok(u),
        Err(FrontError::Parse(e)) => Err(mk(Kind::ParseError, e)),
        Err(FrontError::Compile(e)) => Err(mk(Kind::Rejected, e)),
        Err(FrontError::Panic(e)) => Err(mk(Kind::FrontPanic, e)),
    }
}

/// Compile `src` as a whole program, run it on the sync path, judge the outcome.
pub fn judge_sync(src: &str, cx: &mut Cx) -> Judged {
    cx.judged += 1;
    let unit = match front(src, cx) {
        Ok(u) => u,
        Err(j) => return j,
    };
    let rt = qverif::catch(|| quiver_core::format::format_type_by_id(&unit.program, unit.compiled_result_type))
        .unwrap_or_else(|_| "<unformattable>".into());
    let bc = unit.program.to_bytecode(Some(unit.entry));
    let mk = |kind, detail, value| Judged { kind, detail, result_type: rt.clone(), value };
    match run_bounded(bc, &cx.b, cx.slices) {
        Ran::Value(v, ex) => {
            let (table, inh, ev) = inh_requests_sync(&unit, &v, &ex);
            let shown = ev_show(&ev);
            let t = cx.model.ask(&table);
            if !t.starts_with("ok") {
                return mk(Kind::InhFuelOut, format!("model refused table: {t}"), Some(ev));
            }
            let a = cx.model.ask(&inh);
            let kind = match a.as_str() {
                "true" => Kind::Inhabits,
                "false" => Kind::NotInhabits,
                _ => Kind::InhFuelOut,
            };
            mk(kind, shown, Some(ev))
        }
        Ran::Error(e) => {
            let class = qverif::canon::error_class(&e);
            let kind = if qverif::canon::is_stuck_error(&e) { Kind::Stuck(class) } else { Kind::DomainError(class) };
            mk(kind, format!("{e:?}"), None)
        }
        Ran::Panic(p) => mk(Kind::VmPanic(p.lines().next().unwrap_or("").to_string()), p, None),
        Ran::FuelOut => mk(Kind::FuelOut, String::new(), None),
        Ran::NeedsSystem => mk(Kind::NeedsSystem, String::new(), None),
    }
}

/// Evaluate `src` through the REPL of a fresh one-worker system under the deterministic simulator
/// (fair rounds), judge the outcome. Used for programs that spawn / await.
pub fn judge_sim(src: &str, cx: &mut Cx) -> Judged {
    use qverif::sim::Sim;
    use quiver_environment::ReplError;
    cx.judged += 1;
    let mk = |kind, detail: String| Judged { kind, detail, result_type: String::new(), value: None };
    let r = qverif::catch(|| {
        let mut sim = Sim::new(1, None, cx.b.clone(), false).with_repl(cx.modules.clone());
        let req = match sim.submit(src) {
            Ok(Some(id)) => id,
            Ok(None) => return Err(mk(Kind::Rejected, "no code".into())),
            Err(ReplError::Parser(e)) => return Err(mk(Kind::ParseError, format!("{e:?}"))),
            Err(ReplError::Compiler(e)) => return Err(mk(Kind::Rejected, format!("{e:?}"))),
            Err(e) => return Err(mk(Kind::Rejected, format!("{e:?}"))),
        };
        let mut result = None;
        let finished = sim.run_fair(3000, |s| {
            if result.is_none() {
                result = s.poll_result(req);
            }
            result.is_some()
        });
        if !finished {
            return Err(mk(Kind::FuelOut, "hang / step budget".into()));
        }
        let rty: Type = sim.repl.as_ref().unwrap().get_last_result_type().clone();
        Ok((result.unwrap(), rty, sim))
    });
    let (res, rty, sim) = match r {
        Ok(Ok(x)) => x,
        Ok(Err(j)) => return j,
        Err(p) => return mk(Kind::VmPanic(p.lines().next().unwrap_or("").to_string()), p),
    };
    let prog = sim.env.get_program();
    let mut types: Vec<Type> = prog.get_types().clone();
    let rt_id = find_or_push(&mut types, rty.clone());
    let rt = qverif::catch(|| quiver_core::format::format_type(prog, &rty)).unwrap_or_else(|_| "<unformattable>".into());
    let mkr = |kind, detail: String, value| Judged { kind, detail, result_type: rt.clone(), value };
    match res {
        Ok((v, heap)) => {
            let fn_types: Vec<usize> = prog.get_functions().iter().map(|f| f.type_id).collect();
            let resources = prog.collect_resource_names();
            let consts = prog.get_constants();
            let bytes = |b: &quiver_core::value::Binary| match b {
                quiver_core::value::Binary::Heap(i) => heap.get(*i).cloned(),
                quiver_core::value::Binary::Constant(i) => match consts.get(*i) {
                    Some(quiver_core::bytecode::Constant::Binary(x)) => Some(x.clone()),
                    _ => None,
                },
            };
            let ecx = EraseCtx { tuples: prog.get_tuples(), fn_types: &fn_types, builtins: prog.get_builtins(), resources: &resources, bytes: &bytes };
            let ev = erase(&v, &ecx, &mut types);
            let mut it = Interner::default();
            let table = table_sx(&types, prog.get_tuples(), &mut it);
            let shown = ev_show(&ev);
            if !cx.model.ask(&table).starts_with("ok") {
                return mkr(Kind::InhFuelOut, "model refused table".into(), Some(ev));
            }
            let a = cx.model.ask(&format!("(inh {rt_id} {})", ev_sx(&ev, &mut it)));
            let kind = match a.as_str() {
                "true" => Kind::Inhabits,
                "false" => Kind::NotInhabits,
                _ => Kind::InhFuelOut,
            };
            mkr(kind, shown, Some(ev))
        }
        Err(e) => {
            let class = qverif::canon::error_class(&e);
            let kind = if qverif::canon::is_stuck_error(&e) { Kind::Stuck(class) } else { Kind::DomainError(class) };
            mkr(kind, format!("{e:?}"), None)
        }
    }
}

/// sync path, or the simulator for sources that spawn / select
pub fn judge(src: &str, cx: &mut Cx) -> Judged {
    if src.contains('@') || src.contains('!') { judge_sim(src, cx) } else { judge_sync(src, cx) }
}

fn probe(path: &str, cx: &mut Cx) {
    let text = std::fs::read_to_string(path).expect("probe file");
    for line in text.lines() {
        let line = line.trim();
        if line.is_empty() || line.starts_with("//") {
            continue;
        }
        let j = judge(line, cx);
        println!("{line}\n   => {} | type: {} | {}", j.kind.tag(), j.result_type, j.detail);
    }
}

// ---------------------------------------------------------------------------------------------
// classification of failures by repair differentials
// ---------------------------------------------------------------------------------------------

pub const SIG_TAIL: &str = "stuck=tailcall-arg-unchecked";
pub const SIG_FIELD_UNION: &str = "access=field-on-union-with-non-tuple-variant"; // fixed 548536f
pub const SIG_PARTIAL_POS: &str = "unsound=partial-field-resolved-by-declared-position";
pub const SIG_UNIFY_CYCLE: &str = "unsound=unify-cycle-arm-unchecked";
pub const SIG_UNIFY_MERGE: &str = "unify=union-union-widened-binding-dropped"; // fixed e4496af
pub const SIG_TABLE_TAIL: &str = "dispatch=tail-call-branch-never-in-table"; // fixed 7ed48d7
pub const SIG_FIELD_COMPL: &str = "narrow=field-complement-on-union-scrutinee"; // fixed 1d5e1cb
pub const SIG_FIELD_COMPL_TYPED: &str = "narrow=guard-forgets-own-field-test"; // fixed 18b909b
pub const SIG_PARTIAL_PAT: &str = "pattern=partial-on-union-with-non-tuple-variant"; // fixed fbadbb2
pub const SIG_REC_BACKREF: &str = "unsound=recursive-type-backreference-misresolved";
pub const SIG_ALT_REC: &str = "narrow=alternation-over-recursive-type-subtracts-variants"; // fixed 8b75929
pub const SIG_ALT: &str = "unsound=alternation-subtracts-whole-variant"; // fixed 8b75929 + e0ad7de
pub const SIG_REPEATED: &str = "narrow=repeated-identifier-in-tuple-field-complement"; // fixed 45c5ceb
pub const SIG_SINGLE_BINDER: &str = "unsound=lone-binder-inside-pattern-whole-provenance"; // fixed cf8f770

fn has_node(p: &Prog, f: &dyn Fn(&gen_::Node) -> bool) -> bool {
    fn go(n: &gen_::Node, f: &dyn Fn(&gen_::Node) -> bool) -> bool {
        if f(n) {
            return true;
        }
        match n {
            gen_::Node::Cat(v) | gen_::Node::Block(v) | gen_::Node::Steps(v) => v.iter().any(|c| go(c, f)),
            gen_::Node::Field(b, _) => go(b, f),
            _ => false,
        }
    }
    p.defs.iter().any(|(_, d)| go(d, f)) || go(&p.main, f)
}

/// (P, R, A) type ids and the table of the top-level call `{ARG} g` of a generics-family program.
fn generic_call_types(p: &Prog, arg: &str, cx: &mut Cx) -> Option<(Unit, usize, usize, usize)> {
    let g = p.generic_fn.as_ref()?;
    let mut helper = p.clone();
    helper.main = gen_::t(&format!("[&{g}, {{ARG}}]"));
    let src = helper.render(arg, &Repair::default());
    let unit = front(&src, cx).ok()?;
    let Type::Tuple(tid) = unit.program.get_types().get(unit.compiled_result_type)?.clone() else { return None };
    let info = unit.program.get_tuples().get(tid)?.clone();
    if info.fields.len() != 2 {
        return None;
    }
    let Type::Callable { parameter, result, .. } = unit.program.get_types().get(info.fields[0].1)?.clone() else {
        return None;
    };
    let a = info.fields[1].1;
    Some((unit, parameter, result, a))
}

/// Which known finding (if any) explains the failure `j` of `p` on `arg`?
pub fn classify(p: &Prog, arg: &Arg, j: &Judged, cx: &mut Cx) -> Option<&'static str> {
    let still_fails = |src: &str, cx: &mut Cx| judge(src, cx).kind.fails();
    // K1 (F5): the failure disappears when every tail-call argument is routed through an identity
    // function of the callee's parameter type, i.e. when the missing guard is put back
    if has_node(p, &|n| matches!(n, gen_::Node::TailGuard(_))) {
        let src = p.render(&arg.src, &Repair { guard_tail: true, ..Default::default() });
        if !still_fails(&src, cx) {
            return Some(SIG_TAIL);
        }
    }
    // K6: the function tail-calls itself and the failure disappears when the call is typed from
    // the whole function instead of the per-branch case table (argument widened to the declared
    // parameter type through the identity `w`)
    if has_node(p, &|n| matches!(n, gen_::Node::TailGuard(_))) && p.defs.iter().any(|(n, _)| n == "w") {
        let src = p.render(&arg.src, &Repair { widen_arg: true, ..Default::default() });
        if !still_fails(&src, cx) {
            return Some(SIG_TABLE_TAIL);
        }
    }
    // K7: the failure disappears when nested tuple sub-patterns are written as alternations
    // `(P | P)` (same meaning, but no field-specific complement is recorded for them)
    {
        let plain = p.render(&arg.src, &Repair::default());
        let src = p.render(&arg.src, &Repair { alt_subpat: true, ..Default::default() });
        if src != plain && !still_fails(&src, cx) {
            // N15 (open): on a single-tuple scrutinee, a branch that records a field-specific
            // complement followed by a branch with a type-ascribed binder in a field makes the
            // block count as exhaustive; 1d5e1cb repaired only the union-scrutinee case
            // (the later branch's field pattern is a type assertion: `('int)v` or `'int`); the
            // scrutinee is the tuple-of-unions parameter `#[(…), (…)]`
            let tuple_scrutinee = plain.contains("#[(");
            return Some(if tuple_scrutinee { SIG_FIELD_COMPL_TYPED } else { SIG_FIELD_COMPL });
        }
    }
    // K9: the failure disappears when partial patterns over a known tuple variant are written as
    // full patterns
    {
        let plain = p.render(&arg.src, &Repair::default());
        let src = p.render(&arg.src, &Repair { full_for_partial: true, ..Default::default() });
        if src != plain && !still_fails(&src, cx) {
            return Some(SIG_PARTIAL_PAT);
        }
    }
    // K3: the failure disappears when the argument's fields sit at the positions the partial
    // parameter type declares
    if let Some(al) = &arg.aligned_src {
        let src = p.render(al, &Repair::default());
        if !still_fails(&src, cx) {
            return Some(SIG_PARTIAL_POS);
        }
    }
    // K4 / K5: the guards model accepts the call under the current rules (as the compiler did)
    // but rejects it / types it differently under one alternative rule
    if let Some((unit, pp, rr, aa)) = generic_call_types(p, &arg.src, cx) {
        let mut it = Interner::default();
        let table = table_sx(unit.program.get_types(), unit.program.get_tuples(), &mut it);
        if cx.model.ask(&table).starts_with("ok") {
            let cur = cx.model.ask(&format!("(call cur {pp} {rr} {aa})"));
            if cur.starts_with("accept") {
                let strict = cx.model.ask(&format!("(call strict-cycle {pp} {rr} {aa})"));
                if strict == "reject" {
                    return Some(SIG_UNIFY_CYCLE);
                }
            }
            // the instance is sensitive to the union/union merge rule (defect repaired by e4496af)
            let oldm = cx.model.ask(&format!("(call old-merge {pp} {rr} {aa})"));
            if oldm != cur {
                return Some(SIG_UNIFY_MERGE);
            }
        }
    }
    // N10: the failure disappears when every alternation branch is written as one branch per
    // alternative
    {
        let plain = p.render(&arg.src, &Repair::default());
        let src = p.render(&arg.src, &Repair { split_alt: true, ..Default::default() });
        if src != plain && !still_fails(&src, cx) {
            // over a recursive alias: the defect repaired by 8b75929; otherwise the open label half
            let recursive = p.aliases.iter().any(|a| a == gen_::LIST_ALIAS || a == gen_::TREE_ALIAS);
            return Some(if recursive { SIG_ALT_REC } else { SIG_ALT });
        }
    }
    // C3: the failure disappears when repeated identifiers are written as a fresh binder plus a
    // separate pin step (`=[K[a], a2], a2 =&a`)
    {
        let plain = p.render(&arg.src, &Repair::default());
        let src = p.render(&arg.src, &Repair { unrepeat: true, ..Default::default() });
        if src != plain && !still_fails(&src, cx) {
            return Some(SIG_REPEATED);
        }
    }
    // K12: the failure disappears when every wildcard of the generated patterns is a fresh unused
    // binder (no pattern has exactly one binder any more)
    {
        let plain = p.render(&arg.src, &Repair::default());
        let src = p.render(&arg.src, &Repair { bind_wildcards: true, ..Default::default() });
        if src != plain {
            let r = judge(&src, cx);
            if r.kind.accepted() && !r.kind.fails() {
                return Some(SIG_SINGLE_BINDER);
            }
        }
    }
    // K6b: the failure disappears when the recursive aliases are replaced by finite unfoldings
    // (types without back-references): the cause is in the handling of `Cycle`
    {
        let plain = p.render(&arg.src, &Repair::default());
        let src = p.render(&arg.src, &Repair { unfold_rec: true, ..Default::default() });
        // N6 is about back-references: a value outside its inferred type is attributed to it only
        // when that type actually mentions one (`μ`); a stuck run shows no type to look at
        let mentions_backref = j.result_type.contains('μ') || !matches!(j.kind, Kind::NotInhabits);
        if src != plain && mentions_backref {
            let r = judge(&src, cx);
            // the unfolded program runs fine, or is rejected: the original was accepted only on the
            // mis-resolved type (N6 is broad: any use of a type taken out of a recursive alias)
            if (r.kind.accepted() && !r.kind.fails()) || r.kind == Kind::Rejected {
                return Some(SIG_REC_BACKREF);
            }
        }
    }
    // K2 (last of the single repairs: it is the least specific): the failure disappears when every
    // field access is a checked pattern match
    if has_node(p, &|n| matches!(n, gen_::Node::Field(_, _))) {
        let src = p.render(&arg.src, &Repair { checked_field: true, ..Default::default() });
        if !still_fails(&src, cx) {
            return Some(SIG_FIELD_UNION);
        }
    }
    // two known mechanisms at once (e.g. the field-specific complement mis-narrows the scrutinee
    // AND the lenient field access accepts the use): the failure disappears only when both are
    // neutralised; reported under the first one's signature
    {
        let plain = p.render(&arg.src, &Repair::default());
        let singles: [(&'static str, Repair); 5] = [
            (SIG_FIELD_COMPL, Repair { alt_subpat: true, ..Default::default() }),
            (SIG_PARTIAL_PAT, Repair { full_for_partial: true, ..Default::default() }),
            (SIG_SINGLE_BINDER, Repair { bind_wildcards: true, ..Default::default() }),
            (SIG_REC_BACKREF, Repair { unfold_rec: true, ..Default::default() }),
            (SIG_FIELD_UNION, Repair { checked_field: true, ..Default::default() }),
        ];
        for i in 0..singles.len() {
            for k in (i + 1)..singles.len() {
                let (a, b) = (singles[i].1, singles[k].1);
                let both = Repair {
                    guard_tail: false,
                    checked_field: a.checked_field || b.checked_field,
                    alt_subpat: a.alt_subpat || b.alt_subpat,
                    widen_arg: false,
                    full_for_partial: a.full_for_partial || b.full_for_partial,
                    unfold_rec: a.unfold_rec || b.unfold_rec,
                    bind_wildcards: a.bind_wildcards || b.bind_wildcards,
                    unrepeat: false,
                    split_alt: false,
                };
                let s1 = p.render(&arg.src, &a);
                let s2 = p.render(&arg.src, &b);
                if s1 == plain || s2 == plain {
                    continue;
                }
                let src = p.render(&arg.src, &both);
                let r = judge(&src, cx);
                if (r.kind.accepted() && !r.kind.fails()) || (r.kind == Kind::Rejected && matches!(j.kind, Kind::Stuck(_))) {
                    return Some(singles[i].0);
                }
            }
        }
    }
    None
}

/// Greedy structural shrinking: keep a reduction while the program is still accepted and fails
/// with the same outcome tag (and is still unexplained by the known findings).
fn shrink(p: &Prog, arg: &Arg, tag: &str, cx: &mut Cx, budget: usize) -> Prog {
    let mut cur = p.clone();
    let mut used = 0;
    'outer: loop {
        for cand in cur.reductions() {
            if used >= budget {
                break 'outer;
            }
            used += 1;
            let src = cand.render(&arg.src, &Repair::default());
            let j = judge(&src, cx);
            if j.kind.fails() && j.kind.tag() == tag && classify(&cand, arg, &j, cx).is_none() {
                cur = cand;
                continue 'outer;
            }
        }
        break;
    }
    cur
}

fn report_failure(ev: &mut Ev, p: &Prog, arg: &Arg, j: &Judged, cx: &mut Cx, origin: &str) {
    let sig = classify(p, arg, j, cx);
    let src = p.render(&arg.src, &Repair::default());
    match sig {
        Some(s) => {
            let what = match s {
                SIG_TAIL => "accepted program gets stuck through a tail call whose argument is never checked against the parameter type (F5; the failure disappears when the argument is routed through an identity function of that type)",
                SIG_FIELD_UNION => "field access on a union type is typed from its tuple variants only: a non-tuple (or nil) variant reaches the access at run time (the failure disappears when the access is a checked pattern match)",
                SIG_PARTIAL_POS => "a field of a partial-typed value is resolved at the position the partial type declares it, not where the value carries it (the failure disappears when the argument's fields are reordered to the declared positions)",
                SIG_UNIFY_CYCLE => "unify accepts anything at a Cycle (back-reference) position: a heterogeneous recursive value binds the type variable from its first element only (the guards model rejects the call under the strict cycle rule)",
                SIG_TABLE_TAIL => "a call typed through the callee's case table gets `never` from a branch that ends in a tail call, although the tail call's result comes from the other branches (the failure disappears when the argument is widened to the declared parameter type)",
                SIG_FIELD_COMPL => "a tuple pattern with one nested tuple sub-pattern records a field-specific complement computed from the FIRST tuple variant of the scrutinee, also when the scrutinee is a union: later branches / exhaustiveness are typed as if the other variants did not exist (the failure disappears when the sub-pattern is written `(P | P)`)",
                SIG_PARTIAL_PAT => "a partial pattern `(a: p)` / `N(a: p)` against a union is analysed over the tuple variants only: a non-tuple variant reaches the field extraction at run time (or is silently matched) (the failure disappears when the pattern is written as a full tuple pattern)",
                SIG_REC_BACKREF => "a type taken out of a recursive alias (binder at a recursive position, field access or embedding of a complement-narrowed recursive value, case-table guard) keeps a `Cycle` back-reference that is later resolved against the wrong enclosing boundary (the failure disappears when the alias is replaced by a finite unfolding)",
                SIG_SINGLE_BINDER => "a destructuring pattern with exactly one binder gives that binder the provenance of the whole matched value (compile_match: `bindings.len() == 1`), so the narrowing of the value re-types the binder (observed on recursive aliases: `=Cons[_, t] => t` types `t` as the Cons cell) (the failure disappears when the wildcards are unused binders)",
                SIG_REPEATED => "a repeated identifier in a tuple pattern (`=[K[a], a]`) is an equality requirement, but the pattern still takes part in the per-field complement narrowing of later branches (the failure disappears when the repetition is written as a fresh binder plus a pin step)",
                SIG_FIELD_COMPL_TYPED => "tuple-typed parameter: after a branch that records a field-specific complement (`=[D] => …`), a branch whose field pattern is a type assertion (`=[('int)v] => …`, `=[_, 'int] => …`) makes the block count as exhaustive although other variants of the field remain (the failure disappears when the nested sub-pattern of the first branch is written `(P | P)`)",
                SIG_ALT_REC => "an alternation with a nested pattern over a recursive type is subtracted as its whole variant (repaired by 8b75929)",
                SIG_ALT => "complement narrowing / exhaustiveness subtracts every alternative of an alternation pattern as its whole variant, also when the alternative cannot match that variant (e.g. a positional `B[_]` against a labelled twin `B[a: 'int]`) or constrains nested structure (the failure disappears when the branch is written as one branch per alternative)",
                SIG_UNIFY_MERGE => "unify's union/union arm skips a widened binding that is not assignable to the existing one, losing the widening (the guards model types the call correctly under the take-widened rule)",
                _ => "known finding",
            };
            ev.hit(&format!("known:{s}:{}", j.kind.tag()));
            ev.violation(s, what, json!({"source": src, "argument": arg.src, "outcome": j.kind.tag(), "detail": j.detail, "inferred_type": j.result_type}), true);
        }
        None => {
            let tag = j.kind.tag();
            let small = if ev.violation_count() < 4 { shrink(p, arg, &tag, cx, 150) } else { p.clone() };
            let ssrc = small.render(&arg.src, &Repair::default());
            let sj = judge(&ssrc, cx);
            let sig = format!("unexplained {tag} family={} origin={origin}", p.family);
            let what = format!(
                "ACCEPTED program violates type soundness: outcome {} ({}), inferred result type `{}`; minimised source: {}",
                sj.kind.tag(),
                sj.detail.lines().next().unwrap_or(""),
                sj.result_type,
                ssrc.replace('\n', " ")
            );
            ev.hit(&format!("VIOLATION:{tag}"));
            ev.violation(
                &sig,
                &what,
                json!({"source": ssrc, "unshrunk_source": src, "argument": arg.src, "outcome": sj.kind.tag(),
                       "detail": sj.detail, "inferred_type": sj.result_type, "family": p.family,
                       "features": p.features}),
                true,
            );
        }
    }
}

// ---------------------------------------------------------------------------------------------
// (a) guard differential through source programs
// ---------------------------------------------------------------------------------------------

/// Does the compiler keep the CALLER's type variables apart from the callee's in `unify` (repair
/// 10)? Decided on a harmless canary: before the repair `[$, 1] g` inside `h = #<'a>'a` binds g's
/// `'a` to `'int` only. Crosswise shared-name instances overflow the stack of an unrepaired
/// compiler (a SIGABRT no handler can catch), so they are generated only when this is true.
pub fn caller_variables_opaque(cx: &Cx) -> bool {
    match front("g = #<'a>['a, 'a] { $0 },\nh = #<'a>'a { [$, 1] g },\n&h", cx) {
        Ok(u) => qverif::catch(|| quiver_core::format::format_type_by_id(&u.program, u.compiled_result_type))
            .map(|t| t.contains("'a | 'int") || t.contains("'int | 'a"))
            .unwrap_or(false),
        Err(_) => false,
    }
}

fn guard_differential(ev: &mut Ev, cx: &mut Cx, seed: u64, n: u64) {
    use gen_::{G, GTy};
    // repaired by 3356709. The canary stays: a compiler without the repair overflows its stack on
    // the shared-name instances (SIGABRT, uncatchable), so a revert is REPORTED here and the
    // instances are not generated for it.
    let opaque = caller_variables_opaque(cx);
    ev.hit(if opaque { "guard:caller-variables-opaque" } else { "guard:caller-variables-shared(crosswise pairs not generated)" });
    if !opaque {
        ev.violation(
            "unify=callers-type-variable-taken-for-callees",
            "typing::unify confuses the caller's type variables with the callee's again (repair 3356709 missing): `g = #<'a>['a, 'a] { $0 }, h = #<'a>'a { [$, 1] g }` types h as #'a -> 'int; crosswise shared-name calls overflow the compiler's stack",
            json!({"source": "g = #<'a>['a, 'a] { $0 },\nh = #<'a>'a { [$, 1] g },\n0xff h"}),
            true,
        );
    }
    for i in 0..n {
        let mut r = Rng::for_case(seed ^ 0x6A4D, i);
        let mut g = G::new(&mut r);
        // a parameter type with variables: take a closed type and abstract some leaves
        let base = g.ty(2);
        let with_vars = abstract_leaves(&base, &mut g);
        // an argument type: the base itself, a sibling, or an unrelated type (near-miss biased)
        let arg_ty = match g.r.below(6) {
            0..=2 => perturb(&base, &mut g),
            3 => base.clone(),
            4 => GTy::Union(vec![base.clone(), g.leaf_ty()]),
            _ => g.ty(2),
        };
        // a GENERIC caller whose type parameters have the callee's names: its argument type
        // mentions 't / 'u too (the same leaves abstracted differently, unions mentioning them)
        let shared = opaque && g.r.chance(1, 4);
        let arg_ty = if shared {
            ev.hit("guard:shared-name-generic-caller");
            let a = abstract_leaves(&arg_ty, &mut g);
            if g.r.chance(1, 3) { GTy::Union(vec![a, GTy::Var(if g.r.chance(1, 2) { "t".into() } else { "u".into() })]) } else { a }
        } else {
            arg_ty
        };
        let aliases = g.aliases_for(&[&with_vars, &arg_ty]);
        let vars = "<'t, 'u>";
        let gvars = if shared { vars } else { "" };
        let head = aliases.iter().map(|a| format!("{a},\n")).collect::<String>();
        let p1 = format!(
            "{head}f = #{vars}{} {{ $ }},\ng = #{gvars}{} {{ 0 }},\n[&f, &g]",
            with_vars.param_src(),
            arg_ty.param_src()
        );
        let p2 = format!(
            "{head}f = #{vars}{} {{ $ }},\ng = #{gvars}{} {{ $ f }},\n0",
            with_vars.param_src(),
            arg_ty.param_src()
        );
        let Ok(u1) = front(&p1, cx) else {
            ev.hit("guard:types-not-accepted");
            continue;
        };
        let ids = (|| {
            let Type::Tuple(tid) = u1.program.get_types().get(u1.compiled_result_type)?.clone() else { return None };
            let info = u1.program.get_tuples().get(tid)?.clone();
            let Type::Callable { parameter: pp, result: rr, .. } = u1.program.get_types().get(info.fields.first()?.1)?.clone() else {
                return None;
            };
            let Type::Callable { parameter: aa, .. } = u1.program.get_types().get(info.fields.get(1)?.1)?.clone() else {
                return None;
            };
            Some((pp, rr, aa))
        })();
        let Some((pp, rr, aa)) = ids else {
            ev.hit("guard:ids-not-found");
            continue;
        };
        let real = match front(&p2, cx) {
            Ok(_) => "accept",
            Err(j) if j.kind == Kind::Rejected => "reject",
            Err(_) => {
                ev.hit("guard:front-other");
                continue;
            }
        };
        let mut it = Interner::default();
        let types0 = u1.program.get_types().clone();
        let tuples0 = u1.program.get_tuples().clone();
        let table = table_sx(&types0, &tuples0, &mut it);
        let t = cx.model.ask(&table);
        if !t.starts_with("ok") {
            ev.hit("guard:model-refused-table");
            continue;
        }
        let new_entries = |prog: &quiver_core::program::Program, nt: usize, nu: usize, it: &mut Interner| -> String {
            let mut s = "(types".to_string();
            for t in &prog.get_types()[nt..] {
                s.push(' ');
                s.push_str(&type_sx(t, it));
            }
            s.push_str(") (tuples");
            for tu in &prog.get_tuples()[nu..] {
                let tmp = table_sx(&[], std::slice::from_ref(tu), it);
                // "(table (types) (tuples X))" -> X
                let x = tmp.strip_prefix("(table (types) (tuples ").and_then(|y| y.strip_suffix("))")).unwrap_or("?");
                s.push(' ');
                s.push_str(x);
            }
            s.push(')');
            s
        };
        // --- direct, id-exact differential through the verif hook -----------------------------
        let hv_impl = qverif::catch(|| quiver_compiler::compiler::verif::contains_variables(pp, &u1.program)).unwrap_or(false)
            || qverif::catch(|| quiver_compiler::compiler::verif::contains_variables(rr, &u1.program)).unwrap_or(false);
        let hv_model = cx.model.ask(&format!("(hasvars {pp})")) == "true" || cx.model.ask(&format!("(hasvars {rr})")) == "true";
        let mut prog = u1.program.clone();
        let mut b: HashMap<String, usize> = HashMap::new();
        let ur = qverif::catch(|| quiver_compiler::compiler::verif::unify(&mut b, pp, aa, &mut prog));
        let impl_unify = match &ur {
            Ok(Ok(())) => {
                let mut bs: Vec<(usize, usize)> = b.iter().map(|(k, v)| (it.id(k), *v)).collect();
                bs.sort();
                let body: String = bs.iter().map(|(k, v)| format!(" ({k} {v})")).collect();
                format!("ok (bindings{body}) {}", new_entries(&prog, types0.len(), tuples0.len(), &mut it))
            }
            Ok(Err(_)) => format!("fail {}", new_entries(&prog, types0.len(), tuples0.len(), &mut it)),
            Err(p) => format!("panic {}", p.lines().next().unwrap_or("")),
        };
        let model_unify = cx.model.ask(&format!("(unify {pp} {aa})"));
        ev.case(&(p2.clone()), true);
        ev.hit(&format!("guard:unify:{}", impl_unify.split_whitespace().next().unwrap_or("")));
        if hv_impl != hv_model {
            ev.violation(
                "guard-differential contains_variables",
                &format!("contains_variables differs (impl {hv_impl}, model {hv_model}) for parameter `{}`", with_vars.src()),
                json!({"broken": "correspondence model<->impl on contains_variables", "program_types": p1, "param_id": pp, "result_id": rr, "table": table}),
                false,
            );
        }
        if impl_unify != model_unify {
            ev.violation(
                "guard-differential unify",
                &format!("unify differs for parameter `{}` and argument `{}`: impl `{impl_unify}`, model `{model_unify}`", with_vars.src(), arg_ty.src()),
                json!({"broken": "correspondence model<->impl on unify (bindings and registered types, id-exact)",
                       "program_types": p1, "param_id": pp, "arg_id": aa, "table": table, "impl": impl_unify, "model": model_unify}),
                false,
            );
        } else if let Ok(Ok(())) = &ur {
            // substitute the bindings into the result type on both sides
            let (nt, nu) = (prog.get_types().len(), prog.get_tuples().len());
            let sr = qverif::catch(|| quiver_compiler::compiler::verif::substitute(rr, &b, &mut prog));
            let impl_subst = match sr {
                Ok(id) => format!("ok {id} {}", new_entries(&prog, nt, nu, &mut it)),
                Err(p) => format!("panic {}", p.lines().next().unwrap_or("")),
            };
            let mut bs: Vec<(usize, usize)> = b.iter().map(|(k, v)| (it.id(k), *v)).collect();
            bs.sort();
            let body: String = bs.iter().map(|(k, v)| format!("({k} {v}) ")).collect();
            let model_subst = cx.model.ask(&format!("(subst {body}{rr})"));
            ev.hit("guard:substitute");
            if impl_subst != model_subst {
                ev.violation(
                    "guard-differential substitute",
                    &format!("substitute differs for result `{}`: impl `{impl_subst}`, model `{model_subst}`", with_vars.src()),
                    json!({"broken": "correspondence model<->impl on substitute (id-exact)", "program_types": p1, "result_id": rr,
                           "bindings": body, "table": table, "impl": impl_subst, "model": model_subst}),
                    false,
                );
            }
        }
        // --- the whole call guard, verdict through the source route ---------------------------
        let m = cx.model.ask(&format!("(call cur {pp} {rr} {aa})"));
        let mv = m.split_whitespace().next().unwrap_or("").to_string();
        ev.hit(&format!("guard:call:{}:{real}", if hv_model { "unify" } else { "compat" }));
        ev.sample_sparse(i, 400, || json!({"kind": "guard", "param": with_vars.src(), "arg": arg_ty.src(), "impl": real, "model": m, "unify_impl": impl_unify}));
        if mv != real {
            ev.violation(
                &format!("guard-differential impl={real} model={mv}"),
                &format!("call guard verdicts differ: compiler {real}s, guards model answers `{m}` for parameter `{}` and argument `{}`", with_vars.src(), arg_ty.src()),
                json!({"broken": "correspondence model<->impl on the call guard (contains_variables/unify/substitute/is_compatible)",
                       "program_types": p1, "program_call": p2, "param_id": pp, "result_id": rr, "arg_id": aa, "table": table}),
                false,
            );
        }
    }
}

/// (a') by-name field access: `f = #U { $.x }` accepted / rejected (and the emitted `Get(index)`,
/// the result type) against the Lean model of `get_field_by_name`.
fn field_differential(ev: &mut Ev, cx: &mut Cx, seed: u64, n: u64) {
    use gen_::{G, GTy};
    for i in 0..n {
        let mut r = Rng::for_case(seed ^ 0xF1E1D, i);
        let mut g = G::new(&mut r);
        // a union of 1..3 variants, most of them labelled tuples sharing the label `x`
        let nv = 1 + g.r.usize(3);
        let mut vs: Vec<GTy> = vec![];
        for k in 0..nv {
            let v = match g.r.below(10) {
                0 => g.leaf_ty(),
                1 => g.tuple_ty(0),
                _ => {
                    let mut fs: Vec<(Option<String>, GTy)> = vec![];
                    if g.r.chance(9, 10) {
                        fs.push((Some("x".into()), g.leaf_ty()));
                    }
                    for l in ["y", "z"] {
                        if g.r.chance(1, 2) {
                            fs.push((Some(l.to_string()), g.leaf_ty()));
                        }
                    }
                    if fs.is_empty() {
                        fs.push((Some("x".into()), GTy::Int));
                    }
                    g.r.shuffle(&mut fs);
                    let name = if g.r.chance(3, 4) { Some(["A", "B", "C"][k].to_string()) } else { None };
                    GTy::Tup(name, fs)
                }
            };
            if !vs.contains(&v) {
                vs.push(v);
            }
        }
        let u = if vs.len() == 1 { vs[0].clone() } else { GTy::Union(vs) };
        let src = format!("f = #{} {{ $.x }},\n&f", u.param_src());
        let helper = format!("f = #{} {{ 0 }},\n&f", u.param_src());
        // the parameter type id and the table come from the helper (always accepted)
        let Ok(uh) = front(&helper, cx) else {
            ev.hit("field:type-not-accepted");
            continue;
        };
        let Some(Type::Callable { parameter: pu, .. }) = uh.program.get_types().get(uh.compiled_result_type).cloned() else { continue };
        let real = match front(&src, cx) {
            Ok(unit) => {
                let Some(Type::Callable { parameter, result, .. }) = unit.program.get_types().get(unit.compiled_result_type).cloned() else { continue };
                // the emitted index: the `Get` of the function whose parameter is U
                let mut idx = None;
                for f in unit.program.get_functions() {
                    if let Some(Type::Callable { parameter: p2, .. }) = unit.program.get_types().get(f.type_id)
                        && *p2 == parameter
                    {
                        for ins in &f.instructions {
                            if let quiver_core::bytecode::Instruction::Get(k) = ins {
                                idx = Some(*k);
                            }
                        }
                    }
                }
                // ask the model on THIS program's table (ids of the result type are comparable)
                let mut it = Interner::default();
                let table = table_sx(unit.program.get_types(), unit.program.get_tuples(), &mut it);
                let _ = cx.model.ask(&table);
                let xid = it.id("x");
                let m = cx.model.ask(&format!("(field {parameter} {xid})"));
                (format!("ok {} {result}", idx.map(|k| k.to_string()).unwrap_or("?".into())), m, table)
            }
            Err(j) if j.kind == Kind::Rejected => {
                let mut it = Interner::default();
                let table = table_sx(uh.program.get_types(), uh.program.get_tuples(), &mut it);
                let _ = cx.model.ask(&table);
                let xid = it.id("x");
                let m = cx.model.ask(&format!("(field {pu} {xid})"));
                let cls = if j.detail.contains("MemberAccessOnNonTuple") {
                    "non-tuple"
                } else if j.detail.contains("MemberFieldNotFound") {
                    "not-found"
                } else {
                    "rejected-other"
                };
                (cls.to_string(), m, table)
            }
            Err(_) => {
                ev.hit("field:front-other");
                continue;
            }
        };
        let (impl_out, model_out, table) = real;
        // model answer `ok idx rid (tys)` -> compare `ok idx rid`
        let model_cmp = if model_out.starts_with("ok") {
            model_out.split_whitespace().take(3).collect::<Vec<_>>().join(" ")
        } else {
            model_out.clone()
        };
        ev.case(&src, true);
        ev.hit(&format!("field:{}", impl_out.split_whitespace().next().unwrap_or("")));
        ev.sample_sparse(i, 300, || json!({"kind": "field-access", "type": u.src(), "impl": impl_out, "model": model_out}));
        if impl_out != model_cmp {
            ev.violation(
                &format!("field-differential impl={} model={}", impl_out.split_whitespace().next().unwrap_or(""), model_cmp.split_whitespace().next().unwrap_or("")),
                &format!("by-name field access `$.x` on `{}`: compiler `{impl_out}`, model of get_field_by_name `{model_out}`", u.src()),
                json!({"broken": "correspondence model<->impl on get_field_by_name (verdict, Get index, result type id)",
                       "source": src, "impl": impl_out, "model": model_out, "table": table}),
                false,
            );
        }
    }
}

/// (a'') nil-ability of `,`-sequences: the function `f = #(A['int] | B) { s1, …, sn }` is compiled and
/// "the result type contains nil" is compared with the Lean model of compile_sequence's nil
/// bookkeeping, fed with the own nil-ability of every chain (known by construction).
fn sequence_differential(ev: &mut Ev, cx: &mut Cx, seed: u64, n: u64) {
    for i in 0..n {
        let mut r = Rng::for_case(seed ^ 0x5E90, i);
        let len = 2 + r.usize(4);
        let mut steps: Vec<String> = vec![];
        let mut own: Vec<bool> = vec![];
        let mut used_param_match = false;
        for k in 0..len {
            let last = k + 1 == len;
            if r.chance(1, 3) {
                // a chain that can be nil: a type match on a partial function's result (the literal
                // argument gives the dispatch nothing to specialise), or one match on the parameter
                if !used_param_match && r.chance(1, 3) {
                    used_param_match = true;
                    steps.push(format!("$ =A[a{k}]"));
                } else {
                    steps.push(format!("{k} opt ='int"));
                }
                own.push(true);
            } else {
                steps.push(match r.below(4) {
                    0 => format!("y{k} = {k}"),
                    1 => format!("{}", 7 + k),
                    2 => format!("{k} inc"),
                    _ if last => "R".to_string(),
                    _ => format!("y{k} = {k} inc"),
                });
                own.push(false);
            }
        }
        let src = format!(
            "inc = #'int {{ [$, 1] __integer_add__ }},\nopt = #'int {{ =0 => 5 }},\nf = #(A['int] | B) {{ {} }},\n&f",
            steps.join(", ")
        );
        let Ok(unit) = front(&src, cx) else {
            ev.hit("sequence:not-accepted");
            continue;
        };
        let Some(Type::Callable { result, .. }) = unit.program.get_types().get(unit.compiled_result_type).cloned() else { continue };
        let is_nil = |t: usize| matches!(unit.program.get_types().get(t), Some(Type::Tuple(id)) if *id == quiver_core::types::NIL);
        let has_nil = is_nil(result)
            || matches!(unit.program.get_types().get(result), Some(Type::Union(ids)) if ids.iter().any(|x| is_nil(*x)));
        let flags: String = own.iter().map(|b| if *b { " 1" } else { " 0" }).collect();
        let m = cx.model.ask(&format!("(seq{flags})"));
        let impl_out = if has_nil { "nil" } else { "no-nil" };
        ev.case(&src, true);
        ev.hit(&format!("sequence-typing:{impl_out}"));
        ev.sample_sparse(i, 300, || json!({"kind": "sequence", "steps": steps, "own_nilable": own, "impl": impl_out, "model": m}));
        if m != impl_out {
            ev.violation(
                &format!("sequence-differential impl={impl_out} model={m}"),
                &format!("nil-ability of the sequence `{}`: compiler types it `{impl_out}`, model of compile_sequence `{m}` (own nil-ability of the chains: {own:?})", steps.join(", ")),
                json!({"broken": "correspondence model<->impl on the nil bookkeeping of compile_sequence", "source": src, "own_nilable": own, "impl": impl_out, "model": m}),
                false,
            );
        }
    }
}

fn abstract_leaves(t: &gen_::GTy, g: &mut gen_::G) -> gen_::GTy {
    use gen_::GTy;
    let v = |g: &mut gen_::G| GTy::Var(if g.r.chance(2, 3) { "t".into() } else { "u".into() });
    match t {
        GTy::Int | GTy::Bin => {
            if g.r.chance(1, 2) { v(g) } else { t.clone() }
        }
        GTy::Tup(n, fs) => GTy::Tup(n.clone(), fs.iter().map(|(l, ft)| (l.clone(), abstract_leaves(ft, g))).collect()),
        GTy::Union(vs) => {
            if g.r.chance(1, 6) { v(g) } else { GTy::Union(vs.iter().map(|x| abstract_leaves(x, g)).collect()) }
        }
        GTy::List(e) => GTy::List(Box::new(abstract_leaves(e, g))),
        GTy::Tree(e) => GTy::Tree(Box::new(abstract_leaves(e, g))),
        GTy::Opt(e) => GTy::Opt(Box::new(abstract_leaves(e, g))),
        other => other.clone(),
    }
}

/// a near miss of `t`: one leaf changed, one field dropped / renamed, one variant added / removed
fn perturb(t: &gen_::GTy, g: &mut gen_::G) -> gen_::GTy {
    use gen_::GTy;
    match t {
        GTy::Int => {
            if g.r.chance(1, 3) { GTy::Bin } else { GTy::Int }
        }
        GTy::Bin => {
            if g.r.chance(1, 3) { GTy::Int } else { GTy::Bin }
        }
        GTy::Tup(n, fs) => {
            let mut fs2: Vec<(Option<String>, GTy)> = fs.iter().map(|(l, ft)| (l.clone(), perturb(ft, g))).collect();
            match g.r.below(10) {
                0 if fs2.len() > 1 => {
                    fs2.pop();
                }
                1 => fs2.push((None, GTy::Int)),
                2 => return GTy::Tup(Some("Z".into()), fs2),
                _ => {}
            }
            GTy::Tup(n.clone(), fs2)
        }
        GTy::Union(vs) => {
            let mut vs2: Vec<GTy> = vs.iter().map(|x| perturb(x, g)).collect();
            match g.r.below(6) {
                0 if vs2.len() > 1 => {
                    vs2.pop();
                }
                1 => vs2.push(g.leaf_ty()),
                2 => return vs2[0].clone(),
                _ => {}
            }
            GTy::Union(vs2)
        }
        GTy::List(e) => GTy::List(Box::new(perturb(e, g))),
        GTy::Tree(e) => GTy::Tree(Box::new(perturb(e, g))),
        GTy::Opt(e) => GTy::Opt(Box::new(perturb(e, g))),
        other => other.clone(),
    }
}

// ---------------------------------------------------------------------------------------------
// regression corpus and the repository's own sources
// ---------------------------------------------------------------------------------------------

fn corpus_dir() -> String {
    "/verif/corpus/C01".to_string()
}

/// corpus file: one JSON object per line: {"name", "source", "expect": "rejected" | "ok" | "known:<sig>"}
fn run_regression_corpus(ev: &mut Ev, cx: &mut Cx) {
    let path = format!("{}/regressions.jsonl", corpus_dir());
    let Ok(text) = std::fs::read_to_string(&path) else {
        ev.hit("corpus:regressions-file-missing");
        return;
    };
    for line in text.lines() {
        let line = line.trim();
        if line.is_empty() || line.starts_with('#') {
            continue;
        }
        let Ok(j) = serde_json::from_str::<serde_json::Value>(line) else { continue };
        let name = j["name"].as_str().unwrap_or("?").to_string();
        let src = j["source"].as_str().unwrap_or("").to_string();
        let expect = j["expect"].as_str().unwrap_or("ok").to_string();
        let sig_if_broken = j["signature_if_broken"].as_str().unwrap_or("").to_string();
        if sig_if_broken == "unify=callers-type-variable-taken-for-callees"
            && !families::SHARED_NAMES_OK.load(std::sync::atomic::Ordering::Relaxed)
        {
            // the canary (guard differential) reports the missing repair; these programs would
            // overflow the compiler's stack
            ev.hit("regression:skipped-shared-names-on-unrepaired-compiler");
            continue;
        }
        let out = judge(&src, cx);
        ev.case(&src, out.kind.accepted());
        ev.hit(&format!("regression:{}", out.kind.tag()));
        let replay = json!({"source": src, "corpus_entry": name, "outcome": out.kind.tag(), "detail": out.detail, "inferred_type": out.result_type});
        if let Some(sig) = expect.strip_prefix("known:") {
            if out.kind.fails() {
                ev.violation(sig, &format!("regression corpus `{name}`: known finding reproduces ({})", out.kind.tag()), replay, true);
            } else {
                ev.hit(&format!("regression:known-finding-no-longer-reproduces:{name}"));
            }
        } else if out.kind.fails() {
            let sig = if sig_if_broken.is_empty() { format!("regression {name} {}", out.kind.tag()) } else { sig_if_broken };
            ev.violation(
                &sig,
                &format!("regression corpus `{name}`: expected `{expect}`, but the program is accepted and ends in {} ({})", out.kind.tag(), out.detail.lines().next().unwrap_or("")),
                replay,
                true,
            );
        } else if expect == "rejected" && out.kind.accepted() {
            // accepted but harmless on this input: still a changed verdict worth a counter
            ev.hit(&format!("regression:expected-rejection-but-accepted:{name}"));
        }
    }
}

fn run_repo_corpora(ev: &mut Ev, cx: &mut Cx, limit: usize) {
    let mut stuck_samples = vec![];
    let mut n = 0;
    for (file, src) in qverif::corpus::test_sources() {
        if n >= limit {
            break;
        }
        n += 1;
        if src.contains('@') || src.contains('!') {
            ev.hit("repo-corpus:skipped-concurrent");
            continue;
        }
        let j = judge_sync(&src, cx);
        ev.case(&src, j.kind.accepted());
        ev.hit(&format!("repo-corpus:{}", j.kind.tag()));
        if j.kind.fails() && stuck_samples.len() < 12 {
            stuck_samples.push(json!({"file": file, "source": src, "outcome": j.kind.tag(), "detail": j.detail, "type": j.result_type}));
        }
    }
    ev.set_extra("repo_corpus_failing_outcomes", json!(stuck_samples));
}

fn main() {
    qverif::quiet_panics();
    let opts = Opts::parse();
    let mut ev = Ev::new("C01", &opts);
    ev.rule = "a case is one (source program, argument) pair compiled by the real front end; non-trivial = ACCEPTED by the \
               compiler (then executed and judged); distinct by source text. Programs come from feature-crossing \
               families (parameter dispatch with value/nested/typed/alternation patterns and optimistic complement uses, \
               variable scrutinees, generic functions with widening and union/recursive arguments, tail calls with \
               computed arguments, partial-typed parameters), from the regression corpus and from the repository's test \
               sources; plus (parameter, argument) type pairs for the call-guard differential"
        .into();
    let model = Model::spawn(opts.model.as_ref().expect("--model"));
    let mut cx = Cx { b: qverif::run::builtins(), modules: HashMap::new(), model, slices: 200, judged: 0 };
    if let Some(i) = opts.extra.iter().position(|x| x == "--probe") {
        probe(&opts.extra[i + 1], &mut cx);
        return;
    }
    if let Some(p) = &opts.replay {
        let j: serde_json::Value = serde_json::from_str(&std::fs::read_to_string(p).unwrap()).unwrap();
        let src = j["replay"]["source"].as_str().unwrap_or("").to_string();
        let out = judge(&src, &mut cx);
        println!("replay source:\n{src}\noutcome: {} | inferred type: {} | {}", out.kind.tag(), out.result_type, out.detail);
        std::process::exit(if out.kind.fails() { 1 } else { 0 });
    }

    // 1. regression corpus first (the canary before it: see `caller_variables_opaque`)
    families::SHARED_NAMES_OK.store(caller_variables_opaque(&cx), std::sync::atomic::Ordering::Relaxed);
    run_regression_corpus(&mut ev, &mut cx);

    // 2. generated programs
    let n_programs = opts.tier.pick(900u64, 30000u64);
    let mut accepted_by_family: std::collections::BTreeMap<String, (u64, u64)> = Default::default();
    for i in 0..n_programs {
        let mut r = Rng::for_case(opts.seed ^ 0xC01, i);
        for p in families::generate(&mut r) {
            for arg in &p.args {
                let src = p.render(&arg.src, &Repair::default());
                let j = judge(&src, &mut cx);
                ev.case(&src, j.kind.accepted());
                ev.hit(&format!("gen:{}:{}", p.family, j.kind.tag()));
                let e = accepted_by_family.entry(p.family.to_string()).or_insert((0, 0));
                e.1 += 1;
                if j.kind.accepted() {
                    e.0 += 1;
                    for f in &p.features {
                        ev.hit(&format!("feature:{f}"));
                    }
                }
                if j.kind == Kind::ParseError && opts.has_flag("--show-parse-errors") {
                    println!("PARSE-ERROR {}\n   {}", src.replace('\n', " "), j.detail);
                }
                ev.sample_sparse(ev.evaluations, 1500, || json!({"kind": "program", "family": p.family, "source": src, "outcome": j.kind.tag(), "type": j.result_type, "value": j.detail}));
                if j.kind.fails() {
                    report_failure(&mut ev, &p, arg, &j, &mut cx, "generated");
                } else if let (Some(decl), Some(v)) = (&p.declared_ret, &j.value) {
                    // the declared-return guard: the value must inhabit the DECLARED type too
                    let mut helper = p.clone();
                    helper.defs.push(("chk__".into(), gen_::t(&format!("#{decl} {{ $ }}"))));
                    helper.main = gen_::t("&chk__");
                    let hsrc = helper.render(&arg.src, &Repair::default());
                    if let Ok(unit) = front(&hsrc, &cx) {
                        if let Some(Type::Callable { parameter, .. }) = unit.program.get_types().get(unit.compiled_result_type).cloned() {
                            let mut it = Interner::default();
                            let table = table_sx(unit.program.get_types(), unit.program.get_tuples(), &mut it);
                            if cx.model.ask(&table).starts_with("ok") {
                                let a = cx.model.ask(&format!("(inh {parameter} {})", ev_sx(v, &mut it)));
                                ev.hit(&format!("declared-return:{a}"));
                                if a == "false" {
                                    ev.violation(
                                        "declared-return-type-not-honoured",
                                        &format!("function with declared return type `{decl}` is accepted and returns `{}`, which is outside the declared type; source: {}", j.detail, src.replace('\n', " ")),
                                        json!({"source": src, "argument": arg.src, "declared": decl, "value": j.detail, "inferred_type": j.result_type}),
                                        true,
                                    );
                                }
                            }
                        }
                    }
                }
            }
        }
    }
    ev.set_extra(
        "acceptance_by_family",
        json!(accepted_by_family.iter().map(|(k, (a, n))| (k.clone(), json!({"accepted": a, "cases": n}))).collect::<serde_json::Map<_, _>>()),
    );

    // 3. guard differential
    guard_differential(&mut ev, &mut cx, opts.seed, opts.tier.pick(1200, 40000));

    // 3b. by-name field access differential
    field_differential(&mut ev, &mut cx, opts.seed, opts.tier.pick(400, 12000));

    // 3c. sequence nil-ability differential
    sequence_differential(&mut ev, &mut cx, opts.seed, opts.tier.pick(300, 8000));

    // 3d. the proved fragment of the inference against the compiler (type ids, values)
    frag::infer_differential(&mut ev, &mut cx, opts.seed, opts.tier.pick(500, 15000));

    // 4. the repository's own test sources (counters only; a test may expect its runtime error)
    run_repo_corpora(&mut ev, &mut cx, opts.tier.pick(100000, 100000));

    ev.set_extra("programs_judged", json!(cx.judged));
    ev.set_extra("model_requests", json!(cx.model.requests));
    std::process::exit(ev.finish());
}
