//! Shared by c04.rs and c03.rs: message-passing scenarios (abstract scripts + Quiver source),
//! lock-step execution of the real system (`qverif::sim`) against the Lean model M-Sys (`qm_c04`),
//! canonical snapshots of the real system, and implementation-side oracles.
#![allow(dead_code)]
use qverif::sim::{Choice, Policy, Sim};
use qverif::{Model, Rng};
use quiver_core::bytecode::Instruction;
use quiver_core::value::Value;
use quiver_environment::{Command, Event};
use serde_json::{Value as J, json};
use std::collections::{BTreeMap, HashMap};

#[path = "gen.rs"]
pub mod generator;

// ------------------------------------------------------------------------------------------
// scenarios
// ------------------------------------------------------------------------------------------

#[derive(Clone, Debug, PartialEq, Eq, Hash)]
pub enum Src {
    Proc(usize),
    Recv,
    /// selective receive: a filter function accepting only messages whose tag is `k`
    RecvTag(u64),
    /// type-only receive of ONE message type: class A (`false`, tags < CLASS_B, `[tag, seq]`) or
    /// class B (`true`, tags >= CLASS_B, `B[tag, seq]`); messages of the other type are passed over
    RecvCls(bool),
    Timeout(u64),
}

/// messages with a tag >= CLASS_B are sent as the named tuple `B[tag, seq]` (another message TYPE)
pub const CLASS_B: u64 = 100;

#[derive(Clone, Debug, PartialEq, Eq, Hash)]
pub enum Act {
    Send { reg: usize, tag: u64, seq: u64 },
    Spawn { f: usize, pass: Vec<usize> },
    Select(Vec<Src>),
    Fail,
}

/// scripts[0] is the main (REPL) process; every other script is spawned exactly once, by the
/// script that contains its `Spawn`. The sender tag of script i is i.
#[derive(Clone, Debug, PartialEq, Eq, Hash)]
pub struct Scenario {
    pub kind: String,
    pub scripts: Vec<Vec<Act>>,
    /// by construction every process terminates under every schedule (no deadlock by design)
    pub terminates: bool,
    /// every mailbox has one sender, single-source selects only (C03's confluent class)
    pub confluent: bool,
}

impl Scenario {
    pub fn sexp(&self) -> String {
        let mut s = String::from("(");
        for (i, sc) in self.scripts.iter().enumerate() {
            if i > 0 {
                s.push(' ');
            }
            s.push('(');
            for (j, a) in sc.iter().enumerate() {
                if j > 0 {
                    s.push(' ');
                }
                match a {
                    Act::Send { reg, tag, seq } => s.push_str(&format!("(send {reg} {tag} {seq})")),
                    Act::Spawn { f, pass } => s.push_str(&format!(
                        "(spawn {f} ({}))",
                        pass.iter().map(|x| x.to_string()).collect::<Vec<_>>().join(" ")
                    )),
                    Act::Select(srcs) => {
                        s.push_str("(select (");
                        for (k, x) in srcs.iter().enumerate() {
                            if k > 0 {
                                s.push(' ');
                            }
                            match x {
                                Src::Proc(r) => s.push_str(&format!("(proc {r})")),
                                Src::Recv => s.push_str("(recv any)"),
                                Src::RecvTag(k) => s.push_str(&format!("(recv tag {k})")),
                                Src::RecvCls(false) => s.push_str(&format!("(recv range 0 {CLASS_B})")),
                                Src::RecvCls(true) => s.push_str(&format!("(recv range {CLASS_B} 1000000)")),
                                Src::Timeout(ms) => s.push_str(&format!("(timeout {ms})")),
                            }
                        }
                        s.push_str("))");
                    }
                    Act::Fail => s.push_str("fail"),
                }
            }
            s.push(')');
        }
        s.push(')');
        s
    }

    /// Quiver source of the whole scenario (the main script, children nested as closures).
    pub fn source(&self) -> String {
        self.body(0, vec!["me0".to_string()])
    }

    fn uses_self(&self, i: usize) -> bool {
        self.scripts[i].iter().any(|a| match a {
            Act::Send { reg, .. } => *reg == 0,
            Act::Spawn { pass, .. } => pass.contains(&0),
            Act::Select(srcs) => srcs.iter().any(|s| matches!(s, Src::Proc(0))),
            Act::Fail => false,
        })
    }

    /// some message of the second type is sent somewhere: plain receives take both types
    pub fn has_b(&self) -> bool {
        self.scripts.iter().flatten().any(|a| matches!(a, Act::Send { tag, .. } if *tag >= CLASS_B))
    }

    fn body(&self, i: usize, mut regs: Vec<String>) -> String {
        let mixed = self.has_b();
        let mut parts: Vec<String> = vec![];
        if self.uses_self(i) {
            parts.push(format!("me{i} = &."));
        }
        let mut xs: Vec<String> = vec![];
        let mut failed = false;
        for a in &self.scripts[i] {
            match a {
                Act::Send { reg, tag, seq } => {
                    if *tag >= CLASS_B {
                        parts.push(format!("B[{tag}, {seq}] {}", regs[*reg]))
                    } else {
                        parts.push(format!("[{tag}, {seq}] {}", regs[*reg]))
                    }
                }
                Act::Spawn { f, pass } => {
                    let mut child_regs = vec![format!("me{f}")];
                    for r in pass {
                        child_regs.push(regs[*r].clone());
                    }
                    parts.push(format!("c{f} = @{{ {} }}", self.body(*f, child_regs)));
                    regs.push(format!("c{f}"));
                }
                Act::Select(srcs) => {
                    let v = format!("x{i}_{}", xs.len());
                    let ss: Vec<String> = srcs
                        .iter()
                        .map(|s| match s {
                            Src::Proc(r) => regs[*r].clone(),
                            Src::Recv if mixed => "#(['int, 'int] | B['int, 'int])".to_string(),
                            Src::Recv => "#['int, 'int]".to_string(),
                            Src::RecvTag(k) if *k >= CLASS_B => format!("#B['int, 'int] {{ =B[{k}, x] => Ok }}"),
                            Src::RecvTag(k) => format!("#['int, 'int] {{ =[{k}, x] => Ok }}"),
                            Src::RecvCls(false) => "#['int, 'int]".to_string(),
                            Src::RecvCls(true) => "#B['int, 'int]".to_string(),
                            Src::Timeout(ms) => ms.to_string(),
                        })
                        .collect();
                    parts.push(format!("! [{}] ={v}", ss.join(", ")));
                    xs.push(v);
                }
                Act::Fail => {
                    parts.push(format!("[{i}, 0] __integer_divide__"));
                    failed = true;
                    break;
                }
            }
        }
        if !failed {
            let mut items = vec![i.to_string()];
            items.extend(xs);
            parts.push(format!("[{}]", items.join(", ")));
        }
        parts.join(", ")
    }

    pub fn to_json(&self) -> J {
        json!({"kind": self.kind, "scripts": self.sexp(), "source": self.source(), "terminates": self.terminates, "confluent": self.confluent})
    }

    /// number of sends script `s` makes to the process that runs script `r` (static)
    pub fn n_processes(&self) -> usize {
        self.scripts.len()
    }
}

/// pid -> script of the scenario, from the NotifySpawn commands in global order: the k-th spawn of
/// a caller is the k-th Spawn act of its script
pub fn pid_scripts_of(sim: &Sim, sc: &Scenario) -> HashMap<usize, usize> {
    let mut notes: Vec<(u64, usize, usize)> = vec![];
    for ch in &sim.chans {
        let c = ch.chan.lock().unwrap();
        for (seq, cmd) in &c.cmd_log {
            if let Command::NotifySpawn { process_id, spawned_pid, .. } = cmd {
                notes.push((*seq, *process_id, *spawned_pid));
            }
        }
    }
    notes.sort();
    let mut map: HashMap<usize, usize> = HashMap::new();
    map.insert(0, 0);
    let mut count: HashMap<usize, usize> = HashMap::new();
    for (_, caller, child) in notes {
        let Some(s) = map.get(&caller).copied() else { continue };
        let k = count.entry(caller).or_insert(0);
        let spawns: Vec<usize> = sc.scripts[s].iter().filter_map(|a| if let Act::Spawn { f, .. } = a { Some(*f) } else { None }).collect();
        if let Some(f) = spawns.get(*k) {
            map.insert(child, *f);
        }
        *k += 1;
    }
    map
}

/// C03's `StreamStatement`, observed: with ONE sender script per mailbox the arrival history of a
/// receiving process (the DeliverMessage commands for it, in the order its worker received them)
/// is a prefix of the sender's STATIC send sequence to it (the sends of the sender's script whose
/// register denotes the receiver's script, in script order); returns the violations.
pub fn stream_oracle(sim: &Sim, sc: &Scenario, reg_scripts: &[Vec<usize>]) -> Vec<String> {
    let mut out = vec![];
    let scripts = pid_scripts_of(sim, sc);
    // static streams per receiver script
    let mut stream: HashMap<usize, Vec<(u64, u64)>> = HashMap::new();
    for (s, script) in sc.scripts.iter().enumerate() {
        for a in script {
            if let Act::Send { reg, tag, seq } = a
                && let Some(r) = reg_scripts[s].get(*reg)
            {
                stream.entry(*r).or_default().push((*tag, *seq));
            }
        }
    }
    for ch in &sim.chans {
        let c = ch.chan.lock().unwrap();
        let mut arrived: HashMap<usize, Vec<(u64, u64)>> = HashMap::new();
        for (_, cmd) in &c.cmd_log {
            if let Command::DeliverMessage { target, message, .. } = cmd
                && let Some(k) = msg_pair(message)
            {
                arrived.entry(*target).or_default().push(k);
            }
        }
        for (pid, got) in arrived {
            let Some(r) = scripts.get(&pid) else { continue };
            let expect = stream.get(r).cloned().unwrap_or_default();
            if got.len() > expect.len() || got[..] != expect[..got.len()] {
                out.push(format!(
                    "arrival history of pid {pid} (script {r}) is {got:?}, not a prefix of the static send sequence {expect:?} of its single sender"
                ));
            }
        }
    }
    out
}

/// Parse the `scripts` S-expression back (for corpus / replay files).
pub fn parse_scripts(s: &str) -> Option<Vec<Vec<Act>>> {
    #[derive(Debug)]
    enum Sx {
        A(String),
        L(Vec<Sx>),
    }
    fn parse(tokens: &[String], pos: &mut usize) -> Option<Sx> {
        let t = tokens.get(*pos)?;
        *pos += 1;
        if t == "(" {
            let mut v = vec![];
            while tokens.get(*pos)? != ")" {
                v.push(parse(tokens, pos)?);
            }
            *pos += 1;
            Some(Sx::L(v))
        } else if t == ")" {
            None
        } else {
            Some(Sx::A(t.clone()))
        }
    }
    let mut tokens = vec![];
    let mut cur = String::new();
    for c in s.chars() {
        if c == '(' || c == ')' {
            if !cur.is_empty() {
                tokens.push(std::mem::take(&mut cur));
            }
            tokens.push(c.to_string());
        } else if c.is_whitespace() {
            if !cur.is_empty() {
                tokens.push(std::mem::take(&mut cur));
            }
        } else {
            cur.push(c);
        }
    }
    let mut pos = 0;
    let top = parse(&tokens, &mut pos)?;
    let num = |x: &Sx| -> Option<u64> {
        match x {
            Sx::A(a) => a.parse().ok(),
            _ => None,
        }
    };
    let Sx::L(scripts) = top else { return None };
    let mut out = vec![];
    for sc in scripts {
        let Sx::L(acts) = sc else { return None };
        let mut v = vec![];
        for a in acts {
            match a {
                Sx::A(ref x) if x == "fail" => v.push(Act::Fail),
                Sx::L(ref items) => {
                    let Sx::A(head) = &items[0] else { return None };
                    match head.as_str() {
                        "send" => v.push(Act::Send { reg: num(&items[1])? as usize, tag: num(&items[2])?, seq: num(&items[3])? }),
                        "spawn" => {
                            let Sx::L(pass) = &items[2] else { return None };
                            v.push(Act::Spawn { f: num(&items[1])? as usize, pass: pass.iter().map(|p| num(p).map(|x| x as usize)).collect::<Option<Vec<_>>>()? });
                        }
                        "select" => {
                            let Sx::L(srcs) = &items[1] else { return None };
                            let mut ss = vec![];
                            for s in srcs {
                                let Sx::L(it) = s else { return None };
                                let Sx::A(h) = &it[0] else { return None };
                                match h.as_str() {
                                    "proc" => ss.push(Src::Proc(num(&it[1])? as usize)),
                                    "recv" => {
                                        if it.len() >= 4 {
                                            ss.push(Src::RecvCls(num(&it[2])? >= CLASS_B))
                                        } else if it.len() >= 3 {
                                            ss.push(Src::RecvTag(num(&it[2])?))
                                        } else {
                                            ss.push(Src::Recv)
                                        }
                                    }
                                    "timeout" => ss.push(Src::Timeout(num(&it[1])?)),
                                    _ => return None,
                                }
                            }
                            v.push(Act::Select(ss));
                        }
                        _ => return None,
                    }
                }
                _ => return None,
            }
        }
        out.push(v);
    }
    Some(out)
}

// ------------------------------------------------------------------------------------------
// canonical snapshot of the real system (same format as C04Driver.snapshot in Lean)
// ------------------------------------------------------------------------------------------

pub fn flat(v: &Value, out: &mut Vec<i64>) {
    match v {
        Value::Integer(i) => {
            use num_traits::ToPrimitive;
            out.push(i.to_i64().unwrap_or(i64::MIN));
        }
        Value::Tuple(_, fields) => {
            out.push(-1);
            for f in fields.iter() {
                flat(f, out);
            }
            out.push(-2);
        }
        _ => out.push(-99),
    }
}

pub fn show_val(v: &Value) -> String {
    let mut o = vec![];
    flat(v, &mut o);
    o.iter().map(|x| x.to_string()).collect::<Vec<_>>().join(",")
}

fn show_msg(v: &Value) -> String {
    if let Value::Tuple(_, f) = v
        && f.len() == 2
        && let (Value::Integer(a), Value::Integer(b)) = (&f[0], &f[1])
    {
        return format!("({a},{b})");
    }
    format!("(?{})", show_val(v))
}

pub fn msg_pair(v: &Value) -> Option<(u64, u64)> {
    use num_traits::ToPrimitive;
    if let Value::Tuple(_, f) = v
        && f.len() == 2
        && let (Value::Integer(a), Value::Integer(b)) = (&f[0], &f[1])
    {
        return Some((a.to_u64()?, b.to_u64()?));
    }
    None
}

fn show_nats(xs: &[usize]) -> String {
    format!("[{}]", xs.iter().map(|x| x.to_string()).collect::<Vec<_>>().join(","))
}

fn show_results(rs: &HashMap<usize, Option<Result<(Value, Vec<Vec<u8>>), quiver_core::Error>>>) -> String {
    let mut keys: Vec<&usize> = rs.keys().collect();
    keys.sort();
    let items: Vec<String> = keys
        .iter()
        .map(|k| {
            let v = match &rs[k] {
                None => "none".to_string(),
                Some(Ok((v, _))) => format!("ok:{}", show_val(v)),
                Some(Err(_)) => "err".to_string(),
            };
            format!("{k}={v}")
        })
        .collect();
    format!("{{{}}}", items.join(";"))
}

fn show_cmd(c: &Command<qverif::sim::E>) -> String {
    match c {
        Command::StartProcess { id, .. } => format!("start:{id}"),
        Command::ResumeProcess { id, .. } => format!("resume:{id}"),
        Command::SpawnProcess { id, .. } => format!("spawn:{id}"),
        Command::NotifySpawn { process_id, spawned_pid, .. } => format!("nspawn:{process_id}:{spawned_pid}"),
        Command::DeliverMessage { target, message, .. } => format!("deliver:{target}:{}", show_msg(message)),
        Command::QueryAndAwait { awaiter, targets } => format!("query:{awaiter}:{}", show_nats(targets)),
        Command::UpdateAwaitResults { awaiter, results } => format!("update:{awaiter}:{}", show_results(results)),
        Command::GetResult { request_id, process_id, .. } => format!("getres:{request_id}:{process_id}"),
        _ => "misc".to_string(),
    }
}

fn show_evt(e: &Event<qverif::sim::E>) -> String {
    match e {
        Event::SpawnAction { caller, .. } => format!("spawn:{caller}"),
        Event::DeliverAction { target, message, .. } => format!("deliver:{target}:{}", show_msg(message)),
        Event::AwaitAction { awaiter, targets } => format!("await:{awaiter}:{}", show_nats(targets)),
        Event::ProcessResults { awaiter, results } => format!("results:{awaiter}:{}", show_results(results)),
        // `Event::ProcessExited { process_id }` (variant `exitReports`, notes/C14-fixes/01), recognised
        // through its Debug form so that the harness builds against trees with and without it
        e if exited_pid(e).is_some() => format!("exited:{}", exited_pid(e).unwrap()),
        Event::ResultResponse { request_id, result, .. } => format!(
            "resp:{request_id}:{}",
            match result {
                Ok((v, _)) => format!("ok:{}", show_val(v)),
                Err(_) => "err".to_string(),
            }
        ),
        other => format!("other:{}", format!("{other:?}").chars().take(24).collect::<String>()),
    }
}

pub fn snapshot(sim: &Sim) -> String {
    let mut next = 0usize;
    let mut ws = vec![];
    for i in 0..sim.n_workers() {
        let ex = sim.workers[i].verif_executor();
        let queue = ex.verif_queue();
        let (spawning, selecting, _eff) = ex.verif_parked();
        let ch = sim.chans[i].chan.lock().unwrap();
        for c in ch.cmds.iter() {
            if let Command::SpawnProcess { id, .. } | Command::StartProcess { id, .. } = c {
                next = next.max(id + 1);
            }
        }
        let cmds: Vec<String> = ch.cmds.iter().map(show_cmd).collect();
        let evts: Vec<String> = ch.evts.iter().map(show_evt).collect();
        let mut procs = vec![];
        for pid in ex.verif_process_ids() {
            next = next.max(pid + 1);
            let p = ex.get_process(pid).unwrap();
            let class = if queue.contains(&pid) {
                "run"
            } else if spawning.contains(&pid) {
                "pspawn"
            } else if selecting.contains(&pid) {
                "pselect"
            } else {
                match &p.result {
                    Some(Ok(_)) => {
                        if p.persistent {
                            "sleep"
                        } else {
                            "done"
                        }
                    }
                    Some(Err(_)) => "failed",
                    None => "limbo",
                }
            };
            let mb: Vec<String> = p.mailbox.iter().map(show_msg).collect();
            let mut aw: Vec<(usize, String)> = p
                .awaiting
                .iter()
                .map(|(k, v)| (*k, match v { Some(v) => format!("{k}={}", show_val(v)), None => format!("{k}=none") }))
                .collect();
            aw.sort();
            let res = match &p.result {
                None => "none".to_string(),
                Some(Ok(v)) => format!("ok:{}", show_val(v)),
                Some(Err(_)) => "err".to_string(),
            };
            let mut af: Vec<usize> = p.awaiting_failed.keys().copied().collect();
            af.sort();
            // variant `selectWaits`: SelectState.unanswered, read from the Debug form (absent at HEAD)
            let un = match (&p.select_state, SHOW_UNANSWERED.load(std::sync::atomic::Ordering::Relaxed)) {
                (Some(st), true) => format!(" un={}", show_nats(&unanswered_of(&format!("{st:?}")).unwrap_or_default())),
                _ => String::new(),
            };
            procs.push(format!(
                "P{pid}:{class} mb=[{}] aw=[{}] af={} sel={}{un} res={res}",
                mb.join(""),
                aw.iter().map(|x| x.1.clone()).collect::<Vec<_>>().join(";"),
                show_nats(&af),
                if p.select_state.is_some() { 1 } else { 0 }
            ));
        }
        // await bookkeeping of the worker (hooks verif_awaited / verif_awaiters_for_target)
        let awaited = sim.workers[i].verif_awaited();
        let af: Vec<String> = sim.workers[i]
            .verif_awaiters_for_target()
            .iter()
            .filter(|(_, a)| !a.is_empty())
            .map(|(t, a)| format!("{t}:{}", show_nats(a)))
            .collect();
        ws.push(format!(
            "W{i} q={} sp={} se={} AW={} AF=[{}] C=[{}] E=[{}] {}",
            show_nats(&queue),
            show_nats(&spawning),
            show_nats(&selecting),
            show_nats(&awaited),
            af.join(" "),
            cmds.join(" "),
            evts.join(" "),
            procs.join(" ")
        ));
    }
    // environment side (hooks verif_router / verif_pending_awaits)
    let router: Vec<String> = sim.env.verif_router().iter().map(|(p, w)| format!("{p}>{w}")).collect();
    let pending: Vec<String> = sim
        .env
        .verif_pending_awaits()
        .iter()
        .map(|(a, expected, responses)| {
            let resp: Vec<String> = responses
                .iter()
                .map(|(w, rs)| format!("{w}:[{}]", rs.iter().map(|(t, st)| format!("{t}={st}")).collect::<Vec<_>>().join(";")))
                .collect();
            format!("{a}:e{}:r[{}]", show_nats(expected), resp.join(" "))
        })
        .collect();
    for (p, _) in sim.env.verif_router() {
        next = next.max(p + 1);
    }
    format!(
        "now={} fault={} next={} R=[{}] PA=[{}] | {}",
        sim.time_ms,
        if sim.faults.is_empty() { 0 } else { 1 },
        next,
        router.join(" "),
        pending.join(" "),
        ws.join(" | ")
    )
}

// ------------------------------------------------------------------------------------------
// lock-step execution
// ------------------------------------------------------------------------------------------

fn vis_str(v: usize) -> String {
    if v == usize::MAX { "*".to_string() } else { v.to_string() }
}

/// Everything the model needs to know about a worker step that the real step decided internally:
/// number of attempts in the time slice, and the observable hash-iteration orders.
pub struct StepObs {
    pub fuel: usize,
    pub ord_q: Vec<usize>,
    pub ord_e: Vec<usize>,
    pub ran: Option<usize>,
    pub instrs: usize,
}

pub struct Lock<'a> {
    pub sim: Sim,
    pub model: Option<&'a mut Model>,
    pub steps: usize,
    /// first disagreement: (step index, choice, impl snapshot, model snapshot)
    pub mismatch: Option<(usize, String, String, String)>,
    pub model_lines: Vec<String>,
    pub fn_to_pid: HashMap<usize, usize>,
    pub max_fuel: usize,
    pub rotations: usize,
    pub attempts: usize,
    pub partial_steps: usize,
    /// lost wake-up / stuck spawner observations: (step, description)
    pub oracle_failures: Vec<(usize, String, String)>,
    pub quiescent_checks: usize,
    /// the scenario sends two message types (`Scenario::has_b`)
    pub mixed: bool,
    /// DeliverMessage commands handled while their receiver could no longer receive (it had
    /// failed, or finished and is not persistent): (receiver pid, tag, seq).  C04 is about messages
    /// sent to a LIVE process; with the variant `release-dead` these are dropped by the runtime.
    pub dead_deliveries: Vec<(usize, u64, u64)>,
    /// Messages that were in the mailbox of a non-persistent process, unread, when it finished
    /// successfully: (pid, tag, seq).  They were delivered (once, in order) to a live process that
    /// chose not to receive them; the variant `release-dead` releases them with the process, so
    /// the final state no longer shows them.  Observed at the step in which the process finishes:
    /// its mailbox before the step plus what the step delivers to it, minus what its result says
    /// it consumed (a message is identified by its (tag, seq)).
    pub released_unread: Vec<(usize, u64, u64)>,
}

impl<'a> Lock<'a> {
    pub fn new(sim: Sim, model: Option<&'a mut Model>) -> Lock<'a> {
        Lock {
            sim,
            model,
            steps: 0,
            mismatch: None,
            model_lines: vec![],
            fn_to_pid: HashMap::new(),
            max_fuel: 0,
            rotations: 0,
            attempts: 0,
            partial_steps: 0,
            oracle_failures: vec![],
            mixed: false,
            quiescent_checks: 0,
            dead_deliveries: vec![],
            released_unread: vec![],
        }
    }

    pub fn ask_model(&mut self, line: String, what: &str) {
        if self.mismatch.is_some() {
            return;
        }
        let Some(m) = self.model.as_mut() else { return };
        let ans = m.ask(&line);
        self.model_lines.push(line);
        let snap = snapshot(&self.sim);
        if ans != snap {
            self.mismatch = Some((self.steps, what.to_string(), snap, ans));
        }
    }

    /// Execute one choice on the real system, then the same choice on the model; compare.
    pub fn step(&mut self, c: Choice) {
        match &c {
            Choice::Tick { ms } => {
                self.sim.step(c.clone());
                self.ask_model(format!("(tick {ms})"), &c.render());
            }
            Choice::Env { visible } => {
                if visible.iter().any(|v| *v != usize::MAX) {
                    self.partial_steps += 1;
                }
                self.sim.step(c.clone());
                let vis: Vec<String> = visible.iter().map(|v| vis_str(*v)).collect();
                self.ask_model(format!("(env ({}))", vis.join(" ")), &c.render());
            }
            Choice::Worker { i, visible } => {
                if *visible != usize::MAX {
                    self.partial_steps += 1;
                }
                let obs = self.worker_step(*i, *visible);
                self.max_fuel = self.max_fuel.max(obs.fuel);
                if obs.fuel == 0 && obs.instrs > 0 {
                    self.rotations += 1;
                }
                self.attempts += obs.fuel;
                let line = format!(
                    "(worker {i} {} {} ({}) ({}))",
                    vis_str(*visible),
                    obs.fuel,
                    obs.ord_q.iter().map(|x| x.to_string()).collect::<Vec<_>>().join(" "),
                    obs.ord_e.iter().map(|x| x.to_string()).collect::<Vec<_>>().join(" ")
                );
                self.ask_model(line, &c.render());
            }
        }
        self.steps += 1;
    }

    fn worker_step(&mut self, i: usize, visible: usize) -> StepObs {
        let evts_before = self.sim.chans[i].chan.lock().unwrap().evts.len();
        // Which of the commands this step will handle deliver a message to a process that can no
        // longer receive?  A worker handles its commands before it runs any process, so the state
        // before the step decides (a process created by an earlier command of the batch is live).
        let mut pending_mail: HashMap<usize, Vec<(u64, u64)>> = HashMap::new();
        {
            let c = self.sim.chans[i].chan.lock().unwrap();
            let ex = self.sim.workers[i].verif_executor();
            for pid in ex.verif_process_ids() {
                if let Some(p) = ex.get_process(pid)
                    && p.result.is_none()
                    && !p.persistent
                {
                    pending_mail.insert(pid, p.mailbox.iter().filter_map(msg_pair).collect());
                }
            }
            let mut created: Vec<usize> = vec![];
            for cmd in c.cmds.iter().take(visible.min(c.cmds.len())) {
                if let Command::SpawnProcess { id, .. } = cmd {
                    created.push(*id);
                    pending_mail.entry(*id).or_default();
                }
                if let Command::DeliverMessage { target, message, .. } = cmd
                    && let Some((tag, seq)) = msg_pair(message)
                {
                    let live = match ex.get_process(*target) {
                        Some(p) => match &p.result {
                            None => true,
                            Some(Ok(_)) => p.persistent,
                            Some(Err(_)) => false,
                        },
                        None => created.contains(target),
                    };
                    if live {
                        if let Some(mb) = pending_mail.get_mut(target) {
                            mb.push((tag, seq));
                        }
                    } else if ex.get_process(*target).is_some() {
                        self.dead_deliveries.push((*target, tag, seq));
                    }
                }
            }
        }
        quiver_core::executor::verif::set_trace(Some(vec![]));
        self.sim.step(Choice::Worker { i, visible });
        let trace = quiver_core::executor::verif::take_trace().unwrap_or_default();
        let ex = self.sim.workers[i].verif_executor();
        // a process that finished in this step: what it had not read
        for (pid, avail) in &pending_mail {
            if let Some(p) = ex.get_process(*pid)
                && let Some(Ok(Value::Tuple(_, fields))) = &p.result
            {
                let consumed: Vec<(u64, u64)> = fields.iter().filter_map(msg_pair).collect();
                for m in avail {
                    if !consumed.contains(m) {
                        self.released_unread.push((*pid, m.0, m.1));
                    }
                }
            }
        }
        // which process ran: every process instance has its own function (first trace entry)
        let mut fn_to_pid: HashMap<usize, usize> = HashMap::new();
        for pid in ex.verif_process_ids() {
            if let Some(info) = ex.get_process_info(pid)
                && let Some(f) = info.function_index
            {
                fn_to_pid.insert(f, pid);
            }
        }
        let ran = trace.first().and_then(|t| fn_to_pid.get(&t.0).copied());
        let mut fuel = 0;
        for (idx, (f, pc, _, _)) in trace.iter().enumerate() {
            if let Some(func) = ex.get_function(*f)
                && let Some(ins) = func.instructions.get(*pc)
                && matches!(ins, Instruction::Select | Instruction::Send | Instruction::Spawn)
            {
                // A Select execution that only CALLED a filter function (selective receive) is not
                // an attempt of the model: the model evaluates the whole select atomically at the
                // execution that completes or parks it.
                if matches!(ins, Instruction::Select) {
                    let called = match trace.get(idx + 1) {
                        Some((f2, _, _, _)) => f2 != f,
                        None => ran
                            .and_then(|pid| ex.get_process(pid).map(|p| (pid, p)))
                            .map(|(pid, p)| {
                                p.select_state.as_ref().map(|st| st.receiving.is_some()).unwrap_or(false)
                                    && !ex.verif_parked().1.contains(&pid)
                            })
                            .unwrap_or(false),
                    };
                    if called {
                        continue;
                    }
                }
                fuel += 1;
            }
        }
        if let Some(pid) = ran
            && let Some(p) = ex.get_process(pid)
            && p.result.is_some()
        {
            fuel += 1;
        }
        let mut ord_q = vec![];
        if let Some(pid) = ran {
            ord_q.push(pid);
        }
        for p in ex.verif_queue() {
            if !ord_q.contains(&p) {
                ord_q.push(p);
            }
        }
        // order in which completed awaited targets were reported (last occurrence wins)
        let mut ord_e: Vec<usize> = vec![];
        {
            let ch = self.sim.chans[i].chan.lock().unwrap();
            for e in ch.evts.iter().skip(evts_before) {
                if let Event::ProcessResults { results, .. } = e
                    && results.len() == 1
                    && let Some((t, Some(_))) = results.iter().next()
                {
                    ord_e.retain(|x| x != t);
                    ord_e.push(*t);
                }
            }
        }
        StepObs { fuel, ord_q, ord_e, ran, instrs: trace.len() }
    }

    /// Implementation-side oracle at a quiescent point: no parked process has a ready source,
    /// no spawner is still waiting for its pid.
    pub fn check_quiescent(&mut self) {
        self.quiescent_checks += 1;
        for i in 0..self.sim.n_workers() {
            let ex = self.sim.workers[i].verif_executor();
            let (spawning, selecting, _) = ex.verif_parked();
            for pid in spawning {
                let msg = format!("process {pid} on worker {i} is still waiting for the pid of its spawn at quiescence");
                self.oracle_failures.push((self.steps, "stuck-spawner".into(), msg));
            }
            for pid in selecting {
                let Some(p) = ex.get_process(pid) else { continue };
                if p.result.is_some() {
                    continue; // failed by a propagated error while parked: finished, not blocked
                }
                let Some(st) = &p.select_state else {
                    let msg = format!("process {pid} on worker {i} parked in `selecting` without select state");
                    self.oracle_failures.push((self.steps, "parked-without-select".into(), msg));
                    continue;
                };
                if st.start_time.is_none() {
                    let msg = format!(
                        "lost wake-up: process {pid} on worker {i} is parked in a select that has never been evaluated (start_time None: its timeout has not started, its mailbox ({} messages) was never scanned) and the system is quiescent: the answer to its await never woke it",
                        p.mailbox.len()
                    );
                    self.oracle_failures.push((self.steps, "lost-wakeup-select-never-started".into(), msg));
                    continue;
                }
                // variant `selectWaits`: while targets are unanswered the select evaluates nothing; at
                // quiescence no answer is on its way any more
                if let Some(un) = unanswered_of(&format!("{st:?}"))
                    && !un.is_empty()
                {
                    let msg = format!(
                        "process {pid} on worker {i} is parked in a select whose await has not been answered for {un:?} and the system is quiescent: the answer is lost"
                    );
                    self.oracle_failures.push((self.steps, "await-unanswered-at-quiescence".into(), msg));
                    continue;
                }
                for s in &st.sources {
                    let ready = match s {
                        Value::Process(t, _) => {
                            matches!(p.awaiting.get(t), Some(Some(_)))
                                || p.awaiting_failed.contains_key(t)
                                || self.sim.workers.iter().any(|w2| {
                                    w2.verif_executor().get_process(*t).map(|tp| tp.result.is_some()).unwrap_or(false)
                                })
                        }
                        Value::Function(fidx, _) => {
                            let body_empty = ex.get_function(*fidx).map(|f| f.instructions.is_empty()).unwrap_or(true);
                            if body_empty {
                                // type-only receive; with two message types in play the type it
                                // takes is not visible here: certainly ready only if both are queued
                                let has = |b: bool| p.mailbox.iter().any(|m| msg_pair(m).map(|(t, _)| (t >= CLASS_B) == b).unwrap_or(false));
                                if self.mixed { has(false) && has(true) } else { !p.mailbox.is_empty() }
                            } else {
                                // tag filter `=[k, x] => Ok`: k is the first integer constant of the body
                                let k = ex.get_function(*fidx).and_then(|f| {
                                    f.instructions.iter().find_map(|ins| match ins {
                                        Instruction::Constant(ci) => match ex.get_constant(*ci) {
                                            Some(quiver_core::bytecode::Constant::Integer(i)) => {
                                                use num_traits::ToPrimitive;
                                                i.to_u64()
                                            }
                                            _ => None,
                                        },
                                        _ => None,
                                    })
                                });
                                match k {
                                    Some(k) => p.mailbox.iter().any(|m| msg_pair(m).map(|(t, _)| t == k).unwrap_or(false)),
                                    None => false,
                                }
                            }
                        }
                        Value::Builtin(_) => !p.mailbox.is_empty(),
                        _ => false,
                    };
                    if ready {
                        let msg = format!(
                            "lost wake-up: process {pid} on worker {i} is parked in a select although source {} is ready (mailbox {} messages) and the system is quiescent",
                            match s { Value::Process(t, _) => format!("process {t}"), _ => "receive".to_string() },
                            p.mailbox.len()
                        );
                        self.oracle_failures.push((self.steps, "lost-wakeup".into(), msg));
                    }
                }
            }
        }
    }

    /// Random adversarial schedule until `done`, quiescence or `max_steps` (same loop as
    /// `Sim::run_random`, with the lock-step hook and the quiescence oracle).
    pub fn run_random(&mut self, r: &mut Rng, p: &Policy, max_steps: usize, mut done: impl FnMut(&mut Sim) -> bool, settle: bool) -> bool {
        let mut idle_streak = 0;
        let n = self.sim.n_workers();
        let mut finished_at: Option<usize> = None;
        for _ in 0..max_steps {
            // after a model/implementation disagreement the run continues on the implementation
            // alone so that the oracles are still evaluated on its final state
            if finished_at.is_none() && done(&mut self.sim) {
                if !settle {
                    return true;
                }
                finished_at = Some(self.steps);
            }
            if self.sim.quiescent() {
                if idle_streak == 0 {
                    self.check_quiescent();
                }
                idle_streak += 1;
                if idle_streak > 2 * (n + 1) {
                    return finished_at.is_some();
                }
                self.step(Choice::Env { visible: vec![usize::MAX; n] });
                for i in 0..n {
                    self.step(Choice::Worker { i, visible: usize::MAX });
                }
                continue;
            }
            idle_streak = 0;
            let c = self.sim.random_choice(r, p);
            self.step(c);
        }
        // The adversarial budget is used up but the system is still busy (a starved worker with a
        // one-instruction quantum can need a very long schedule): finish with fair rounds, so that
        // "no result" is only ever reported for a system that is really quiescent.
        let mut idle_streak = 0;
        for _ in 0..400_000usize {
            if finished_at.is_none() && done(&mut self.sim) {
                finished_at = Some(self.steps);
            }
            if self.sim.quiescent() {
                if idle_streak == 0 {
                    self.check_quiescent();
                }
                idle_streak += 1;
                if idle_streak > 2 * (n + 1) {
                    break;
                }
            } else {
                idle_streak = 0;
                if self.sim.idle()
                    && let Some(t) = self.sim.next_timeout()
                {
                    let ms = t.saturating_sub(self.sim.time_ms).max(1);
                    self.step(Choice::Tick { ms });
                }
            }
            self.step(Choice::Env { visible: vec![usize::MAX; n] });
            for i in 0..n {
                self.step(Choice::Worker { i, visible: usize::MAX });
            }
        }
        finished_at.is_some()
    }

    pub fn schedule(&self) -> Vec<String> {
        self.sim.schedule.iter().map(|c| c.render()).collect()
    }
}

pub fn parse_choice(s: &str, n: usize) -> Option<Choice> {
    let num = |x: &str| -> Option<usize> { if x == "*" { Some(usize::MAX) } else { x.parse().ok() } };
    if s == "E" {
        return Some(Choice::Env { visible: vec![usize::MAX; n] });
    }
    if let Some(rest) = s.strip_prefix("E[") {
        let inner = rest.strip_suffix(']')?;
        return Some(Choice::Env { visible: inner.split(',').map(num).collect::<Option<Vec<_>>>()? });
    }
    if let Some(rest) = s.strip_prefix('T') {
        return Some(Choice::Tick { ms: rest.parse().ok()? });
    }
    if let Some(rest) = s.strip_prefix('W') {
        if let Some((a, b)) = rest.split_once('[') {
            return Some(Choice::Worker { i: a.parse().ok()?, visible: num(b.strip_suffix(']')?)? });
        }
        return Some(Choice::Worker { i: rest.parse().ok()?, visible: usize::MAX });
    }
    None
}

/// Build the real system for a scenario and submit its source. `Err` = front end rejected it.
pub fn start(sc: &Scenario, n: usize, quantum: Option<usize>) -> Result<(Sim, u64), String> {
    let mut sim = Sim::new(n, quantum, qverif::run::builtins(), false).with_repl(HashMap::new());
    match sim.submit(&sc.source()) {
        Ok(Some(id)) => Ok((sim, id)),
        Ok(None) => Err("no code".to_string()),
        Err(e) => Err(format!("{e:?}").chars().take(300).collect()),
    }
}

/// set by `configure_model` when the runtime has `SelectState.unanswered` (variant `selectWaits`)
pub static SHOW_UNANSWERED: std::sync::atomic::AtomicBool = std::sync::atomic::AtomicBool::new(false);

/// `unanswered: [..]` of a `SelectState` Debug form (None when the field does not exist)
pub fn unanswered_of(debug: &str) -> Option<Vec<usize>> {
    let i = debug.find("unanswered: [")?;
    let rest = &debug[i + "unanswered: [".len()..];
    let j = rest.find(']')?;
    Some(rest[..j].split(',').filter_map(|x| x.trim().parse().ok()).collect())
}

/// Does a select with process sources wait for its await answer (`SelectState.unanswered`)?
/// Probed on a main process parked in `! [child]` whose child never finishes.
pub fn detect_select_waits() -> bool {
    let sc = Scenario {
        kind: "probe".into(),
        scripts: vec![vec![Act::Spawn { f: 1, pass: vec![] }, Act::Select(vec![Src::Proc(1)])], vec![Act::Select(vec![Src::Recv])]],
        terminates: false,
        confluent: true,
    };
    let mut sim = Sim::new(1, None, qverif::run::builtins(), false).with_repl(HashMap::new());
    let Ok(Some(_req)) = sim.submit(&sc.source()) else { return false };
    sim.run_fair(50, |_| false);
    sim.workers.iter().any(|w| {
        let ex = w.verif_executor();
        ex.verif_process_ids().iter().any(|pid| {
            ex.get_process(*pid).and_then(|p| p.select_state.as_ref().map(|st| unanswered_of(&format!("{st:?}")).is_some())).unwrap_or(false)
        })
    })
}

/// `Event::ProcessExited { process_id }` by its Debug form (None for every other event)
pub fn exited_pid(e: &Event<qverif::sim::E>) -> Option<usize> {
    if matches!(
        e,
        Event::SpawnAction { .. } | Event::DeliverAction { .. } | Event::ProcessResults { .. } | Event::AwaitAction { .. } | Event::ResultResponse { .. }
    ) {
        return None;
    }
    let d = format!("{e:?}");
    let rest = d.strip_prefix("ProcessExited")?;
    let digits: String = rest.chars().filter(|c| c.is_ascii_digit()).collect();
    digits.parse().ok()
}

/// Does the runtime this harness is linked against report terminated processes
/// (`Event::ProcessExited`)?  Probed by running a program whose child terminates.
pub fn detect_exit_reports() -> bool {
    let sc = Scenario {
        kind: "probe".into(),
        scripts: vec![vec![Act::Spawn { f: 1, pass: vec![] }, Act::Select(vec![Src::Proc(1)])], vec![]],
        terminates: true,
        confluent: true,
    };
    let mut sim = Sim::new(1, None, qverif::run::builtins(), true).with_repl(HashMap::new());
    let Ok(Some(req)) = sim.submit(&sc.source()) else { return false };
    sim.run_fair(200, |s| s.poll_result(req).is_some());
    sim.chans.iter().any(|ch| ch.chan.lock().unwrap().evt_log.iter().any(|(_, e)| exited_pid(e).is_some()))
}

pub static RELEASE_DEAD: std::sync::atomic::AtomicBool = std::sync::atomic::AtomicBool::new(false);

/// Does the runtime this harness is linked against release what a finished process still holds
/// and drop messages for it (notes/C06-fixes/01, `release_dead_roots`)?  Probed by behaviour: a
/// child that receives one message and finishes is sent two; with the variant its mailbox is empty
/// afterwards (the second message is dropped on arrival, or released when the child finished),
/// without it the second message stays there.
pub fn detect_release_dead() -> bool {
    let sc = Scenario {
        kind: "probe".into(),
        scripts: vec![
            vec![Act::Spawn { f: 1, pass: vec![] }, Act::Send { reg: 1, tag: 0, seq: 0 }, Act::Send { reg: 1, tag: 0, seq: 1 }],
            vec![Act::Select(vec![Src::Recv])],
        ],
        terminates: true,
        confluent: true,
    };
    let mut sim = Sim::new(1, None, qverif::run::builtins(), false).with_repl(HashMap::new());
    let Ok(Some(_req)) = sim.submit(&sc.source()) else { return false };
    sim.run_fair(50, |_| false);
    let mut seen = false;
    let mut empty = true;
    for w in &sim.workers {
        let ex = w.verif_executor();
        for pid in ex.verif_process_ids() {
            if pid == 0 {
                continue;
            }
            if let Some(p) = ex.get_process(pid) {
                seen = true;
                if p.result.is_none() || !p.mailbox.is_empty() {
                    empty = false;
                }
            }
        }
    }
    seen && empty
}

/// Tell the model which variant of the runtime it has to mirror (once, after `Model::spawn`).
pub fn configure_model(model: &mut Model) -> Vec<String> {
    let mut on = vec![];
    if detect_exit_reports() {
        let ans = model.ask("(cfg exit-reports on)");
        assert_eq!(ans, "ok", "model does not know the variant exit-reports");
        on.push("exit-reports".to_string());
    }
    if detect_select_waits() {
        let ans = model.ask("(cfg select-waits on)");
        assert_eq!(ans, "ok", "model does not know the variant select-waits");
        SHOW_UNANSWERED.store(true, std::sync::atomic::Ordering::Relaxed);
        on.push("select-waits".to_string());
    }
    if detect_release_dead() {
        let ans = model.ask("(cfg release-dead on)");
        assert_eq!(ans, "ok", "model does not know the variant release-dead");
        RELEASE_DEAD.store(true, std::sync::atomic::Ordering::Relaxed);
        on.push("release-dead".to_string());
    }
    on
}

pub fn init_line(sc: &Scenario, n: usize, req: u64) -> String {
    format!("(init {n} {req} {})", sc.sexp())
}

// ------------------------------------------------------------------------------------------
// final-state oracle on the implementation: exactly-once + per-sender FIFO
// ------------------------------------------------------------------------------------------

/// For every process: the messages it consumed (from its Ok result) followed by the messages
/// still in its mailbox, per sender tag.
pub fn receiver_logs(sim: &Sim) -> BTreeMap<usize, (bool, BTreeMap<u64, Vec<u64>>)> {
    let mut out = BTreeMap::new();
    for i in 0..sim.n_workers() {
        let ex = sim.workers[i].verif_executor();
        for pid in ex.verif_process_ids() {
            let p = ex.get_process(pid).unwrap();
            let mut per: BTreeMap<u64, Vec<u64>> = BTreeMap::new();
            let mut has_log = false;
            if let Some(Ok(Value::Tuple(_, fields))) = &p.result {
                has_log = true;
                for f in fields.iter() {
                    if let Some((t, s)) = msg_pair(f) {
                        per.entry(t).or_default().push(s);
                    }
                }
            }
            for m in p.mailbox.iter() {
                if let Some((t, s)) = msg_pair(m) {
                    per.entry(t).or_default().push(s);
                }
            }
            out.insert(pid, (has_log, per));
        }
    }
    out
}
