//! Scenario generator: fan-in, fan-out, pipelines, request/reply, await chains, late awaits of
//! finished processes, processes that finish with unread mail, failing processes, await races.
use super::{Act, CLASS_B, Scenario, Src};
use qverif::Rng;
use std::collections::HashMap;

#[derive(Clone, Copy, Debug)]
pub struct RegInfo {
    pub script: usize,
    /// spawn-derived reference (awaitable); `me` references are not
    pub awaitable: bool,
}

pub struct B {
    pub scripts: Vec<Vec<Act>>,
    pub regs: Vec<Vec<RegInfo>>,
    seqs: HashMap<(usize, usize, u64), u64>,
}

impl B {
    pub fn new() -> B {
        B { scripts: vec![vec![]], regs: vec![vec![RegInfo { script: 0, awaitable: false }]], seqs: HashMap::new() }
    }
    /// `parent` spawns a new script, handing it the registers `pass`; returns (script, parent reg).
    pub fn spawn(&mut self, parent: usize, pass: &[usize]) -> (usize, usize) {
        let f = self.scripts.len();
        self.scripts.push(vec![]);
        let mut regs = vec![RegInfo { script: f, awaitable: false }];
        for r in pass {
            regs.push(self.regs[parent][*r]);
        }
        self.regs.push(regs);
        self.scripts[parent].push(Act::Spawn { f, pass: pass.to_vec() });
        self.regs[parent].push(RegInfo { script: f, awaitable: true });
        (f, self.regs[parent].len() - 1)
    }
    pub fn send(&mut self, s: usize, reg: usize) {
        self.send_tag(s, reg, s as u64)
    }
    /// a send with an explicit tag; sequence numbers count per (sender, receiver, tag)
    pub fn send_tag(&mut self, s: usize, reg: usize, tag: u64) {
        let target = self.regs[s][reg].script;
        let q = self.seqs.entry((s, target, tag)).or_insert(0);
        let seq = *q;
        *q += 1;
        self.scripts[s].push(Act::Send { reg, tag, seq });
    }
    pub fn recv(&mut self, s: usize) {
        self.scripts[s].push(Act::Select(vec![Src::Recv]));
    }
    pub fn await1(&mut self, s: usize, reg: usize) {
        self.scripts[s].push(Act::Select(vec![Src::Proc(reg)]));
    }
    pub fn select(&mut self, s: usize, srcs: Vec<Src>) {
        self.scripts[s].push(Act::Select(srcs));
    }
    pub fn fail(&mut self, s: usize) {
        self.scripts[s].push(Act::Fail);
    }
    pub fn finish(self, kind: &str, terminates: bool, confluent: bool) -> Scenario {
        Scenario { kind: kind.to_string(), scripts: self.scripts, terminates, confluent }
    }
}

/// static map: register of a script -> script it denotes
pub fn reg_scripts(sc: &Scenario) -> Vec<Vec<usize>> {
    let mut regs: Vec<Vec<usize>> = vec![vec![]; sc.scripts.len()];
    fn walk(sc: &Scenario, i: usize, init: Vec<usize>, regs: &mut Vec<Vec<usize>>) {
        let mut cur = init;
        for a in &sc.scripts[i] {
            if let Act::Spawn { f, pass } = a {
                let mut child = vec![*f];
                for r in pass {
                    child.push(cur.get(*r).copied().unwrap_or(0));
                }
                walk(sc, *f, child, regs);
                cur.push(*f);
            }
        }
        regs[i] = cur;
    }
    walk(sc, 0, vec![0], &mut regs);
    regs
}

/// static count of sends from script s to script r
pub fn send_counts(sc: &Scenario) -> HashMap<(usize, usize), u64> {
    let regs = reg_scripts(sc);
    let mut m = HashMap::new();
    for (s, script) in sc.scripts.iter().enumerate() {
        for a in script {
            if let Act::Send { reg, .. } = a {
                let r = regs[s].get(*reg).copied().unwrap_or(0);
                *m.entry((s, r)).or_insert(0) += 1;
            }
        }
    }
    m
}

/// static count of sends per (sender script, receiver script, tag)
pub fn send_tag_counts(sc: &Scenario) -> HashMap<(usize, usize, u64), u64> {
    let regs = reg_scripts(sc);
    let mut m = HashMap::new();
    for (s, script) in sc.scripts.iter().enumerate() {
        for a in script {
            if let Act::Send { reg, tag, .. } = a {
                let r = regs[s].get(*reg).copied().unwrap_or(0);
                *m.entry((s, r, *tag)).or_insert(0) += 1;
            }
        }
    }
    m
}

/// The front end rejects a send to a process that never receives and an await of a `me`
/// reference; the generator must not produce them.
pub fn well_typed(sc: &Scenario) -> bool {
    let regs = reg_scripts(sc);
    let receives: Vec<bool> = sc
        .scripts
        .iter()
        .map(|s| s.iter().any(|a| matches!(a, Act::Select(srcs) if srcs.iter().any(|x| matches!(x, Src::Recv | Src::RecvTag(_) | Src::RecvCls(_))))))
        .collect();
    for (s, script) in sc.scripts.iter().enumerate() {
        for a in script {
            match a {
                Act::Send { reg, .. } => {
                    let Some(r) = regs[s].get(*reg) else { return false };
                    if !receives[*r] {
                        return false;
                    }
                }
                Act::Select(srcs) => {
                    if srcs.is_empty() {
                        return false;
                    }
                    for x in srcs {
                        if let Src::Proc(r) = x
                            && (*r == 0 || *r >= regs[s].len())
                        {
                            return false;
                        }
                    }
                }
                _ => {}
            }
        }
    }
    true
}

pub const KINDS: &[&str] = &[
    "fan_in", "fan_out", "pipeline", "request_reply", "await_chain", "late_await", "unread_mail", "fail", "await_race", "stale_answer", "stale_failure", "selective", "typed_selective", "gap_select", "shared_await", "mix",
];

pub fn generate(r: &mut Rng, kind: &str) -> Scenario {
    match kind {
        "fan_in" => fan_in(r),
        "fan_out" => fan_out(r, false),
        "unread_mail" => fan_out(r, true),
        "pipeline" => pipeline(r),
        "request_reply" => request_reply(r),
        "await_chain" => await_chain(r),
        "late_await" => late_await(r),
        "fail" => failing(r),
        "await_race" => await_race(r),
        "stale_answer" => stale_answer(r),
        "stale_failure" => stale_failure(r),
        "selective" => selective(r),
        "typed_selective" => typed_selective(r),
        "gap_select" => gap_select(r),
        "shared_await" => shared_await(r),
        _ => mix(r),
    }
}

fn fan_in(r: &mut Rng) -> Scenario {
    let mut b = B::new();
    let k = 1 + r.usize(4);
    let mut total = 0;
    let mut kids = vec![];
    let mut early = 0;
    for _ in 0..k {
        let (f, reg) = b.spawn(0, &[0]);
        kids.push(reg);
        let m = 1 + r.usize(4);
        for _ in 0..m {
            b.send(f, 1);
        }
        total += m;
        // sometimes start receiving before all senders exist
        if r.chance(1, 3) && early < total {
            b.recv(0);
            early += 1;
        }
    }
    for _ in early..total {
        b.recv(0);
    }
    if r.chance(1, 2) {
        let mut ks = kids.clone();
        r.shuffle(&mut ks);
        for reg in ks {
            b.await1(0, reg);
        }
    }
    b.finish("fan_in", true, false)
}

fn fan_out(r: &mut Rng, unread: bool) -> Scenario {
    let mut b = B::new();
    let k = 1 + r.usize(4);
    let mut kids = vec![];
    let mut plan = vec![];
    for _ in 0..k {
        let (f, reg) = b.spawn(0, &[]);
        let m = 1 + r.usize(4);
        for _ in 0..m {
            b.recv(f);
        }
        kids.push(reg);
        let extra = if unread { r.usize(3) } else { 0 };
        for _ in 0..m + extra {
            plan.push(reg);
        }
    }
    r.shuffle(&mut plan);
    let late = if unread { r.usize(plan.len() + 1) } else { 0 };
    // `late` messages are sent after the awaits (to finished processes)
    let split = plan.len() - late.min(plan.len());
    // make sure every child gets what it needs before the awaits: move needed sends first
    let (first, rest): (Vec<usize>, Vec<usize>) = if unread {
        // needed = first m occurrences per child
        let mut need: HashMap<usize, usize> = HashMap::new();
        for (i, reg) in kids.iter().enumerate() {
            let f = b.regs[0][*reg].script;
            need.insert(*reg, b.scripts[f].len());
            let _ = i;
        }
        let mut first = vec![];
        let mut rest = vec![];
        for reg in plan {
            let n = need.get_mut(&reg).unwrap();
            if *n > 0 {
                *n -= 1;
                first.push(reg);
            } else {
                rest.push(reg);
            }
        }
        // some of the surplus goes before the awaits as well
        let cut = rest.len().saturating_sub(late);
        let mut f2 = first;
        f2.extend(rest[..cut].iter().copied());
        r.shuffle(&mut f2);
        // but needed messages must come first per child: keeping multiset is enough because all
        // messages to one child are interchangeable in content order (seq assigned at emission)
        (f2, rest[cut..].to_vec())
    } else {
        let _ = split;
        (plan, vec![])
    };
    for reg in first {
        b.send(0, reg);
    }
    let mut ks = kids.clone();
    r.shuffle(&mut ks);
    if ks.len() >= 2 && r.chance(1, 3) {
        // one multi-target await first (result is schedule dependent; routing is what matters)
        b.select(0, ks.iter().map(|x| Src::Proc(*x)).collect());
    }
    for reg in &ks {
        b.await1(0, *reg);
    }
    for reg in rest {
        b.send(0, reg);
    }
    b.finish(if unread { "unread_mail" } else { "fan_out" }, true, !unread)
}

fn pipeline(r: &mut Rng) -> Scenario {
    let mut b = B::new();
    let stages = 1 + r.usize(3);
    let m = 1 + r.usize(4);
    // sink first
    let (sink, sink_reg) = b.spawn(0, &[]);
    for _ in 0..m {
        b.recv(sink);
    }
    let mut next_reg = sink_reg;
    let mut all = vec![sink_reg];
    for _ in 0..stages {
        let (f, reg) = b.spawn(0, &[next_reg]);
        for _ in 0..m {
            b.recv(f);
            b.send(f, 1);
        }
        next_reg = reg;
        all.push(reg);
    }
    for _ in 0..m {
        b.send(0, next_reg);
    }
    b.await1(0, sink_reg);
    if r.chance(1, 2) {
        r.shuffle(&mut all);
        for reg in all {
            b.await1(0, reg);
        }
    }
    b.finish("pipeline", true, true)
}

fn request_reply(r: &mut Rng) -> Scenario {
    let mut b = B::new();
    let servers = 1 + r.usize(2);
    let mut regs = vec![];
    let mut rounds = vec![];
    for _ in 0..servers {
        let (f, reg) = b.spawn(0, &[0]);
        let n = 1 + r.usize(4);
        for _ in 0..n {
            b.recv(f);
            b.send(f, 1);
        }
        regs.push(reg);
        rounds.push(n);
    }
    let confluent = servers == 1;
    // main: requests and replies, interleaved across servers
    let mut pending = 0;
    let mut left = rounds.clone();
    while left.iter().any(|x| *x > 0) {
        let i = r.usize(servers);
        if left[i] == 0 {
            continue;
        }
        left[i] -= 1;
        b.send(0, regs[i]);
        pending += 1;
        if r.chance(2, 3) {
            b.recv(0);
            pending -= 1;
        }
    }
    for _ in 0..pending {
        b.recv(0);
    }
    for reg in regs {
        b.await1(0, reg);
    }
    b.finish("request_reply", true, confluent)
}

fn await_chain(r: &mut Rng) -> Scenario {
    let mut b = B::new();
    let len = 2 + r.usize(4);
    let mut regs: Vec<usize> = vec![];
    let mut first_needs_msg = false;
    for i in 0..len {
        if i == 0 {
            let (f, reg) = b.spawn(0, &[]);
            if r.chance(1, 2) {
                b.recv(f);
                first_needs_msg = true;
            }
            regs.push(reg);
        } else {
            // awaits one or several of the earlier ones
            let mut pass = vec![*regs.last().unwrap()];
            if regs.len() >= 2 && r.chance(1, 2) {
                pass.push(regs[r.usize(regs.len() - 1)]);
            }
            let (f, reg) = b.spawn(0, &pass);
            if pass.len() == 2 && r.chance(1, 2) {
                b.select(f, vec![Src::Proc(1), Src::Proc(2)]);
            }
            for k in 0..pass.len() {
                b.await1(f, 1 + k);
            }
            regs.push(reg);
        }
    }
    if first_needs_msg {
        b.send(0, regs[0]);
    }
    b.await1(0, *regs.last().unwrap());
    // late awaits of finished processes, single and multi-target
    let mut order = regs.clone();
    r.shuffle(&mut order);
    if r.chance(1, 2) {
        b.select(0, order.iter().take(3).map(|x| Src::Proc(*x)).collect());
    }
    for reg in order {
        if r.chance(2, 3) {
            b.await1(0, reg);
        }
    }
    b.finish("await_chain", true, false)
}

fn late_await(r: &mut Rng) -> Scenario {
    let mut b = B::new();
    let k = 1 + r.usize(4);
    let mut regs = vec![];
    for _ in 0..k {
        let (_f, reg) = b.spawn(0, &[]);
        regs.push(reg);
    }
    // a ping-pong partner to pass time
    let (p, preg) = b.spawn(0, &[0]);
    let n = 1 + r.usize(3);
    for _ in 0..n {
        b.recv(p);
        b.send(p, 1);
    }
    for _ in 0..n {
        b.send(0, preg);
        b.recv(0);
    }
    r.shuffle(&mut regs);
    if regs.len() >= 2 && r.chance(1, 2) {
        b.select(0, regs.iter().map(|x| Src::Proc(*x)).collect());
    }
    for reg in &regs {
        b.await1(0, *reg);
    }
    // await again (result already known locally, a fresh query is made anyway)
    if r.chance(1, 2) {
        b.await1(0, regs[0]);
    }
    b.await1(0, preg);
    b.finish("late_await", true, true)
}

fn failing(r: &mut Rng) -> Scenario {
    let mut b = B::new();
    let (f, reg) = b.spawn(0, &[0]);
    let m = r.usize(3);
    for _ in 0..m {
        b.send(f, 1);
    }
    b.fail(f);
    let (g, greg) = b.spawn(0, &[reg]);
    // g awaits the failing process: the error propagates
    b.await1(g, 1);
    for _ in 0..m {
        b.recv(0);
    }
    if r.chance(1, 2) {
        b.await1(0, greg);
    } else {
        b.await1(0, reg);
    }
    b.finish("fail", true, false)
}

/// the F8 shape: several targets on few workers finishing at different moments while the initial
/// query of a multi-target await is pending
fn await_race(r: &mut Rng) -> Scenario {
    let mut b = B::new();
    let k = 2 + r.usize(3);
    let mut regs = vec![];
    let mut waiting = vec![];
    for _ in 0..k {
        let (f, reg) = b.spawn(0, &[]);
        if r.chance(1, 2) {
            b.recv(f);
            waiting.push(reg);
        }
        regs.push(reg);
        if r.chance(1, 3) {
            // padding process (shifts round-robin placement)
            b.spawn(0, &[]);
        }
    }
    // a trigger process that releases the waiting ones after a pause
    if !waiting.is_empty() {
        let pass: Vec<usize> = waiting.clone();
        let (t, _treg) = b.spawn(0, &pass);
        if r.chance(1, 2) {
            b.select(t, vec![Src::Timeout(1 + r.below(8))]);
        }
        for i in 0..pass.len() {
            b.send(t, 1 + i);
        }
    }
    let mut order = regs.clone();
    r.shuffle(&mut order);
    b.select(0, order.iter().map(|x| Src::Proc(*x)).collect());
    for reg in &regs {
        b.await1(0, *reg);
    }
    b.finish("await_race", true, false)
}

/// random tree of processes with random actions; may deadlock by design (terminates = false)
fn mix(r: &mut Rng) -> Scenario {
    let mut b = B::new();
    let nproc = 2 + r.usize(4);
    // build the tree first
    let mut order = vec![0usize];
    for _ in 1..nproc {
        let parent = *r.pick(&order);
        let nregs = b.regs[parent].len();
        let mut pass = vec![];
        for reg in 0..nregs {
            if r.chance(1, 2) {
                pass.push(reg);
            }
        }
        let (f, _) = b.spawn(parent, &pass);
        order.push(f);
        // a few actions of the parent between spawns
        random_actions(&mut b, r, parent, 2);
    }
    for s in 0..nproc {
        let n = r.usize(5);
        random_actions(&mut b, r, s, n);
    }
    // every process that is sent to must have a receive somewhere: add one at the end if missing
    let sc0 = Scenario { kind: "mix".into(), scripts: b.scripts.clone(), terminates: false, confluent: false };
    let regs = reg_scripts(&sc0);
    let mut needs = vec![false; nproc];
    for (s, script) in sc0.scripts.iter().enumerate() {
        for a in script {
            if let Act::Send { reg, .. } = a {
                needs[regs[s][*reg]] = true;
            }
        }
    }
    for s in 0..nproc {
        let has = b.scripts[s].iter().any(|a| matches!(a, Act::Select(x) if x.contains(&Src::Recv)));
        if needs[s] && !has {
            b.select(s, vec![Src::Recv, Src::Timeout(r.below(6))]);
        }
    }
    b.finish("mix", false, false)
}

fn random_actions(b: &mut B, r: &mut Rng, s: usize, n: usize) {
    for _ in 0..n {
        let nregs = b.regs[s].len();
        match r.usize(6) {
            0 | 1 => {
                let reg = r.usize(nregs);
                b.send(s, reg);
            }
            2 => b.recv(s),
            3 => {
                let aw: Vec<usize> = (0..nregs).filter(|x| b.regs[s][*x].awaitable).collect();
                if !aw.is_empty() {
                    let reg = *r.pick(&aw);
                    b.await1(s, reg);
                }
            }
            4 => {
                let mut srcs = vec![];
                let aw: Vec<usize> = (0..nregs).filter(|x| b.regs[s][*x].awaitable).collect();
                for reg in aw {
                    if r.chance(1, 2) {
                        srcs.push(Src::Proc(reg));
                    }
                }
                if r.chance(1, 2) {
                    srcs.push(Src::Recv);
                }
                if r.chance(2, 3) || srcs.is_empty() {
                    srcs.push(Src::Timeout(r.below(10)));
                }
                r.shuffle(&mut srcs);
                b.select(s, srcs);
            }
            _ => {
                b.select(s, vec![Src::Recv, Src::Timeout(r.below(6))]);
            }
        }
    }
}

/// A select on [process, receive] completes through the message while the initial await answer
/// is still travelling; the process goes on to spawn / select / send. The late answer must not
/// disturb it.
fn stale_answer(r: &mut Rng) -> Scenario {
    let mut b = B::new();
    let (slow, slow_reg) = b.spawn(0, &[]);
    if r.chance(1, 2) {
        b.select(slow, vec![Src::Timeout(5 + r.below(60))]);
    } else {
        b.recv(slow);
    }
    let (pinger, _) = b.spawn(0, &[0]);
    b.send(pinger, 1);
    if r.chance(1, 2) {
        b.select(0, vec![Src::Proc(slow_reg), Src::Recv]);
    } else {
        b.select(0, vec![Src::Recv, Src::Proc(slow_reg)]);
    }
    let mut kids = vec![];
    for _ in 0..1 + r.usize(3) {
        match r.usize(3) {
            0 | 1 => {
                let (_f, reg) = b.spawn(0, &[]);
                kids.push(reg);
            }
            _ => {
                if b.scripts[slow].iter().any(|a| matches!(a, Act::Select(s) if s.contains(&Src::Recv))) {
                    b.send(0, slow_reg);
                }
            }
        }
    }
    for reg in kids {
        b.await1(0, reg);
    }
    // the slow process may still wait for a message
    if b.scripts[slow].iter().any(|a| matches!(a, Act::Select(s) if s.contains(&Src::Recv))) {
        b.send(0, slow_reg);
    }
    b.await1(0, slow_reg);
    b.finish("stale_answer", true, false)
}

/// F17 shape: a select on [failing process, receive] completes through a message; the process
/// fails later and its failure report (the awaiter is still registered at that worker) arrives
/// while the initial answer of the NEXT select - on processes of several workers, with a timeout or
/// a message already waiting - is being collected.
fn stale_failure(r: &mut Rng) -> Scenario {
    let mut b = B::new();
    let (bad, bad_reg) = b.spawn(0, &[]);
    b.recv(bad);
    b.fail(bad);
    let (pinger, _) = b.spawn(0, &[0]);
    b.send(pinger, 1);
    let extra_msg = r.chance(1, 2);
    if extra_msg {
        b.send(pinger, 1);
    }
    let k = 1 + r.usize(3);
    let mut waiters = vec![];
    for _ in 0..k {
        let (f, reg) = b.spawn(0, &[]);
        b.recv(f);
        waiters.push(reg);
    }
    if r.chance(1, 2) {
        b.select(0, vec![Src::Proc(bad_reg), Src::Recv]);
    } else {
        b.select(0, vec![Src::Recv, Src::Proc(bad_reg)]);
    }
    b.send(0, bad_reg);
    let mut srcs: Vec<Src> = waiters.iter().map(|x| Src::Proc(*x)).collect();
    if extra_msg && r.chance(1, 2) {
        srcs.push(Src::Recv);
    } else {
        srcs.push(Src::Timeout(1 + r.below(30)));
    }
    b.select(0, srcs);
    // release the waiters and collect them
    for reg in &waiters {
        b.send(0, *reg);
    }
    for reg in &waiters {
        b.await1(0, *reg);
    }
    b.finish("stale_failure", true, false)
}

// ------------------------------------------------------------------------------------------
// confluent scenarios (C03): every mailbox has ONE sender, every select ONE source, no timeouts
// ------------------------------------------------------------------------------------------

/// Random process tree. For every child the parent picks a session: `oneway(k)` (parent sends k
/// messages, child receives k), `reply(k)` (k request/reply rounds; only if the parent does not
/// itself receive from its own parent and has no other replying child, so that its mailbox keeps a
/// single sender) or `none`. Every process awaits all its children (single awaits) and returns
/// everything it received and awaited: the result of the main process determines all others.
pub fn confluent(r: &mut Rng) -> Scenario {
    let mut b = B::new();
    let budget = 2 + r.usize(6);
    let mut count = 1usize;
    build_confluent(&mut b, r, 0, false, &mut count, budget, 0);
    b.finish("confluent", true, true)
}

fn build_confluent(b: &mut B, r: &mut Rng, p: usize, receives_from_parent: bool, count: &mut usize, budget: usize, depth: usize) {
    let nkids = if depth >= 3 || *count >= budget { 0 } else { 1 + r.usize(3) };
    let mut kids: Vec<(usize, usize)> = vec![]; // (script, reg in p)
    let mut has_reply_child = false;
    // sessions are collected first so that all children exist before the traffic starts (or not)
    let mut sessions: Vec<(usize, usize, u8, usize)> = vec![]; // (script, reg, mode, k)
    for _ in 0..nkids {
        if *count >= budget {
            break;
        }
        *count += 1;
        let mode = match r.usize(4) {
            0 => 0u8,
            1 | 2 => 1u8,
            _ => {
                if !receives_from_parent && !has_reply_child {
                    has_reply_child = true;
                    2u8
                } else {
                    1u8
                }
            }
        };
        let pass: Vec<usize> = if mode == 2 { vec![0] } else { vec![] };
        let (f, reg) = b.spawn(p, &pass);
        let k = 1 + r.usize(3);
        kids.push((f, reg));
        sessions.push((f, reg, mode, k));
        // the child's own part of the session comes first in its script
        match mode {
            1 => {
                for _ in 0..k {
                    b.recv(f);
                }
            }
            2 => {
                for _ in 0..k {
                    b.recv(f);
                    b.send(f, 1);
                }
            }
            _ => {}
        }
        // then its own subtree
        build_confluent(b, r, f, mode != 0, count, budget, depth + 1);
        // sometimes run the session right away, before the next sibling is spawned
        if r.chance(1, 2) {
            let (f2, reg2, mode2, k2) = sessions.pop().unwrap();
            run_session(b, p, f2, reg2, mode2, k2);
        }
    }
    // remaining sessions, one after the other or with interleaved one-way sends
    let mut pending: Vec<(usize, usize)> = vec![];
    for (f, reg, mode, k) in sessions {
        if mode == 1 && r.chance(1, 2) {
            pending.push((reg, k));
        } else {
            run_session(b, p, f, reg, mode, k);
        }
    }
    while !pending.is_empty() {
        let i = r.usize(pending.len());
        b.send(p, pending[i].0);
        pending[i].1 -= 1;
        if pending[i].1 == 0 {
            pending.remove(i);
        }
    }
    // await all children, in random but fixed (script) order
    let mut order = kids.clone();
    r.shuffle(&mut order);
    for (_, reg) in order {
        b.await1(p, reg);
    }
}

fn run_session(b: &mut B, p: usize, _f: usize, reg: usize, mode: u8, k: usize) {
    match mode {
        1 => {
            for _ in 0..k {
                b.send(p, reg);
            }
        }
        2 => {
            for _ in 0..k {
                b.send(p, reg);
                b.recv(p);
            }
        }
        _ => {}
    }
}

/// Selective receive: several senders (tag = script index) send to one receiver, which picks the
/// messages by tag filter in an order of its own (plus priority selects over two filters and
/// unfiltered receives at the end). Messages that do not match stay in the mailbox.
pub fn selective(r: &mut Rng) -> Scenario {
    let mut b = B::new();
    let k = 2 + r.usize(3);
    let mut plan: Vec<u64> = vec![];
    let mut kids = vec![];
    for _ in 0..k {
        let (f, reg) = b.spawn(0, &[0]);
        let m = 1 + r.usize(3);
        for _ in 0..m {
            b.send(f, 1);
            plan.push(f as u64);
        }
        kids.push(reg);
    }
    r.shuffle(&mut plan);
    // the last few are taken unfiltered, some pairs by a two-filter priority select
    let unfiltered = r.usize(plan.len().min(3) + 1);
    let n = plan.len();
    let mut i = 0;
    while i < n - unfiltered {
        let later_uses = |t: u64| plan[i + 2..n - unfiltered].contains(&t);
        if i + 1 < n - unfiltered && plan[i] != plan[i + 1] && !later_uses(plan[i]) && !later_uses(plan[i + 1]) && r.chance(1, 2) {
            // either of the two may come first; no later filtered select needs these tags, so
            // whatever the two selects take, the rest of the script still finds its messages
            b.select(0, vec![Src::RecvTag(plan[i]), Src::RecvTag(plan[i + 1])]);
            b.select(0, vec![Src::RecvTag(plan[i]), Src::RecvTag(plan[i + 1])]);
            i += 2;
        } else {
            b.select(0, vec![Src::RecvTag(plan[i])]);
            i += 1;
        }
    }
    for _ in 0..unfiltered {
        b.recv(0);
    }
    if r.chance(1, 2) {
        for reg in kids {
            b.await1(0, reg);
        }
    }
    b.finish("selective", true, false)
}

/// Which single-source receives take a message sequence (given by its tags) completely, each one
/// a definite message whatever has arrived so far: a receive takes the FIRST message it accepts
/// among those still queued, and with one sender the queue is a prefix of the rest of the
/// sequence, so the first accepted message of the prefix (if any) is the first of the whole rest.
fn consume_plan(r: &mut Rng, seq_tags: &[u64]) -> Vec<Src> {
    let mut remaining: Vec<u64> = seq_tags.to_vec();
    let mut plan = vec![];
    let front_first = if r.chance(1, 2) { 0 } else { r.usize(5) };
    while !remaining.is_empty() {
        // often: a FILTER whose message type excludes the oldest queued message
        let other_type = remaining.iter().position(|x| (*x >= CLASS_B) != (remaining[0] >= CLASS_B));
        let pick_other = plan.len() >= front_first && other_type.is_some() && r.chance(1, 2);
        let idx = if pick_other {
            other_type.unwrap()
        } else if plan.len() < front_first {
            0
        } else {
            r.usize(remaining.len())
        };
        let t = remaining[idx];
        let cls = t >= CLASS_B;
        let first_tag = remaining.iter().position(|x| *x == t).unwrap();
        let first_cls = remaining.iter().position(|x| (*x >= CLASS_B) == cls).unwrap();
        let (src, take) = match if pick_other { r.usize(3) } else { r.usize(5) } {
            0 | 1 => (Src::RecvTag(t), first_tag),
            2 | 3 => (Src::RecvCls(cls), first_cls),
            _ => (Src::Recv, 0),
        };
        plan.push(src);
        remaining.remove(take);
    }
    plan
}

/// CONFLUENT selective receives: one sender per mailbox, messages of two TYPES and several tags,
/// 3–10 per mailbox (the mailbox's ring buffer starts with capacity 4), taken OUT OF ARRIVAL ORDER
/// by single-source selects — filters on the tag (older messages of the other type are passed
/// over without calling the filter, older ones of the same type are turned down by it), typed
/// receives of one message type, plain receives of both — after some were taken from the front.
pub fn typed_selective(r: &mut Rng) -> Scenario {
    let mut b = B::new();
    let pairs = 1 + r.usize(2);
    let mut kids = vec![];
    let mut main_receives = false;
    let mut late: Vec<(usize, Vec<u64>)> = vec![];
    for _ in 0..pairs {
        let m = 3 + r.usize(8);
        let na = 1 + r.usize(3) as u64;
        let nb = r.usize(3) as u64;
        let tags: Vec<u64> = (0..na).map(|i| 1 + i).chain((0..nb).map(|i| CLASS_B + i)).collect();
        let seq_tags: Vec<u64> = (0..m).map(|_| tags[r.usize(tags.len())]).collect();
        let plan = consume_plan(r, &seq_tags);
        if !main_receives && r.chance(1, 2) {
            // the child sends, main receives
            main_receives = true;
            let (f, reg) = b.spawn(0, &[0]);
            for t in &seq_tags {
                b.send_tag(f, 1, *t);
            }
            // sometimes main first awaits the sender: everything is queued when it starts receiving
            let await_first = r.chance(1, 2);
            if await_first {
                b.await1(0, reg);
            }
            for src in &plan {
                b.select(0, vec![src.clone()]);
            }
            if !await_first {
                kids.push(reg);
            }
        } else {
            // main sends, the child receives
            let (f, reg) = b.spawn(0, &[]);
            for src in &plan {
                b.select(f, vec![src.clone()]);
            }
            if r.chance(1, 3) {
                late.push((reg, seq_tags));
            } else {
                for t in &seq_tags {
                    b.send_tag(0, reg, *t);
                }
            }
            kids.push(reg);
        }
    }
    for (reg, seq_tags) in late {
        for t in &seq_tags {
            b.send_tag(0, reg, *t);
        }
    }
    r.shuffle(&mut kids);
    for reg in kids {
        b.await1(0, reg);
    }
    b.finish("typed_selective", true, true)
}

/// CONFLUENT two-source selects: `! [earlier, later]` where `later` is a receive with a filter
/// BODY that turns down every message the single sender ever sends, and `earlier` becomes ready
/// only after some of those messages: a type-only or filtered receive of a message the sender
/// sends LAST, or a process source whose target finishes only when main lets it.  Whatever has
/// arrived when the select is evaluated, `later` never completes it, so the outcome is the
/// `earlier` source on every schedule.  What the schedule does decide is WHEN the message (or
/// the await answer) for `earlier` arrives: before the select starts, after it has parked, or in
/// the gap between a filter call on a turned-down message (a filter call ends the time slice, and
/// the worker drains its commands before the select is re-entered) and the evaluation of its
/// verdict.  Several turned-down messages make several gaps.
pub fn gap_select(r: &mut Rng) -> Scenario {
    let mut b = B::new();
    let rounds = 1 + r.usize(2);
    let mut kids = vec![];
    for round in 0..rounds {
        let kb = CLASS_B + 2 * round as u64; // the tag the later source asks for: never sent
        let kb_other = kb + 1; // what is sent instead
        let ka = 1 + round as u64;
        let rejected = 1 + r.usize(4);
        match r.usize(3) {
            0 | 1 => {
                // main sends, the child selects
                let by_filter = r.chance(1, 2);
                let earlier = if by_filter { Src::RecvTag(ka) } else { Src::RecvCls(false) };
                let (f, reg) = b.spawn(0, &[]);
                b.select(f, vec![earlier, Src::RecvTag(kb)]);
                // afterwards the child may read what it turned down
                let reads = r.usize(rejected + 1);
                for _ in 0..reads {
                    b.select(f, vec![Src::RecvCls(true)]);
                }
                for _ in 0..rejected {
                    b.send_tag(0, reg, kb_other);
                }
                b.send_tag(0, reg, ka);
                kids.push(reg);
            }
            _ => {
                // the earlier source is a process that finishes when main lets it
                let (c, creg) = b.spawn(0, &[]);
                b.recv(c);
                let (f, reg) = b.spawn(0, &[creg]);
                b.select(f, vec![Src::Proc(1), Src::RecvTag(kb)]);
                for _ in 0..rejected {
                    b.send_tag(0, reg, kb_other);
                }
                b.send(0, creg);
                kids.push(reg);
                if r.chance(1, 2) {
                    kids.push(creg);
                }
            }
        }
    }
    r.shuffle(&mut kids);
    for reg in kids {
        b.await1(0, reg);
    }
    b.finish("gap_select", true, true)
}

/// CONFLUENT shared targets: several DIFFERENT processes await the same process while it is still
/// running (it finishes only when main sends it a message, after the awaiters have been spawned
/// and - with some idle traffic in between - have asked).  Fillers shift the round-robin placement,
/// so that for some worker counts the awaiters live on other workers than the target and on the
/// same worker as each other.  Every awaiter yields the target's result, on every schedule and
/// for every worker count.
pub fn shared_await(r: &mut Rng) -> Scenario {
    let mut b = B::new();
    let targets = 1 + r.usize(2);
    let mut all_awaiters = vec![];
    let mut target_regs = vec![];
    for _ in 0..targets {
        let (t, treg) = b.spawn(0, &[]);
        b.recv(t);
        target_regs.push(treg);
        let awaiters = 2 + r.usize(3);
        for _ in 0..awaiters {
            for _ in 0..r.usize(3) {
                let (_d, dreg) = b.spawn(0, &[]);
                if r.chance(1, 3) {
                    all_awaiters.push(dreg);
                }
            }
            let (a, areg) = b.spawn(0, &[treg]);
            b.await1(a, 1);
            if r.chance(1, 4) {
                b.await1(a, 1);
            }
            all_awaiters.push(areg);
        }
    }
    // pass time so that the queries reach the targets' workers while the targets are running
    if r.chance(2, 3) {
        let (p, preg) = b.spawn(0, &[0]);
        let n = 1 + r.usize(3);
        for _ in 0..n {
            b.recv(p);
            b.send(p, 1);
        }
        for _ in 0..n {
            b.send(0, preg);
            b.recv(0);
        }
        all_awaiters.push(preg);
    }
    for treg in &target_regs {
        b.send(0, *treg);
    }
    r.shuffle(&mut all_awaiters);
    for reg in all_awaiters {
        b.await1(0, reg);
    }
    if r.chance(1, 2) {
        for treg in &target_regs {
            b.await1(0, *treg);
        }
    }
    b.finish("shared_await", true, true)
}

/// Static check of the confluence class: every select has one source, no timeouts, every mailbox
/// has a single sender script.  The family `gap_select` is confluent by construction with
/// two-source selects (see there): accepted by its shape — two sources, the later one a filtered
/// receive of a tag nobody sends.
pub fn is_confluent(sc: &Scenario) -> bool {
    let regs = reg_scripts(sc);
    let mut sender: HashMap<usize, usize> = HashMap::new();
    for (s, script) in sc.scripts.iter().enumerate() {
        for a in script {
            match a {
                Act::Send { reg, .. } => {
                    let Some(t) = regs[s].get(*reg) else { return false };
                    if let Some(prev) = sender.insert(*t, s)
                        && prev != s
                    {
                        return false;
                    }
                }
                Act::Select(srcs) => {
                    let gap_shape = srcs.len() == 2
                        && !matches!(srcs[0], Src::Timeout(_))
                        && matches!(srcs[1], Src::RecvTag(k) if !sc.scripts.iter().flatten().any(|a| matches!(a, Act::Send { tag, .. } if *tag == k)));
                    if !gap_shape && (srcs.len() != 1 || matches!(srcs[0], Src::Timeout(_))) {
                        return false;
                    }
                }
                Act::Fail => return false,
                _ => {}
            }
        }
    }
    true
}
