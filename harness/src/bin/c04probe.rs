//! scratch probe (not registered): replay a replay-file (scenario + schedule) and dump the await protocol history
#[path = "msys/mod.rs"]
mod msys;
use msys::*;
use qverif::Model;
use quiver_environment::{Command, Event};
fn main() {
    qverif::quiet_panics();
    let args: Vec<String> = std::env::args().collect();
    let j: serde_json::Value = serde_json::from_str(&std::fs::read_to_string(&args[1]).unwrap()).unwrap();
    let r = &j["replay"];
    let scripts = parse_scripts(r["scenario"]["scripts"].as_str().unwrap()).expect("scripts");
    let n = r["workers"].as_u64().unwrap() as usize;
    let q = r["quantum"].as_u64().map(|x| x as usize);
    let sc = Scenario { kind: "probe".into(), scripts, terminates: true, confluent: false };
    println!("{}", sc.source());
    let mut model = Model::spawn(std::path::Path::new("/verif/lean/.lake/build/bin/qm_c04"));
    let (mut sim, req) = start(&sc, n, q).expect("start");
    for ch in &sim.chans { ch.chan.lock().unwrap().record = true; }
    sim.schedule.clear();
    let mut lock = Lock::new(sim, Some(&mut model));
    lock.ask_model(init_line(&sc, n, req), "init");
    for c in r["schedule"].as_array().unwrap() {
        let ch = parse_choice(c.as_str().unwrap(), n).unwrap();
        lock.step(ch);
    }
    println!("mismatch: {:?}", lock.mismatch.as_ref().map(|m| (&m.0, &m.1)));
    let mut log: Vec<(u64, String)> = vec![];
    for (i, ch) in lock.sim.chans.iter().enumerate() {
        let c = ch.chan.lock().unwrap();
        for (seq, e) in &c.evt_log {
            match e {
                Event::ProcessResults { awaiter, results } => log.push((*seq, format!("W{i} evt ProcessResults awaiter={awaiter} {:?}", results.iter().map(|(k, v)| (*k, v.is_some())).collect::<Vec<_>>()))),
                Event::AwaitAction { awaiter, targets } => log.push((*seq, format!("W{i} evt Await awaiter={awaiter} {targets:?}"))),
                _ => {}
            }
        }
        for (seq, e) in &c.cmd_log {
            match e {
                Command::UpdateAwaitResults { awaiter, results } => log.push((*seq, format!("W{i} cmd Update awaiter={awaiter} {:?}", results.iter().map(|(k, v)| (*k, v.is_some())).collect::<Vec<_>>()))),
                Command::QueryAndAwait { awaiter, targets } => log.push((*seq, format!("W{i} cmd Query awaiter={awaiter} {targets:?}"))),
                _ => {}
            }
        }
    }
    log.sort();
    for (s, l) in log { println!("{s:4} {l}"); }
    println!("{}", snapshot(&lock.sim));
    println!("{}", lock.model.as_mut().unwrap().ask("(ghost)"));
}
