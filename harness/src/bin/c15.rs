//! C15 — failures are contained and propagate only to awaiters; workers never crash.
//!
//! A scenario is a system of processes spawned by the main (REPL) process: processes that FAIL (a
//! builtin domain error now / after a countdown / after a `Go` message; a forbidden operation or an
//! error inside a receive function, triggered by a message), AWAITERS of earlier processes (plain
//! `!p`, with a timeout before / after, with a receive source; awaiting at once or only after a `Go`,
//! i.e. before, during or after the failure; chains of awaiters), and BYSTANDERS (constants after a
//! countdown, receivers that add up messages, senders that send `Go` to other processes — including
//! processes that have already failed). The main process sends the `Go`s and messages in a random
//! order with sleeps and spins, and optionally awaits one process itself.
//!
//! The system runs on the real Environment + Workers under `qverif::sim` with random schedules, 1–3
//! workers, time slices 1…1000 and random clock ticks, until it is quiescent.
//!
//! Correspondence (every step of every worker): the commands the step will consume and the observed
//! end of the running process's time slice (with that process's own record: the body is abstract)
//! go to the Lean model `qm_c15` (Core/Exec/Error.lean); the model computes what the executor and the
//! worker do AROUND the slice — awaiter notification, failure recording, wake-ups, the await registry,
//! the `ProcessResults` events — and the resulting records of ALL processes of the worker, the run
//! queue, the parked sets and the emitted events are compared with the real worker.
//!
//! Oracle on the implementation: at quiescence every process has a result; a failing process carries
//! its error class; every (transitive) awaiter carries the SAME class; every bystander its normal
//! value; no panic and no `Err` from `Worker::step` / `Environment::step` (`sim.faults`).
use qverif::sim::*;
use qverif::{Ev, Model, Opts, Rng};
use quiver_core::value::Value;
use quiver_environment::{Command, Event};
use serde::{Deserialize, Serialize};
use serde_json::json;
use std::collections::{BTreeSet, HashMap};

#[derive(Clone, Copy, Debug, PartialEq, Eq, Hash, Serialize, Deserialize)]
enum FailKind {
    DivZero,
    ModZero,
    SqrtNeg,
    FilterSend,
    FilterSpawn,
    FilterDiv,
    /// an effect whose submission fails (`EffectBackend::execute` → Err → `report_effect_error`)
    EffectSubmitError,
    /// an effect that completes at once with an error (`Ok(Some(Err))` → `handle_effect_completion`)
    EffectSyncError,
    /// an effect that completes later with an error (`process_completions`)
    EffectAsyncError,
}

impl FailKind {
    fn class(&self) -> &'static str {
        match self {
            FailKind::FilterSend | FailKind::FilterSpawn => "OperationNotAllowed",
            _ => "InvalidArgument",
        }
    }
    fn in_filter(&self) -> bool {
        matches!(self, FailKind::FilterSend | FailKind::FilterSpawn | FailKind::FilterDiv)
    }
    fn expr(&self) -> &'static str {
        match self {
            FailKind::DivZero => "[1, 0] __integer_divide__",
            FailKind::ModZero => "[1, 0] __integer_modulo__",
            FailKind::SqrtNeg => "-4 __integer_sqrt__",
            FailKind::FilterSend => "! [#'int { 7 sink, Ok }]",
            FailKind::FilterSpawn => "! [#'int { @{ 1 }, Ok }]",
            FailKind::FilterDiv => "! [#'int { [1, 0] __integer_divide__ }]",
            FailKind::EffectSubmitError => "[\"/submit-error/x\" .0, 0, 0] __file_open__, 1",
            FailKind::EffectSyncError => "[\"/sync-error/x\" .0, 0, 0] __file_open__, 1",
            FailKind::EffectAsyncError => "[\"/async-error/x\" .0, 0, 0] __file_open__, 1",
        }
    }
}

#[derive(Clone, Debug, PartialEq, Eq, Hash, Serialize, Deserialize)]
enum Trigger {
    Now,
    Countdown(u32),
    Go,
}

#[derive(Clone, Debug, PartialEq, Eq, Hash, Serialize, Deserialize)]
enum AwaitForm {
    Single,
    BigTimeoutAfter,
    BigTimeoutBefore,
    SmallTimeoutFirst(u64),
    /// `! [p, ms]`: the await has priority, the timeout usually fires first
    SmallTimeoutAfter(u64),
    WithReceive,
    /// `! [p, #'int { N slow, VERDICT }]` with an int sent before the target ends: the target's completion
    /// or failure lands while the receive function is in flight (or just before / after)
    BeforeFilter { slow: u32, accept: bool },
    /// `! [p, d…]` / `! [d…, p]` with daemons `d` (processes that never finish) living on other workers: the
    /// initial await query is answered by several workers and merged by the environment
    WithDaemons { daemons: Vec<usize>, target_first: bool },
}

#[derive(Clone, Debug, PartialEq, Eq, Hash, Serialize, Deserialize)]
enum Role {
    Fail { kind: FailKind, trigger: Trigger },
    Await { target: usize, form: AwaitForm, late: bool },
    Const { v: i64, spin: u32 },
    Recv { n: usize },
    Sender { target: usize, n: usize, v: i64, spin: u32 },
    /// never finishes (waits for a message nobody sends); exempt from the "every process ends" oracle
    Daemon,
}

#[derive(Clone, Debug, PartialEq, Eq, Hash, Serialize, Deserialize)]
enum ActKind {
    Go(usize),
    Int(usize, i64),
}

#[derive(Clone, Debug, PartialEq, Eq, Hash, Serialize, Deserialize)]
struct Act {
    sleep: Option<u64>,
    spin: u32,
    kind: ActKind,
}

#[derive(Clone, Debug, PartialEq, Eq, Hash, Serialize, Deserialize)]
struct Scenario {
    procs: Vec<Role>,
    script: Vec<Act>,
    main_awaits: Option<usize>,
}

#[derive(Clone, Debug, Serialize, Deserialize)]
struct Case {
    scenario: Scenario,
    workers: usize,
    quantum: Option<usize>,
    sched_seed: u64,
}

impl Scenario {
    fn uses_sink(&self) -> bool {
        self.procs.iter().any(|r| matches!(r, Role::Fail { kind: FailKind::FilterSend, .. }))
    }
    fn pid(&self, i: usize) -> usize {
        i + 1 + self.uses_sink() as usize
    }
    /// does process i accept `Go` messages?
    fn takes_go(&self, i: usize) -> bool {
        match &self.procs[i] {
            Role::Fail { kind, trigger } => !kind.in_filter() && *trigger == Trigger::Go,
            Role::Await { late, .. } => *late,
            _ => false,
        }
    }
    fn source(&self) -> String {
        let mut lines = vec!["slow = #'int { | =0 => Ok | [~, 1] __integer_subtract__ ^ }".to_string()];
        if self.uses_sink() {
            lines.push("sink = @{ !#'int }".to_string());
        }
        for (i, r) in self.procs.iter().enumerate() {
            let body = match r {
                Role::Fail { kind, trigger } => {
                    if kind.in_filter() {
                        kind.expr().to_string()
                    } else {
                        match trigger {
                            Trigger::Now => kind.expr().to_string(),
                            Trigger::Countdown(n) => format!("{n} slow, {}", kind.expr()),
                            Trigger::Go => format!("!#Go, {}", kind.expr()),
                        }
                    }
                }
                Role::Await { target, form, late } => {
                    let pre = if *late { "!#Go, " } else { "" };
                    let sel = match form {
                        AwaitForm::Single => format!("!p{target}"),
                        AwaitForm::BigTimeoutAfter => format!("! [p{target}, 1000000]"),
                        AwaitForm::BigTimeoutBefore => format!("! [1000000, p{target}]"),
                        AwaitForm::SmallTimeoutFirst(ms) => format!("! [{ms}, p{target}]"),
                        AwaitForm::SmallTimeoutAfter(ms) => format!("! [p{target}, {ms}]"),
                        AwaitForm::WithReceive => format!("! [#'bin, p{target}]"),
                        AwaitForm::WithDaemons { daemons, target_first } => {
                            let ds: Vec<String> = daemons.iter().map(|d| format!("p{d}")).collect();
                            if *target_first { format!("! [p{target}, {}]", ds.join(", ")) } else { format!("! [{}, p{target}]", ds.join(", ")) }
                        }
                        AwaitForm::BeforeFilter { slow, accept } => {
                            format!("! [p{target}, #'int {{ {slow} slow, {} }}]", if *accept { "Ok" } else { "[]" })
                        }
                    };
                    format!("{pre}{sel}")
                }
                Role::Const { v, spin } => {
                    if *spin > 0 { format!("{spin} slow, {v}") } else { format!("{v}") }
                }
                Role::Recv { n } => {
                    if *n == 1 {
                        "!#'int".to_string()
                    } else {
                        "!#'int =a, !#'int =b, [a, b] __integer_add__".to_string()
                    }
                }
                Role::Daemon => "!#Never".to_string(),
                Role::Sender { target, n, v, spin } => {
                    let mut s = String::new();
                    if *spin > 0 {
                        s.push_str(&format!("{spin} slow, "));
                    }
                    for _ in 0..*n {
                        s.push_str(&format!("Go p{target}, "));
                    }
                    s.push_str(&format!("{v}"));
                    s
                }
            };
            lines.push(format!("p{i} = @{{ {body} }}"));
        }
        for a in &self.script {
            let mut pre = a.sleep.map(|ms| format!("! [{ms}] ")).unwrap_or_default();
            if a.spin > 0 {
                pre.push_str(&format!("{} slow ", a.spin));
            }
            match &a.kind {
                ActKind::Go(i) => lines.push(format!("{pre}Go p{i}")),
                ActKind::Int(i, v) => lines.push(format!("{pre}{v} p{i}")),
            }
        }
        match self.main_awaits {
            Some(k) => lines.push(format!("!p{k}")),
            None => lines.push("Ok".to_string()),
        }
        lines.join("\n")
    }
    /// allowed outcomes per process: "err:Class" | "ok:<value>"
    fn expected(&self) -> Vec<BTreeSet<String>> {
        let mut out: Vec<BTreeSet<String>> = vec![];
        for r in &self.procs {
            let mut s = BTreeSet::new();
            match r {
                Role::Fail { kind, .. } => {
                    s.insert(format!("err:{}", kind.class()));
                }
                Role::Await { target, form, .. } => {
                    s = out[*target].clone();
                    if let AwaitForm::SmallTimeoutFirst(_) | AwaitForm::SmallTimeoutAfter(_) = form {
                        s.insert("ok:nil".to_string());
                    }
                    if let AwaitForm::BeforeFilter { accept: true, .. } = form {
                        s.insert("ok:77".to_string());
                    }
                }
                Role::Const { v, .. } => {
                    s.insert(format!("ok:{v}"));
                }
                Role::Recv { n } => {
                    // filled in by the script: sum of the ints sent to it
                    let _ = n;
                }
                Role::Sender { v, .. } => {
                    s.insert(format!("ok:{v}"));
                }
                Role::Daemon => {
                    s.insert("none".to_string());
                }
            }
            out.push(s);
        }
        // receivers: sum of what main sends them (single sender ⇒ deterministic)
        for (i, r) in self.procs.iter().enumerate() {
            if let Role::Recv { n } = r {
                let vals: Vec<i64> = self
                    .script
                    .iter()
                    .filter_map(|a| match a.kind {
                        ActKind::Int(j, v) if j == i => Some(v),
                        _ => None,
                    })
                    .collect();
                let v = if *n == 1 { vals[0] } else { vals[0] + vals[1] };
                out[i].insert(format!("ok:{v}"));
            }
        }
        // awaiters of receivers were computed before the receivers' values were known: redo in order
        for i in 0..self.procs.len() {
            if let Role::Await { target, form, .. } = &self.procs[i] {
                let mut s = out[*target].clone();
                if let AwaitForm::SmallTimeoutFirst(_) | AwaitForm::SmallTimeoutAfter(_) = form {
                    s.insert("ok:nil".to_string());
                }
                if let AwaitForm::BeforeFilter { accept: true, .. } = form {
                    s.insert("ok:77".to_string());
                }
                out[i] = s;
            }
        }
        out
    }
    /// is process i (transitively) an awaiter of a failing process?
    fn awaits_failure(&self, i: usize) -> bool {
        match &self.procs[i] {
            Role::Fail { .. } => true,
            Role::Await { target, .. } => self.awaits_failure(*target),
            _ => false,
        }
    }
}

/// A process that fails FROM OUTSIDE the instruction loop (effect error: `notify_effect_completion` sets the error,
/// clears the frames and re-queues it; its next step runs no instruction) while awaiters — on the same worker and on
/// others — already have their selects registered; plus, sometimes, an awaiter that comes after the failure.
/// "Awaiters fail with the same error" must hold on every path (seeded C15-5: the same-worker notification handed
/// `[]` as a successful result to the early awaiters).
fn gen_effect_failure_scenario(r: &mut Rng) -> Scenario {
    let mut procs: Vec<Role> = vec![];
    // pads shift the failing process and its awaiters over the workers
    for i in 0..r.usize(3) {
        procs.push(Role::Const { v: 100 + i as i64, spin: 0 });
    }
    let f = procs.len();
    let kind = *r.pick(&[FailKind::EffectAsyncError, FailKind::EffectAsyncError, FailKind::EffectSyncError, FailKind::EffectSubmitError]);
    procs.push(Role::Fail { kind, trigger: Trigger::Go });
    let n_aw = 1 + r.usize(3);
    for k in 0..n_aw {
        let form = match r.below(6) {
            0 | 1 => AwaitForm::Single,
            2 => AwaitForm::BigTimeoutAfter,
            3 => AwaitForm::BigTimeoutBefore,
            4 => AwaitForm::WithReceive,
            _ => AwaitForm::SmallTimeoutAfter(*r.pick(&[10u64, 1000])),
        };
        // the first awaiter is always an early one
        procs.push(Role::Await { target: f, form, late: k > 0 && r.chance(1, 3) });
    }
    let mut script = vec![];
    // late awaiters take a Go of their own (after the failing process's)
    script.push(Act { sleep: if r.chance(1, 3) { Some(2) } else { None }, spin: *r.pick(&[60u32, 150, 250, 400]), kind: ActKind::Go(f) });
    for i in f + 1..procs.len() {
        if matches!(&procs[i], Role::Await { late: true, .. }) {
            script.push(Act { sleep: None, spin: *r.pick(&[0u32, 15, 60]), kind: ActKind::Go(i) });
        }
    }
    Scenario { procs, script, main_awaits: if r.chance(1, 2) { Some(f + 1) } else { None } }
}

fn gen_scenario(r: &mut Rng) -> Scenario {
    let n = 2 + r.usize(6);
    let mut procs: Vec<Role> = vec![];
    for i in 0..n {
        let k = r.below(100);
        let role = if i == 0 || k < 22 {
            let kind = *r.pick(&[
                FailKind::DivZero,
                FailKind::DivZero,
                FailKind::ModZero,
                FailKind::SqrtNeg,
                FailKind::FilterSend,
                FailKind::FilterSpawn,
                FailKind::FilterDiv,
                FailKind::EffectSubmitError,
                FailKind::EffectSyncError,
                FailKind::EffectAsyncError,
            ]);
            let trigger = match r.below(5) {
                0 => Trigger::Now,
                1 => Trigger::Countdown(*r.pick(&[1u32, 8, 40, 150])),
                _ => Trigger::Go,
            };
            Role::Fail { kind, trigger }
        } else if k < 62 && (0..i).any(|j| procs[j] != Role::Daemon) {
            let cands: Vec<usize> = (0..i).filter(|j| procs[*j] != Role::Daemon).collect();
            let target = *r.pick(&cands);
            let daemons: Vec<usize> = (0..i).filter(|j| procs[*j] == Role::Daemon).collect();
            let form = match r.below(if daemons.is_empty() { 13 } else { 20 }) {
                13..=19 => {
                    let mut ds = daemons.clone();
                    r.shuffle(&mut ds);
                    ds.truncate(1 + r.usize(2));
                    AwaitForm::WithDaemons { daemons: ds, target_first: r.chance(1, 2) }
                }
                10..=12 => AwaitForm::BeforeFilter { slow: *r.pick(&[5u32, 30, 150, 500]), accept: r.chance(1, 4) },
                0..=4 => AwaitForm::Single,
                5 => AwaitForm::BigTimeoutAfter,
                6 => AwaitForm::BigTimeoutBefore,
                7 => AwaitForm::SmallTimeoutFirst(*r.pick(&[0u64, 1, 3, 10])),
                8 => AwaitForm::SmallTimeoutAfter(*r.pick(&[0u64, 1, 3, 10])),
                _ => AwaitForm::WithReceive,
            };
            Role::Await { target, form, late: r.chance(2, 5) }
        } else if k < 70 {
            Role::Daemon
        } else if k < 78 {
            Role::Const { v: 100 + i as i64, spin: *r.pick(&[0u32, 5, 50, 200]) }
        } else if k < 88 {
            Role::Recv { n: 1 + r.usize(2) }
        } else {
            Role::Const { v: 0, spin: 0 } // placeholder, may become a sender below
        };
        procs.push(role);
    }
    let mut sc = Scenario { procs, script: vec![], main_awaits: None };
    // senders: target an earlier process that takes Go
    for i in 0..n {
        if sc.procs[i] == (Role::Const { v: 0, spin: 0 }) {
            let targets: Vec<usize> = (0..i).filter(|j| sc.takes_go(*j)).collect();
            sc.procs[i] = if targets.is_empty() {
                Role::Const { v: 200 + i as i64, spin: 3 }
            } else {
                Role::Sender { target: *r.pick(&targets), n: 1 + r.usize(2), v: 300 + i as i64, spin: *r.pick(&[0u32, 20, 120]) }
            };
        }
    }
    let mut script = vec![];
    for i in 0..n {
        if sc.takes_go(i) {
            script.push(Act { sleep: None, spin: 0, kind: ActKind::Go(i) });
            if r.chance(1, 3) {
                // an extra Go: a send to a process that may already be dead
                script.push(Act { sleep: None, spin: 0, kind: ActKind::Go(i) });
            }
        }
        match &sc.procs[i] {
            Role::Fail { kind, .. } if kind.in_filter() => {
                script.push(Act { sleep: None, spin: 0, kind: ActKind::Int(i, 5) });
                if r.chance(1, 3) {
                    script.push(Act { sleep: None, spin: 0, kind: ActKind::Int(i, 6) });
                }
            }
            Role::Recv { n } => {
                for _ in 0..*n {
                    script.push(Act { sleep: None, spin: 0, kind: ActKind::Int(i, r.range(1, 50)) });
                }
            }
            Role::Await { form: AwaitForm::BeforeFilter { .. }, .. } => {
                script.push(Act { sleep: None, spin: 0, kind: ActKind::Int(i, 77) });
            }
            _ => {}
        }
    }
    r.shuffle(&mut script);
    // the int for a `[p, filter]` awaiter goes out first (and the awaiter's own Go, if it is a late one), so
    // that the filter is usually in flight when the Go of the failing process is sent
    let mut front: Vec<Act> = vec![];
    let mut rest: Vec<Act> = vec![];
    for a in script.drain(..) {
        let is_filter_int = matches!(&a.kind, ActKind::Int(i, 77) if matches!(&sc.procs[*i], Role::Await { form: AwaitForm::BeforeFilter { .. }, .. }));
        let is_their_go = matches!(&a.kind, ActKind::Go(i) if matches!(&sc.procs[*i], Role::Await { form: AwaitForm::BeforeFilter { .. }, late: true, .. }));
        if is_their_go {
            front.insert(0, a);
        } else if is_filter_int {
            front.push(a);
        } else {
            rest.push(a);
        }
    }
    script = front;
    script.extend(rest);
    for a in script.iter_mut() {
        if r.chance(1, 4) {
            a.sleep = Some(*r.pick(&[1u64, 2, 5, 12]));
        }
        if r.chance(1, 3) {
            a.spin = *r.pick(&[3u32, 15, 60, 250]);
        }
    }
    sc.script = script;
    if r.chance(1, 4) {
        let k = r.usize(n);
        if sc.procs[k] != Role::Daemon {
            sc.main_awaits = Some(k);
        }
    }
    sc
}

// ---------------------------------------------------------------------------------------------

/// A deterministic effect backend: every `file_open` fails, in one of the three ways the environment
/// distinguishes (by path prefix). Completions submitted "asynchronously" are handed out by the next
/// `Environment::step`.
struct FailingBackend {
    pending: Vec<(usize, quiver_core::effects::EffectResult)>,
}

impl quiver_core::effects::EffectBackend for FailingBackend {
    type E = quiver_io::NativeEffect;
    fn execute(&mut self, process_id: usize, effect: Self::E) -> Result<Option<quiver_core::effects::EffectResult>, quiver_core::Error> {
        use quiver_core::effects::EffectError;
        let path = match &effect {
            quiver_io::NativeEffect::FileOpen { path, .. } => path.clone(),
            _ => vec![],
        };
        if path.starts_with(b"/submit-error") {
            Err(quiver_core::Error::InvalidArgument("submission failed".to_string()))
        } else if path.starts_with(b"/async-error") {
            self.pending.push((process_id, Err(EffectError::NotFound("no such file".to_string()))));
            Ok(None)
        } else {
            Ok(Some(Err(EffectError::NotFound("no such file".to_string()))))
        }
    }
    fn process_completions(&mut self) -> Vec<(usize, quiver_core::effects::EffectResult)> {
        std::mem::take(&mut self.pending)
    }
    fn close_resource(&mut self, _resource_id: quiver_core::value::ResourceId) {}
}

fn class_of(e: &quiver_core::Error) -> String {
    qverif::canon::error_class(e)
}

fn render_value(v: &Value) -> String {
    match v {
        Value::Integer(i) => format!("{i}"),
        x if x.is_nil() => "nil".to_string(),
        Value::Tuple(_, fs) if fs.is_empty() => "unit".to_string(),
        other => format!("<{}>", other.type_name()),
    }
}

/// canonical state of a real worker, same syntax as `renderWorker` of the driver
fn real_worker_state(sim: &Sim, w: usize) -> String {
    let ex = sim.workers[w].verif_executor();
    let q: Vec<String> = ex.verif_queue().iter().map(|p| p.to_string()).collect();
    let (sp, se, ef) = ex.verif_parked();
    let mut s = format!(
        "queue=({}) selecting=({}) spawning=({}) effecting=({})",
        q.join(" "),
        se.iter().map(|p| p.to_string()).collect::<Vec<_>>().join(" "),
        sp.iter().map(|p| p.to_string()).collect::<Vec<_>>().join(" "),
        ef.iter().map(|p| p.to_string()).collect::<Vec<_>>().join(" ")
    );
    let mut pids = ex.verif_process_ids();
    pids.sort();
    for pid in pids {
        s.push_str(" | ");
        s.push_str(&real_proc(sim, w, pid));
    }
    s
}

fn real_proc(sim: &Sim, w: usize, pid: usize) -> String {
    let ex = sim.workers[w].verif_executor();
    let p = ex.get_process(pid).unwrap();
    let res = match &p.result {
        None => "none".to_string(),
        Some(Ok(_)) => "ok".to_string(),
        Some(Err(e)) => class_of(e),
    };
    let mut aw: Vec<(usize, &str)> = p.awaiting.iter().map(|(k, v)| (*k, if v.is_some() { "some" } else { "none" })).collect();
    aw.sort();
    let mut af: Vec<(usize, String)> = p.awaiting_failed.iter().map(|(k, e)| (*k, class_of(e))).collect();
    af.sort();
    format!(
        "{pid} res={res} aw=({}) af=({}) mb={} sel={}",
        aw.iter().map(|(k, v)| format!("({k} {v})")).collect::<Vec<_>>().join(" "),
        af.iter().map(|(k, v)| format!("({k} {v})")).collect::<Vec<_>>().join(" "),
        p.mailbox.len(),
        p.select_state.is_some() as u8
    )
}

/// the running process's own record after its slice, as the `(mb n) (aw …) (af …) (sel …)` part of a `step` request
fn real_record(sim: &Sim, w: usize, pid: usize) -> String {
    let ex = sim.workers[w].verif_executor();
    let p = ex.get_process(pid).unwrap();
    let mut aw: Vec<(usize, &str)> = p.awaiting.iter().map(|(k, v)| (*k, if v.is_some() { "some" } else { "none" })).collect();
    aw.sort();
    let mut af: Vec<(usize, String)> = p.awaiting_failed.iter().map(|(k, e)| (*k, class_of(e))).collect();
    af.sort();
    let sel = match &p.select_state {
        None => "(sel 0)".to_string(),
        Some(st) => {
            let touts: Vec<String> = st
                .sources
                .iter()
                .filter_map(|s| match s {
                    Value::Integer(ms) => Some(format!("(timeout {ms})")),
                    _ => None,
                })
                .collect();
            format!("(sel 1 {} {})", st.start_time.map(|t| t.to_string()).unwrap_or_else(|| "none".into()), touts.join(" "))
        }
    };
    format!(
        "(mb {}) (aw {}) (af {}) {}",
        p.mailbox.len(),
        aw.iter().map(|(k, v)| format!("({k} {v})")).collect::<Vec<_>>().join(" "),
        af.iter().map(|(k, v)| format!("({k} {v})")).collect::<Vec<_>>().join(" "),
        sel
    )
}

fn render_results_event(awaiter: usize, results: &HashMap<usize, Option<Result<(Value, Vec<Vec<u8>>), quiver_core::Error>>>) -> String {
    let mut rs: Vec<(usize, String)> = results
        .iter()
        .map(|(k, v)| {
            (*k, match v {
                None => "none".to_string(),
                Some(Ok(_)) => "ok".to_string(),
                Some(Err(e)) => class_of(e),
            })
        })
        .collect();
    rs.sort();
    format!("[{awaiter} {}]", rs.iter().map(|(k, v)| format!("({k} {v})")).collect::<Vec<_>>().join(" "))
}

/// split the model's `ok EVENTS` answer into event strings
fn model_events(ans: &str) -> Vec<String> {
    let body = ans.strip_prefix("ok").unwrap_or("").trim();
    let mut out = vec![];
    let mut depth = 0;
    let mut cur = String::new();
    for c in body.chars() {
        match c {
            '[' => {
                depth += 1;
                cur.push(c);
            }
            ']' => {
                depth -= 1;
                cur.push(c);
                if depth == 0 {
                    out.push(cur.trim().to_string());
                    cur = String::new();
                }
            }
            _ => {
                if depth > 0 {
                    cur.push(c);
                }
            }
        }
    }
    out
}

#[derive(Debug, Default)]
struct Outcome {
    rejected: Option<String>,
    main: String,
    /// per scenario process: "ok:v" | "err:Class" | "none"
    results: Vec<String>,
    faults: Vec<String>,
    mismatch: Option<(usize, String, String, String)>,
    schedule: String,
    events: Vec<String>,
    steps: usize,
    quiescent: bool,
    comparisons: u64,
    queue_resyncs: u64,
    failures_recorded: u64,
    late_queries_of_failed: u64,
    /// a result that was set and later changed: (pid, before, after, schedule step)
    overwritten: Vec<(usize, String, String, usize)>,
}

struct Runner<'a> {
    sim: Sim,
    model: &'a mut Model,
    out: Outcome,
    log: bool,
    seen_results: HashMap<usize, String>,
}

impl<'a> Runner<'a> {
    fn ask(&mut self, line: String) -> String {
        let a = self.model.ask(&line);
        if self.log {
            self.out.events.push(format!("{line}  =>  {a}"));
        } else if self.out.events.len() < 4000 {
            self.out.events.push(line);
        }
        a
    }

    fn step(&mut self, c: Choice) {
        let idx = self.sim.schedule.len();
        let (i, visible) = match &c {
            Choice::Worker { i, visible } => (*i, *visible),
            _ => {
                self.sim.step(c);
                return;
            }
        };
        let cmds: Vec<Command<E>> = {
            let ch = self.sim.chans[i].chan.lock().unwrap();
            ch.cmds.iter().take(visible).cloned().collect()
        };
        let evts_before = self.sim.chans[i].chan.lock().unwrap().evts.len();
        let now = self.sim.time_ms;
        let ex = self.sim.workers[i].verif_executor();
        let real_queue_before = ex.verif_queue();
        let had_result: HashMap<usize, bool> =
            ex.verif_process_ids().into_iter().map(|p| (p, ex.get_process(p).map(|x| x.result.is_some()).unwrap_or(false))).collect();

        self.sim.step(c);

        let mut evlog = vec![];
        let mut model_evs: Vec<String> = vec![];
        let mut model_error = None;
        for cmd in &cmds {
            let line = match cmd {
                Command::SpawnProcess { id, .. } => Some(format!("(cmd {i} spawn {id})")),
                Command::StartProcess { id, function_index: Some(_) } => Some(format!("(cmd {i} spawn {id})")),
                Command::ResumeProcess { id, .. } => Some(format!("(cmd {i} resume {id})")),
                Command::DeliverMessage { target, .. } => Some(format!("(cmd {i} deliver {target})")),
                Command::NotifySpawn { process_id, .. } => Some(format!("(cmd {i} notifyspawn {process_id})")),
                Command::QueryAndAwait { awaiter, targets } => {
                    let ex = self.sim.workers[i].verif_executor();
                    for t in targets {
                        if let Some(p) = ex.get_process(*t)
                            && matches!(p.result, Some(Err(_)))
                        {
                            self.out.late_queries_of_failed += 1;
                        }
                    }
                    Some(format!("(cmd {i} query {awaiter} {})", targets.iter().map(|t| t.to_string()).collect::<Vec<_>>().join(" ")))
                }
                Command::UpdateAwaitResults { awaiter, results } => {
                    let mut rs: Vec<(usize, String)> = results
                        .iter()
                        .map(|(k, v)| {
                            (*k, match v {
                                None => "none".to_string(),
                                Some(Ok(_)) => "ok".to_string(),
                                Some(Err(e)) => format!("(err {})", class_of(e)),
                            })
                        })
                        .collect();
                    rs.sort();
                    Some(format!("(cmd {i} update {awaiter} {})", rs.iter().map(|(k, v)| format!("({k} {v})")).collect::<Vec<_>>().join(" ")))
                }
                Command::EffectCompletion { process_id, result, .. } => {
                    Some(format!("(cmd {i} effect {process_id} {})", if result.is_ok() { "ok" } else { "err" }))
                }
                _ => None,
            };
            if let Some(line) = line {
                evlog.push(line.clone());
                let a = self.ask(line);
                if a.starts_with("ok") {
                    model_evs.extend(model_events(&a));
                } else {
                    model_error = Some(a);
                }
            }
        }
        // which process ran: the front of the real queue before the step; if that was empty, the first
        // process the commands queued (the model's queue after the commands); if that is empty too, one of
        // the processes that expired — when several expired at once their order is the iteration order
        // of a HashSet: read it off the real queue after the step (the ones that did NOT run are still at
        // its front) and tell the model.
        fn nats(s: &str) -> Vec<usize> {
            s.trim_matches(|c| c == '(' || c == ')').split(' ').filter_map(|x| x.parse().ok()).collect()
        }
        let running: Option<usize> = match real_queue_before.first() {
            Some(p) => Some(*p),
            None => {
                let mq = nats(&self.model.ask(&format!("(mqueue {i})")));
                if let Some(p) = mq.first() {
                    Some(*p)
                } else {
                    let exp = nats(&self.model.ask(&format!("(expired {i} {now})")));
                    match exp.len() {
                        0 => None,
                        1 => Some(exp[0]),
                        k => {
                            let post = self.sim.workers[i].verif_executor().verif_queue();
                            let waiting: Vec<usize> = post.iter().take(k - 1).copied().filter(|p| exp.contains(p)).collect();
                            let runner: Vec<usize> = exp.iter().copied().filter(|p| !waiting.contains(p)).collect();
                            if runner.len() == 1 {
                                let mut order = vec![runner[0]];
                                order.extend(waiting.iter());
                                let r = self.model.ask(&format!("(preexpire {i} {now} {})", order.iter().map(|p| p.to_string()).collect::<Vec<_>>().join(" ")));
                                if r == "ok" {
                                    self.out.queue_resyncs += 1;
                                }
                                Some(runner[0])
                            } else {
                                Some(exp[0])
                            }
                        }
                    }
                }
            }
        };
        let ex = self.sim.workers[i].verif_executor();
        let slice = match running {
            None => "idle".to_string(),
            Some(r) => {
                match ex.get_process(r) {
                    None => "idle".to_string(),
                    Some(p) => {
                        if *had_result.get(&r).unwrap_or(&false) && p.frames.is_empty() {
                            "ranfinished".to_string()
                        } else {
                            let (sp, se, ef) = ex.verif_parked();
                            let end = match &p.result {
                                Some(Ok(_)) => "(finishes)".to_string(),
                                Some(Err(e)) => format!("(raises {})", class_of(e)),
                                None => {
                                    if se.contains(&r) {
                                        "parks-selecting".to_string()
                                    } else if sp.contains(&r) {
                                        "parks-spawning".to_string()
                                    } else if ef.contains(&r) {
                                        "parks-effecting".to_string()
                                    } else {
                                        "yields".to_string()
                                    }
                                }
                            };
                            format!("ran {end} {}", real_record(&self.sim, i, r))
                        }
                    }
                }
            }
        };
        let line = format!("(step {i} {now} {slice})");
        evlog.push(line.clone());
        let a = self.ask(line);
        if a.starts_with("ok") {
            model_evs.extend(model_events(&a));
        } else {
            model_error = Some(a);
        }
        // events the real worker emitted in this step
        let real_evs: Vec<String> = {
            let ch = self.sim.chans[i].chan.lock().unwrap();
            ch.evts
                .iter()
                .skip(evts_before)
                .filter_map(|e| match e {
                    Event::ProcessResults { awaiter, results } => Some(render_results_event(*awaiter, results)),
                    _ => None,
                })
                .collect()
        };
        for e in &real_evs {
            if e.contains("InvalidArgument") || e.contains("OperationNotAllowed") {
                self.out.failures_recorded += 1;
            }
        }
        // a result, once set, never changes (pid 0 is the persistent REPL process: it is resumed)
        {
            let ex = self.sim.workers[i].verif_executor();
            for pid in ex.verif_process_ids() {
                if pid == 0 {
                    continue;
                }
                let cur = match ex.get_process(pid).map(|p| &p.result) {
                    Some(Some(Ok(v))) => format!("ok:{}", render_value(v)),
                    Some(Some(Err(e))) => format!("err:{}", class_of(e)),
                    _ => continue,
                };
                match self.seen_results.get(&pid) {
                    Some(prev) if *prev != cur => {
                        self.out.overwritten.push((pid, prev.clone(), cur.clone(), idx));
                        self.seen_results.insert(pid, cur);
                    }
                    Some(_) => {}
                    None => {
                        self.seen_results.insert(pid, cur);
                    }
                }
            }
        }
        if self.out.mismatch.is_some() {
            return;
        }
        self.out.comparisons += 1;
        if let Some(e) = model_error {
            self.out.mismatch = Some((idx, evlog.join("; "), format!("model answered {e}"), "real worker step returned normally".into()));
            return;
        }
        let mut a = model_evs.clone();
        let mut b = real_evs.clone();
        a.sort();
        b.sort();
        if a != b {
            self.out.mismatch = Some((idx, evlog.join("; "), format!("events {}", model_evs.join(" ")), format!("events {}", real_evs.join(" "))));
            return;
        }
        let real = real_worker_state(&self.sim, i);
        let mut m = self.model.ask(&format!("(state {i})"));
        if m != real {
            // only the order of the run queue? (several processes expired in the same step)
            let rq = self.sim.workers[i].verif_executor().verif_queue();
            let r = self.model.ask(&format!("(setqueue {i} {})", rq.iter().map(|p| p.to_string()).collect::<Vec<_>>().join(" ")));
            if r == "ok" {
                self.out.queue_resyncs += 1;
                m = self.model.ask(&format!("(state {i})"));
            }
        }
        if m != real {
            self.out.mismatch = Some((idx, evlog.join("; "), m, real));
            return;
        }
        // the worker-side await registry (hooks Worker::verif_awaited / verif_awaiters_for_target, 0428746)
        let wk = &self.sim.workers[i];
        let real_reg = format!(
            "awaited=({}) for=({})",
            wk.verif_awaited().iter().map(|p| p.to_string()).collect::<Vec<_>>().join(" "),
            wk.verif_awaiters_for_target()
                .iter()
                .map(|(t, aws)| format!("({t} ({}))", aws.iter().map(|a| a.to_string()).collect::<Vec<_>>().join(" ")))
                .collect::<Vec<_>>()
                .join(" ")
        );
        let m_reg = self.model.ask(&format!("(registry {i})"));
        if m_reg != real_reg {
            self.out.mismatch = Some((idx, evlog.join("; "), m_reg, real_reg));
        }
    }

}

/// A pending timeout further away than this counts as "never" for the scheduler (the simulator's own
/// `random_choice` / `quiescent` are only used when no such timeout is pending).
const FAR: u64 = 1_000_000_000_000;

/// a process waits for an effect completion: the backend may hold it until the next `Environment::step`
fn effect_pending(sim: &Sim) -> bool {
    sim.workers.iter().any(|w| !w.verif_executor().verif_parked().2.is_empty())
}

/// idle, and no timeout within reach: nothing can happen any more without outside input
fn settled(sim: &Sim) -> bool {
    sim.idle() && !effect_pending(sim) && sim.next_timeout().map(|t| t > sim.time_ms.saturating_add(FAR)).unwrap_or(true)
}

/// `Sim::random_choice`, with the idle case handled here in saturating arithmetic
fn next_choice(sim: &Sim, r: &mut Rng, p: &Policy) -> Choice {
    if sim.idle() && effect_pending(sim) {
        // the clock must not jump to the next timeout while a completion is waiting in the backend
        return Choice::Env { visible: vec![usize::MAX; sim.n_workers()] };
    }
    if sim.idle()
        && let Some(t) = sim.next_timeout()
    {
        if t > sim.time_ms && t <= sim.time_ms.saturating_add(FAR) {
            let need = t - sim.time_ms;
            let ms = if r.chance(1, 3) && need > 1 { 1 + r.below(need - 1) } else { need };
            return Choice::Tick { ms };
        }
        // expired already (the worker has not looked yet) or out of reach: let a component step
        let n = sim.n_workers();
        return if r.chance(1, 3) { Choice::Env { visible: vec![usize::MAX; n] } } else { Choice::Worker { i: r.usize(n), visible: usize::MAX } };
    }
    sim.random_choice(r, p)
}

fn run_case(case: &Case, model: &mut Model, log: bool) -> Outcome {
    let sc = &case.scenario;
    let n = case.workers;
    let mut out = Outcome::default();
    let a = model.ask(&format!("(init {n} {} {})", if select_waits() { "on" } else { "off" }, if release_dead() { "on" } else { "off" }));
    if a != "ok" {
        out.rejected = Some(format!("model init: {a}"));
        return out;
    }
    let mut builtins = qverif::run::builtins();
    quiver_io::attach_file_builtins(&mut builtins);
    let mut sim = Sim::new(n, case.quantum, builtins, false).with_repl(HashMap::new());
    sim.env.set_effect_backend(Box::new(FailingBackend { pending: vec![] }));
    let req = match sim.submit(&sc.source()) {
        Ok(Some(id)) => id,
        Ok(None) => {
            out.rejected = Some("nocode".into());
            return out;
        }
        Err(e) => {
            out.rejected = Some(format!("{e:?}"));
            return out;
        }
    };
    let mut rn = Runner { sim, model, out, log, seen_results: HashMap::new() };
    let mut r = Rng::for_case(case.sched_seed, 0);
    let mut pol = Policy::random(&mut r, n);
    for w in pol.worker_weights.iter_mut() {
        *w = (*w).min(if case.quantum.map(|q| q <= 3).unwrap_or(false) { 3 } else { 8 });
    }
    let max_steps = 250_000;
    let mut result = None;
    let mut idle_streak = 0;
    let mut steps = 0;
    while steps < max_steps {
        steps += 1;
        if result.is_none() {
            result = rn.sim.poll_result(req);
        }
        if settled(&rn.sim) {
            idle_streak += 1;
            if idle_streak > 2 * (n + 1) {
                break;
            }
            rn.step(Choice::Env { visible: vec![usize::MAX; n] });
            for i in 0..n {
                rn.step(Choice::Worker { i, visible: usize::MAX });
            }
            continue;
        }
        idle_streak = 0;
        let c = next_choice(&rn.sim, &mut r, &pol);
        rn.step(c);
    }
    if result.is_none() {
        result = rn.sim.poll_result(req);
    }
    let mut out = std::mem::take(&mut rn.out);
    out.steps = steps;
    out.quiescent = settled(&rn.sim);
    out.main = match &result {
        Some(Ok((v, _))) => format!("ok:{}", render_value(v)),
        Some(Err(e)) => format!("err:{}", class_of(e)),
        None => "none".to_string(),
    };
    for i in 0..sc.procs.len() {
        let pid = sc.pid(i);
        let w = pid % n;
        let ex = rn.sim.workers[w].verif_executor();
        out.results.push(match ex.get_process(pid).map(|p| &p.result) {
            Some(Some(Ok(v))) => format!("ok:{}", render_value(v)),
            Some(Some(Err(e))) => format!("err:{}", class_of(e)),
            Some(None) => "none".to_string(),
            None => "missing".to_string(),
        });
    }
    out.faults = rn.sim.faults.iter().map(|(i, c, m)| format!("step {i} {c}: {m}")).collect();
    out.schedule = rn.sim.render_schedule();
    out
}

struct Verdict {
    signature: String,
    what: String,
    failing_input_found: bool,
}

fn judge(case: &Case, o: &Outcome, ev: &mut Ev) -> Vec<Verdict> {
    let sc = &case.scenario;
    let mut vs = vec![];
    if let Some(r) = &o.rejected {
        vs.push(Verdict { signature: "kind=generator-rejected".into(), what: format!("generated program rejected: {r}"), failing_input_found: false });
        return vs;
    }
    for f in &o.faults {
        let kind = if f.contains("panic") { "panic" } else { "internal-error" };
        vs.push(Verdict {
            signature: format!("kind=worker-{kind}"),
            what: format!("worker/environment {kind}: {f}"),
            failing_input_found: true,
        });
    }
    if !o.faults.is_empty() {
        return vs;
    }
    for (pid, before, after, idx) in &o.overwritten {
        vs.push(Verdict {
            signature: "kind=result-overwritten".into(),
            what: format!("process {pid} had ended with {before}; at schedule step {idx} its result became {after}"),
            failing_input_found: true,
        });
    }
    if let Some((idx, evs, m, real)) = &o.mismatch {
        vs.push(Verdict {
            signature: "kind=state-mismatch".into(),
            what: format!("model and implementation differ after schedule step {idx} [{evs}]: model `{m}` real `{real}`"),
            failing_input_found: false,
        });
    }
    if !o.quiescent {
        ev.hit("inconclusive:step-budget-exhausted");
        return vs;
    }
    let expected = sc.expected();
    for (i, role) in sc.procs.iter().enumerate() {
        let got = &o.results[i];
        let allowed = &expected[i];
        if *role == Role::Daemon {
            continue;
        }
        let is_awaiter = sc.awaits_failure(i) && !matches!(role, Role::Fail { .. });
        let kind = match role {
            Role::Fail { .. } => "failing",
            _ if is_awaiter => "awaiter",
            _ => "bystander",
        };
        if got == "none" || got == "missing" {
            vs.push(Verdict {
                signature: format!("kind=hang role={kind}"),
                what: format!("the system is quiescent but process p{i} ({role:?}) has no result (expected one of {allowed:?})"),
                failing_input_found: true,
            });
            continue;
        }
        if !allowed.contains(got) {
            let signature = match kind {
                "failing" => "kind=wrong-error-class",
                "awaiter" => "kind=awaiter-wrong-outcome",
                _ => "kind=bystander-affected",
            };
            vs.push(Verdict {
                signature: signature.into(),
                what: format!("process p{i} ({role:?}) ended with {got}; allowed: {allowed:?}"),
                failing_input_found: true,
            });
        } else {
            ev.hit(&format!("conforming:{kind}"));
        }
    }
    // main
    let main_allowed: BTreeSet<String> = match sc.main_awaits {
        Some(k) => expected[k].clone(),
        None => ["ok:unit".to_string()].into_iter().collect(),
    };
    if !main_allowed.contains(&o.main) {
        vs.push(Verdict {
            signature: if o.main == "none" { "kind=hang role=main".into() } else { "kind=main-wrong-outcome".into() },
            what: format!("main ended with {}; allowed: {main_allowed:?}", o.main),
            failing_input_found: true,
        });
    }
    vs
}

fn case_json(case: &Case, o: &Outcome) -> serde_json::Value {
    json!({
        "case": case,
        "source": case.scenario.source(),
        "expected": case.scenario.expected(),
        "results": o.results,
        "main": o.main,
        "faults": o.faults,
        "quiescent": o.quiescent,
        "schedule": o.schedule,
        "events_tail": o.events.iter().rev().take(60).rev().collect::<Vec<_>>(),
    })
}



/// Which implementation the model mirrors: `false` = /repo HEAD, `true` = notes/C05-fixes/01 (a FAILED target is
/// answered in the first answer of `query_and_await`). FLIP THE DEFAULT when the patch lands;
/// `QVERIF_SELECT_WAITS=0|1` overrides it (to run the check against a worktree that has the patch).
const SELECT_WAITS_DEFAULT: bool = true;

/// Is the repair notes/C06-fixes/01 (`release_dead_roots`: a dead non-persistent process gives up its mailbox, select
/// state and await maps; `notify_message` drops what can never be received) present in the runtime under test?
/// Detected from the source the harness is linked against; `QVERIF_RELEASE_DEAD=0|1` overrides.
fn release_dead() -> bool {
    match std::env::var("QVERIF_RELEASE_DEAD").ok().as_deref() {
        Some("1") => true,
        Some("0") => false,
        _ => std::fs::read_to_string(format!("{}/quiver-core/src/executor.rs", qverif::repo()))
            .map(|t| t.contains("fn release_dead_roots"))
            .unwrap_or(false),
    }
}

fn select_waits() -> bool {
    match std::env::var("QVERIF_SELECT_WAITS").ok().as_deref() {
        Some("1") => true,
        Some("0") => false,
        _ => SELECT_WAITS_DEFAULT,
    }
}

/// A corpus witness given as plain REPL lines (no model correspondence): the lines are evaluated one after the
/// other in one simulated system under `schedules` random schedules; the LAST line must give `expect` on every
/// schedule, else the file's `signature` is reported (a KNOWN-FINDING while it is listed as known).
#[derive(Clone, Debug, Serialize, Deserialize)]
struct RawWitness {
    lines: Vec<String>,
    workers: usize,
    #[serde(default)]
    quantum: Option<usize>,
    /// rendered outcome of the last line (`i1`, `error:InvalidArgument`, …); earlier lines are not judged
    expect: String,
    signature: String,
    what: String,
}

/// outcome of the last line under schedule `k` (0 = fair rounds), plus the simulator's fault list
fn run_raw(w: &RawWitness, base: u64, k: u64) -> (String, Vec<String>) {
    let mut sim = Sim::new(w.workers, w.quantum, qverif::run::builtins(), false).with_repl(HashMap::new());
    let mut r = Rng::for_case(base, k);
    let pol = Policy::random(&mut r, w.workers);
    let mut last = String::new();
    for l in &w.lines {
        last = match qverif::catch(std::panic::AssertUnwindSafe(|| {
            if k == 0 { eval_in(&mut sim, l, None, 20000) } else { eval_in(&mut sim, l, Some((&mut r, &pol)), 20000) }
        })) {
            Ok(o) => o.render(),
            Err(p) => format!("harness-panic:{p}"),
        };
    }
    (last, sim.faults.iter().map(|f| format!("{f:?}")).collect())
}

fn run_raw_witnesses(dir: &str, ev: &mut Ev, schedules: u64, seed: u64) {
    let Ok(rd) = std::fs::read_dir(dir) else { return };
    let mut files: Vec<_> = rd.filter_map(|e| e.ok()).map(|e| e.path()).filter(|p| p.extension().map(|x| x == "json").unwrap_or(false)).collect();
    files.sort();
    for f in files {
        let Ok(text) = std::fs::read_to_string(&f) else { continue };
        let Ok(j) = serde_json::from_str::<serde_json::Value>(&text) else { continue };
        let Ok(w) = serde_json::from_value::<RawWitness>(j["raw"].clone()) else { continue };
        let name = f.file_name().unwrap().to_string_lossy().to_string();
        let base = 0xC15F ^ seed;
        let mut bad = 0u64;
        let mut first: Option<(u64, String)> = None;
        let n = j["schedules"].as_u64().unwrap_or(schedules);
        for k in 0..=n {
            let (out, faults) = run_raw(&w, base, k);
            ev.case(&(name.as_str(), k, seed), true);
            ev.hit("raw-witness-schedules");
            if !faults.is_empty() {
                ev.violation("kind=worker-internal-error", &format!("worker/environment fault in witness {name}: {faults:?}"), json!({"raw": w, "schedule_base": base, "schedule": k, "file": name}), true);
            }
            if out != w.expect {
                bad += 1;
                if first.is_none() {
                    first = Some((k, out));
                }
            }
        }
        if let Some((k, out)) = first {
            ev.add(&format!("raw-witness-deviating:{name}"), bad);
            ev.violation(
                &w.signature,
                &format!("{} — witness {name}: last line gave `{out}` instead of `{}` on {bad} of {} schedules (first: schedule {k})", w.what, w.expect, n + 1),
                json!({"raw": w, "schedule_base": base, "schedule": k, "file": name}),
                true,
            );
        } else {
            ev.hit(&format!("raw-witness-clean:{name}"));
        }
    }
}

/// Development probe (not part of the check): `QVERIF_PROBE="line1|||line2"` evaluates the lines one after
/// the other in one simulated system (fair schedule first, then random schedules) and prints outcomes + faults.
fn probe(spec: &str) {
    let lines: Vec<&str> = spec.split("|||").collect();
    let workers: usize = std::env::var("QVERIF_PROBE_WORKERS").ok().and_then(|s| s.parse().ok()).unwrap_or(1);
    let quantum: Option<usize> = std::env::var("QVERIF_PROBE_Q").ok().and_then(|s| s.parse().ok());
    let seeds: u64 = std::env::var("QVERIF_PROBE_SEEDS").ok().and_then(|s| s.parse().ok()).unwrap_or(0);
    for seed in 0..=seeds {
        let mut sim = Sim::new(workers, quantum, qverif::run::builtins(), true).with_repl(HashMap::new());
        let mut r = Rng::for_case(0xC15F, seed);
        let pol = Policy::random(&mut r, workers);
        println!("--- schedule {} workers={workers} quantum={quantum:?}", if seed == 0 { "fair".to_string() } else { format!("random#{seed}") });
        for l in &lines {
            let out = match qverif::catch(std::panic::AssertUnwindSafe(|| {
                if seed == 0 { eval_in(&mut sim, l, None, 20000) } else { eval_in(&mut sim, l, Some((&mut r, &pol)), 20000) }
            })) {
                Ok(o) => o.render(),
                Err(p) => format!("PANIC in driver: {p}"),
            };
            println!("  line {l:?} => {out}   faults={:?}", sim.faults);
        }
        let procs: Vec<String> = sim.processes().iter().map(|(p, w, i)| format!("{p}@{w}:{:?}", i.status)).collect();
        println!("  processes: {}", procs.join(" "));
    }
}

fn main() {
    if std::env::var("QVERIF_LOUD").is_err() {
        qverif::quiet_panics();
    }
    if let Ok(spec) = std::env::var("QVERIF_PROBE") {
        probe(&spec);
        return;
    }
    let opts = Opts::parse();
    let mut ev = Ev::new("C15", &opts);
    ev.rule = "distinct (scenario, workers, quantum, schedule seed) in which at least one process failed and at least one ProcessResults event carrying an error was emitted or recorded, with every worker step compared against the model".into();
    let model_path = opts.model.clone().unwrap_or_else(|| format!("{}/.lake/build/bin/qm_c15", qverif::lean_dir()).into());
    let mut model = Model::spawn(&model_path);

    if let Some(p) = &opts.replay {
        let text = std::fs::read_to_string(p).expect("replay file");
        let j: serde_json::Value = serde_json::from_str(&text).expect("json");
        let rj = if j.get("replay").is_some() { j["replay"].clone() } else { j.clone() };
        if rj.get("raw").is_some() {
            let w: RawWitness = serde_json::from_value(rj["raw"].clone()).expect("raw witness");
            let base = rj["schedule_base"].as_u64().unwrap_or(0xC15F);
            let k = rj["schedule"].as_u64().unwrap_or(0);
            let (out, faults) = run_raw(&w, base, k);
            println!("{}\nschedule {k}: last line => {out} (expected {}) faults={faults:?}", w.lines.join("\n"), w.expect);
            if !faults.is_empty() {
                ev.violation("kind=worker-internal-error", &format!("worker/environment fault: {faults:?}"), rj.clone(), true);
            }
            if out != w.expect {
                ev.violation(&w.signature, &format!("{}: `{out}` instead of `{}`", w.what, w.expect), rj.clone(), true);
            }
            std::process::exit(ev.finish());
        }
        let cj = if j.get("replay").is_some() { j["replay"]["case"].clone() } else if j.get("case").is_some() { j["case"].clone() } else { j.clone() };
        let case: Case = serde_json::from_value(cj).expect("case");
        println!("{}", case.scenario.source());
        let o = run_case(&case, &mut model, true);
        for e in &o.events {
            println!("  {e}");
        }
        println!("expected={:?}", case.scenario.expected());
        println!("results={:?} main={} quiescent={} steps={} comparisons={} faults={:?} mismatch={:?}", o.results, o.main, o.quiescent, o.steps, o.comparisons, o.faults, o.mismatch);
        let vs = judge(&case, &o, &mut ev);
        for v in &vs {
            println!("VERDICT {} :: {}", v.signature, v.what);
            ev.violation(&v.signature, &v.what, case_json(&case, &o), v.failing_input_found);
        }
        std::process::exit(ev.finish());
    }

    // plain-program witnesses / regressions (corpus files with a `raw` entry)
    run_raw_witnesses("/verif/corpus/C15", &mut ev, opts.tier.pick(100, 1000), opts.seed);

    let mut cases: Vec<(String, Case)> = vec![];
    let corpus_dir = "/verif/corpus/C15";
    if let Ok(rd) = std::fs::read_dir(corpus_dir) {
        let mut files: Vec<_> = rd.filter_map(|e| e.ok()).map(|e| e.path()).filter(|p| p.extension().map(|x| x == "json").unwrap_or(false)).collect();
        files.sort();
        for f in files {
            if let Ok(text) = std::fs::read_to_string(&f)
                && let Ok(j) = serde_json::from_str::<serde_json::Value>(&text)
                && let Ok(case) = serde_json::from_value::<Case>(j["case"].clone())
            {
                let reps = j["schedules"].as_u64().unwrap_or(1);
                for k in 0..reps {
                    let mut c = case.clone();
                    c.sched_seed = c.sched_seed.wrapping_add(k);
                    cases.push((format!("corpus:{}", f.file_name().unwrap().to_string_lossy()), c));
                }
            }
        }
    }
    let n_corpus = cases.len();
    // dedicated families first (they must run even when the wall-clock cap cuts the random part short)
    let n_eff = opts.tier.pick(14u64, 200);
    for i in 0..n_eff {
        let mut r = Rng::for_case(opts.seed ^ 0xC15E, i);
        let sc = gen_effect_failure_scenario(&mut r);
        for k in 0..3u64 {
            let workers = if k == 0 { 1 } else { 1 + r.usize(3) };
            let quantum = *r.pick(&[Some(1usize), Some(5), None]);
            cases.push((format!("effect-failure:{i}:{k}"), Case { scenario: sc.clone(), workers, quantum, sched_seed: r.next() }));
        }
    }
    let n_scen = opts.tier.pick(80u64, 1300);
    let n_sched = opts.tier.pick(4u64, 10);
    for i in 0..n_scen {
        let mut r = Rng::for_case(opts.seed ^ 0xC15, i);
        let sc = gen_scenario(&mut r);
        for k in 0..n_sched {
            let workers = 1 + r.usize(3);
            let quantum = *r.pick(&[Some(1usize), Some(2), Some(5), Some(40), None, None]);
            cases.push((format!("gen:{i}:{k}"), Case { scenario: sc.clone(), workers, quantum, sched_seed: r.next() }));
        }
    }
    ev.set_extra("corpus_cases", json!(n_corpus));
    ev.set_extra("generated_scenarios", json!(n_scen));
    let started = std::time::Instant::now();
    let cap = std::time::Duration::from_secs(opts.tier.pick(110, 1500));
    for (ci, (name, case)) in cases.iter().enumerate() {
        if started.elapsed() > cap {
            // wall-clock cap (a change that makes runs crawl must still end with a verdict)
            ev.hit("not-run:wall-clock-cap");
            continue;
        }
        let o = match qverif::catch(|| run_case(case, &mut model, false)) {
            Ok(o) => o,
            Err(msg) => {
                ev.hit("harness-panic");
                let mut rj = json!({"case": case, "source": case.scenario.source(), "name": name, "panic": msg});
                rj["broken"] = json!("the harness could not complete this case");
                ev.violation("kind=harness-panic", &format!("harness panicked on a case: {msg}"), rj, false);
                model = Model::spawn(&model_path);
                continue;
            }
        };
        let nontrivial = o.rejected.is_none() && o.results.iter().any(|r| r.starts_with("err")) && o.failures_recorded > 0;
        ev.case(&serde_json::to_string(case).unwrap(), nontrivial);
        ev.hit(&format!("workers={}", case.workers));
        ev.hit(&format!("quantum={}", case.quantum.map(|q| q.to_string()).unwrap_or_else(|| "default".into())));
        ev.hit(&format!("processes={}", case.scenario.procs.len()));
        for r in &case.scenario.procs {
            ev.hit(&match r {
                Role::Fail { kind, trigger } => format!("role:fail:{kind:?}:{}", match trigger { Trigger::Now => "now", Trigger::Countdown(_) => "countdown", Trigger::Go => "go" }),
                Role::Await { form, late, .. } => format!("role:await:{}:{}", match form { AwaitForm::Single => "single", AwaitForm::BigTimeoutAfter => "timeout-after", AwaitForm::BigTimeoutBefore => "timeout-before", AwaitForm::SmallTimeoutFirst(_) => "small-timeout-first", AwaitForm::SmallTimeoutAfter(_) => "small-timeout-after", AwaitForm::WithDaemons { .. } => "with-daemons-on-other-workers", AwaitForm::BeforeFilter { accept, .. } => if *accept { "before-accepting-filter" } else { "before-rejecting-filter" }, AwaitForm::WithReceive => "with-receive" }, if *late { "late" } else { "early" }),
                Role::Const { .. } => "role:const".to_string(),
                Role::Recv { .. } => "role:recv".to_string(),
                Role::Sender { .. } => "role:sender".to_string(),
                Role::Daemon => "role:daemon".to_string(),
            });
        }
        ev.add("worker-steps-compared", o.comparisons);
        ev.add("error-carrying-ProcessResults-events", o.failures_recorded);
        ev.add("await-queries-that-found-the-target-already-failed", o.late_queries_of_failed);
        ev.add("queue-order-resyncs", o.queue_resyncs);
        if case.scenario.main_awaits.is_some() {
            ev.hit("main-awaits");
        }
        let vs = judge(case, &o, &mut ev);
        for v in &vs {
            let mut rj = case_json(case, &o);
            rj["name"] = json!(name);
            if !v.failing_input_found {
                rj["broken"] = json!("correspondence model<->impl on failure containment (QM.Exec.endSlice / announce / Worker.step)");
            }
            ev.violation(&v.signature, &v.what, rj, v.failing_input_found);
        }
        ev.sample_sparse(ci as u64, 61, || {
            json!({"name": name, "source": case.scenario.source(), "workers": case.workers, "quantum": case.quantum, "results": o.results, "main": o.main})
        });
    }
    ev.set_extra("model_requests", json!(model.requests));
    std::process::exit(ev.finish());
}
