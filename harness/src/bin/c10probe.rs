use qverif::sim::Sim;
use std::collections::HashMap;
fn main() {
    qverif::quiet_panics();
    let b = qverif::run::builtins();
    let src = std::env::args().nth(1).unwrap();
    let u = qverif::run::compile_source(&src, &HashMap::new(), &b).ok().expect("compile");
    let bc = u.program.to_bytecode(Some(u.entry));
    let mut sim = Sim::new(1, None, b.clone(), true);
    let pid = sim.env.start_process(Some(bc)).unwrap();
    let rid = sim.env.request_result(pid, None).unwrap();
    let mut res = None;
    let fin = sim.run_fair(std::env::args().nth(2).map(|x| x.parse().unwrap()).unwrap_or(300), |s| { if res.is_none() { res = s.poll_result(rid); } res.is_some() });
    println!("fin={fin} idle={} quiescent={} faults={:?}", sim.idle(), sim.quiescent(), sim.faults);
    for (pid, w, info) in sim.processes() { println!("pid {pid} w{w} {:?} frames={} stack={} result={:?}", info.status, info.frames_count, info.stack_size, info.result.is_some()); }
    println!("sched len {} time {}", sim.schedule.len(), sim.time_ms);
}
