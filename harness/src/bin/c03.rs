//! C03 — results do not depend on scheduling, worker count or time-slice length.
//!
//! Generated CONFLUENT scenarios (every mailbox has one sender, every select one source, no
//! timeouts; `msys::generator::confluent` plus the confluent kinds of the C04 generator) are run on
//! the real Environment/Workers under the deterministic simulator in many configurations:
//! worker counts {1,2,3,4} × quanta {1,2,7,1000} × adversarial random schedules (partial
//! visibility, starvation). ORACLE (implementation only): the final result and the result of
//! every process (keyed by its script, i.e. up to pid renaming) are identical in ALL
//! configurations; no run fails, hangs, or makes `Worker::step` / `Environment::step` return
//! `Err` / panic. Every run is also replayed choice by choice through the Lean model M-Sys
//! (`sysStep`, driver qm_c03) and compared snapshot by snapshot, which ties the theorems of
//! Theorems/C03.lean (commutation of worker steps, slice additivity, schedule-independent mailbox
//! order, no internal error) to the code.
#[path = "msys/mod.rs"]
mod msys;

use msys::generator as g;
use msys::*;
use qverif::sim::Policy;
use qverif::{Ev, Model, Opts, Rng};
use quiver_core::value::Value;
use serde_json::{Value as J, json};
use std::collections::BTreeMap;

struct Run {
    n: usize,
    q: Option<usize>,
    schedule: Vec<String>,
    finished: bool,
    quiescent: bool,
    result: String,
    per_process: BTreeMap<i64, String>,
    faults: Vec<String>,
    mismatch: Option<(usize, String, String, String)>,
    oracle_failures: Vec<(usize, String, String)>,
    steps: usize,
}

fn run_cfg(sc: &Scenario, n: usize, q: Option<usize>, rng: &mut Rng, model: &mut Model, max_steps: usize) -> Result<Run, String> {
    let (mut sim, req) = start(sc, n, q)?;
    sim.schedule.clear();
    let mut pol = Policy::random(rng, n);
    pol.tick_pm = 0; // no timeouts in confluent scenarios: the clock is irrelevant
    if matches!(q, Some(1) | Some(2) | Some(7)) {
        for w in pol.worker_weights.iter_mut() {
            *w = (*w).min(5);
        }
    }
    let mut lock = Lock::new(sim, Some(model));
    lock.mixed = sc.has_b();
    lock.ask_model(init_line(sc, n, req), "init");
    let mut result = None;
    let finished = lock.run_random(
        rng,
        &pol,
        max_steps,
        |s| {
            if result.is_none() {
                result = s.poll_result(req);
            }
            result.is_some()
        },
        true,
    );
    let res = match &result {
        Some(Ok((v, _))) => show_val(v),
        Some(Err(e)) => format!("error:{}", qverif::canon::error_class(e)),
        None => "none".to_string(),
    };
    // per-process results keyed by script index (first field of every result tuple)
    let mut per = BTreeMap::new();
    for w in &lock.sim.workers {
        let ex = w.verif_executor();
        for pid in ex.verif_process_ids() {
            let p = ex.get_process(pid).unwrap();
            match &p.result {
                Some(Ok(v @ Value::Tuple(_, fields))) => {
                    let key = match fields.first() {
                        Some(Value::Integer(i)) => {
                            use num_traits::ToPrimitive;
                            i.to_i64().unwrap_or(-1)
                        }
                        _ => -1,
                    };
                    per.insert(key, show_val(v));
                }
                Some(Ok(v)) => {
                    per.insert(-1000 - pid as i64, show_val(v));
                }
                Some(Err(e)) => {
                    per.insert(-2000 - pid as i64, format!("error:{}", qverif::canon::error_class(e)));
                }
                None => {
                    per.insert(-3000 - pid as i64, "unfinished".to_string());
                }
            }
        }
    }
    // StreamStatement observed: arrival histories follow the static send sequences
    let regs = g::reg_scripts(sc);
    for msg in stream_oracle(&lock.sim, sc, &regs) {
        lock.oracle_failures.push((lock.steps, "arrival-not-static-stream".into(), msg));
    }
    Ok(Run {
        n,
        q,
        schedule: lock.schedule(),
        finished,
        quiescent: lock.sim.quiescent(),
        result: res,
        per_process: per,
        faults: lock.sim.faults.iter().map(|f| format!("step {} ({}): {}", f.0, f.1, f.2)).collect(),
        mismatch: lock.mismatch.clone(),
        oracle_failures: lock.oracle_failures.clone(),
        steps: lock.steps,
    })
}

fn main() {
    qverif::quiet_panics();
    let opts = Opts::parse();
    let mut ev = Ev::new("C03", &opts);
    ev.rule = "distinct (scenario, worker count, quantum, full choice sequence) of a confluent scenario with at least one message or await".into();
    let model_path = opts.model.clone().expect("--model <qm_c03>");
    let mut model = Model::spawn(&model_path);
    let variants = configure_model(&mut model);
    ev.set_extra("runtime_variants", json!(variants));

    let scenarios = opts.tier.pick(110u64, 2500);
    let extra_schedules = opts.tier.pick(8u64, 40); // beyond the 16 worker×quantum combinations
    let deadline = std::time::Instant::now() + std::time::Duration::from_secs(opts.tier.pick(95, 1500));
    let quanta = [Some(1usize), Some(2), Some(7), None];
    let confluent_kinds = [
        "confluent", "typed_selective", "gap_select", "shared_await", "confluent", "pipeline", "typed_selective", "gap_select", "confluent", "request_reply", "shared_await",
        "typed_selective", "late_await",
    ];
    let mut total_runs = 0u64;
    let mut total_steps = 0u64;
    let mut done = 0u64;
    'outer: for i in 0..scenarios {
        let mut r = Rng::for_case(opts.seed ^ 0xC03, i);
        let kind = confluent_kinds[(i as usize) % confluent_kinds.len()];
        let sc = if kind == "confluent" { g::confluent(&mut r) } else { g::generate(&mut r, kind) };
        if !g::well_typed(&sc) || !g::is_confluent(&sc) {
            ev.hit("generator/not-confluent-skipped");
            continue;
        }
        ev.hit(&format!("kind/{kind}"));
        ev.hit(&format!("size/processes={}", sc.scripts.len()));
        let acts: usize = sc.scripts.iter().map(|s| s.len()).sum();
        ev.hit(&format!("size/actions={}", match acts { 0..=5 => "0-5", 6..=15 => "6-15", 16..=30 => "16-30", _ => "31+" }));
        let mut runs: Vec<Run> = vec![];
        let mut configs: Vec<(usize, Option<usize>)> = vec![];
        for n in 1..=4usize {
            for q in quanta {
                configs.push((n, q));
            }
        }
        for k in 0..extra_schedules {
            configs.push((1 + (k as usize) % 4, quanta[((k / 4) as usize) % 4]));
        }
        for (k, (n, q)) in configs.iter().enumerate() {
            if std::time::Instant::now() > deadline {
                ev.hit("budget/deadline-reached");
                break 'outer;
            }
            let mut rs = Rng::for_case(opts.seed ^ 0xC03C ^ (i << 20), k as u64);
            let max_steps = if q.is_some() { 60000 } else { 10000 };
            match run_cfg(&sc, *n, *q, &mut rs, &mut model, max_steps) {
                Ok(run) => {
                    total_runs += 1;
                    total_steps += run.steps as u64;
                    let nontrivial = sc.scripts.iter().flatten().any(|a| matches!(a, Act::Send { .. } | Act::Select(_)));
                    ev.case(&(&sc, *n, *q, &run.schedule), nontrivial);
                    ev.hit(&format!("workers/{n}"));
                    ev.hit(&format!("quantum/{}", q.map(|x| x.to_string()).unwrap_or("1000".into())));
                    runs.push(run);
                }
                Err(e) => {
                    ev.violation(
                        "generator=rejected-program",
                        &format!("generated confluent scenario rejected by the front end: {e}"),
                        json!({"broken": "generator: program rejected", "scenario": sc.to_json()}),
                        false,
                    );
                    continue 'outer;
                }
            }
        }
        // ---- oracles over all configurations of this scenario -------------------------------
        let replay_of = |a: &Run, b: Option<&Run>| -> J {
            json!({
                "scenario": sc.to_json(),
                "run": {"workers": a.n, "quantum": a.q, "schedule": a.schedule, "result": a.result, "per_process": a.per_process},
                "reference": b.map(|b| json!({"workers": b.n, "quantum": b.q, "schedule": b.schedule, "result": b.result, "per_process": b.per_process})),
            })
        };
        for run in &runs {
            for f in &run.faults {
                ev.violation("oracle=no-internal-error", &format!("Worker::step / Environment::step failed on a confluent scenario: {f}"), replay_of(run, None), true);
            }
            if !run.finished {
                ev.violation(
                    "oracle=hang",
                    &format!("confluent scenario did not deliver a result with {} workers, quantum {:?}: system {} after {} steps", run.n, run.q, if run.quiescent { "quiescent" } else { "still busy (step budget)" }, run.steps),
                    replay_of(run, None),
                    run.quiescent,
                );
            }
            if run.result.starts_with("error:") {
                ev.violation("oracle=schedule-dependent-failure", &format!("confluent scenario failed with {} ({} workers, quantum {:?})", run.result, run.n, run.q), replay_of(run, None), true);
            }
            for (step, kind, msg) in &run.oracle_failures {
                ev.violation(&format!("oracle={kind}"), &format!("at step {step}: {msg}"), replay_of(run, None), true);
            }
            if let Some((step, choice, imp, m)) = &run.mismatch {
                let mut rp = replay_of(run, None);
                rp["broken"] = json!("correspondence model<->impl on sysStep");
                rp["mismatch"] = json!({"step": step, "choice": choice, "impl": imp, "model": m});
                ev.violation("correspondence=sysStep", &format!("model M-Sys and implementation differ after step {step} ({choice}) with {} workers, quantum {:?}", run.n, run.q), rp, false);
            }
        }
        if let Some(reference) = runs.iter().find(|r| r.finished) {
            for run in runs.iter().filter(|r| r.finished) {
                if run.result != reference.result {
                    ev.violation(
                        "oracle=result-depends-on-configuration",
                        &format!(
                            "final result differs between configurations: {} workers/quantum {:?} gives {} but {} workers/quantum {:?} gives {}",
                            run.n, run.q, run.result, reference.n, reference.q, reference.result
                        ),
                        replay_of(run, Some(reference)),
                        true,
                    );
                } else if run.per_process != reference.per_process {
                    ev.violation(
                        "oracle=process-result-depends-on-configuration",
                        &format!("per-process results differ between {} workers/quantum {:?} and {} workers/quantum {:?}", run.n, run.q, reference.n, reference.q),
                        replay_of(run, Some(reference)),
                        true,
                    );
                }
            }
        }
        ev.sample_sparse(i, 23, || json!({"kind": kind, "source": sc.source(), "configurations": runs.len(), "result": runs.first().map(|r| r.result.clone())}));
        done += 1;
    }
    ev.set_extra("scenarios", json!(done));
    ev.set_extra("runs", json!(total_runs));
    ev.set_extra("scheduler_choices", json!(total_steps));
    ev.set_extra("model_requests", json!(model.requests));
    std::process::exit(ev.finish());
}
