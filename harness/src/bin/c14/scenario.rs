//! Scenario generator for C14: a tree of processes, each with a straight-line script of
//! open / use / close / send / receive / spawn / await / finish steps over resource handles.
//!
//! The generator keeps a *plan* (which process it expects to own which resource, who is expected
//! to have failed) only to keep the generated program live — every receive has a matching earlier
//! send, awaits target processes whose script is complete — and to steer towards the interesting
//! cases (stale handles, bystanders, handles left in mailboxes, owners never awaited). The oracle
//! does NOT use the plan: it follows the events the environment actually handles.
use qverif::Rng;

#[derive(Clone, Copy, PartialEq, Eq, Debug)]
pub enum RK {
    File,
    Dir,
    Dns,
    Sock,
    Lis,
}

impl RK {
    pub fn ty(&self) -> &'static str {
        match self {
            RK::File => "\\File",
            RK::Dir => "\\Dir",
            RK::Dns => "\\DnsResolver",
            RK::Sock => "\\TcpSocket",
            RK::Lis => "\\TcpListener",
        }
    }
}

#[derive(Clone, Debug)]
pub struct HVar {
    pub name: String,
    pub rk: RK,
    /// plan label of the resource this variable is expected to refer to
    pub label: usize,
}

#[derive(Clone, Debug)]
enum Stmt {
    Text(String),
    /// widen the process's receive type to every message tag of the scenario (dead branch)
    Decl,
    Spawn { child: usize, var: String, arg: Option<(String, String)> }, // (value, type)
}

#[derive(Clone, Debug)]
struct Proc {
    parent: Option<usize>,
    body: Vec<Stmt>,
    handles: Vec<HVar>,
    pids: Vec<(String, usize)>,
    /// plan: can still take steps
    alive: bool,
    /// plan: script complete (normally or by an expected error)
    finished: bool,
    /// plan: expected to end with a runtime error
    failed: bool,
    arg_pat: Option<String>,
}

pub struct Scenario {
    pub source: String,
    pub n_procs: usize,
    /// counters describing what the generator put in (input distribution)
    pub features: Vec<&'static str>,
}

struct Gen<'a> {
    r: &'a mut Rng,
    procs: Vec<Proc>,
    next_var: usize,
    next_tag: usize,
    next_label: usize,
    /// plan: label -> owning proc (None = closed / never created)
    owner: Vec<Option<usize>>,
    closed: Vec<bool>,
    features: Vec<&'static str>,
    tags: Vec<String>,
    /// only file / directory kinds (scenarios that also run on the real NativeEffectBackend)
    file_only: bool,
}

/// A way to pack one or two handles into a value: (type, value, pattern, post statements, bound vars)
struct Packed {
    ty: String,
    val: String,
    pat: String,
    post: Vec<String>,
    binds: Vec<(String, RK, usize)>,
}

impl<'a> Gen<'a> {
    fn fresh(&mut self, p: &str) -> String {
        self.next_var += 1;
        format!("{p}{}", self.next_var)
    }

    fn pack(&mut self, hs: &[HVar], unpack: bool) -> Packed {
        let a = self.fresh("h");
        let b = self.fresh("h");
        let g = self.fresh("k");
        let (ty, val, pat, post, nb): (String, String, String, Vec<String>, usize);
        if hs.len() == 1 {
            let t = hs[0].rk.ty();
            let h = &hs[0].name;
            match self.r.usize(8) {
                0 => {
                    self.features.push("shape:bare");
                    (ty, val, pat, post, nb) = (t.into(), h.clone(), a.clone(), vec![], 1)
                }
                1 => {
                    self.features.push("shape:tuple");
                    (ty, val, pat, post, nb) = (format!("['int, {t}]"), format!("[7, {h}]"), format!("[_, {a}]"), vec![], 1)
                }
                2 => {
                    self.features.push("shape:tuple2");
                    (ty, val, pat, post, nb) =
                        (format!("[[{t}, 'int], 'int]"), format!("[[{h}, 1], 2]"), format!("[[{a}, _], _]"), vec![], 1)
                }
                3 => {
                    self.features.push("shape:closure");
                    (ty, val, pat, post, nb) =
                        (format!("(#[] -> {t})"), format!("#{{ {h} }}"), g.clone(), vec![format!("{a} = [] {g}")], 1)
                }
                4 => {
                    self.features.push("shape:closure-in-tuple");
                    (ty, val, pat, post, nb) = (
                        format!("[(#[] -> {t}), 'int]"),
                        format!("[#{{ {h} }}, 3]"),
                        format!("[{g}, _]"),
                        vec![format!("{a} = [] {g}")],
                        1,
                    )
                }
                5 => {
                    self.features.push("shape:tuple-in-closure");
                    (ty, val, pat, post, nb) = (
                        format!("(#[] -> ['int, {t}])"),
                        format!("#{{ [4, {h}] }}"),
                        g.clone(),
                        vec![format!("[] {g} =[_, {a}]")],
                        1,
                    )
                }
                6 => {
                    self.features.push("shape:deep-tuple");
                    (ty, val, pat, post, nb) = (
                        format!("['int, ['int, ['int, {t}]]]"),
                        format!("[1, [2, [3, {h}]]]"),
                        format!("[_, [_, [_, {a}]]]"),
                        vec![],
                        1,
                    )
                }
                _ => {
                    self.features.push("shape:dup");
                    (ty, val, pat, post, nb) = (format!("[{t}, {t}]"), format!("[{h}, {h}]"), format!("[{a}, _]"), vec![], 1)
                }
            }
        } else {
            let (t1, t2) = (hs[0].rk.ty(), hs[1].rk.ty());
            let (h1, h2) = (&hs[0].name, &hs[1].name);
            match self.r.usize(3) {
                0 => {
                    self.features.push("shape:pair");
                    (ty, val, pat, post, nb) = (format!("[{t1}, {t2}]"), format!("[{h1}, {h2}]"), format!("[{a}, {b}]"), vec![], 2)
                }
                1 => {
                    self.features.push("shape:tuple+closure");
                    (ty, val, pat, post, nb) = (
                        format!("[[{t1}, 'int], (#[] -> {t2})]"),
                        format!("[[{h1}, 1], #{{ {h2} }}]"),
                        format!("[[{a}, _], {g}]"),
                        vec![format!("{b} = [] {g}")],
                        2,
                    )
                }
                _ => {
                    self.features.push("shape:pair-in-closure");
                    (ty, val, pat, post, nb) = (
                        format!("(#[] -> [{t1}, {t2}])"),
                        format!("#{{ [{h1}, {h2}] }}"),
                        g.clone(),
                        vec![format!("[] {g} =[{a}, {b}]")],
                        2,
                    )
                }
            }
        }
        let mut binds = vec![];
        let mut post = post;
        if unpack {
            binds.push((a, hs[0].rk, hs[0].label));
            if nb == 2 {
                binds.push((b, hs[1].rk, hs[1].label));
            }
        } else {
            // keep the packed value as it is: closures are not called, nothing is bound
            self.features.push("recv:not-unpacked");
            post = vec![];
        }
        // a pattern that binds nothing when we do not unpack
        let pat = if unpack { pat } else { "_".to_string() };
        Packed { ty, val, pat, post, binds }
    }

    fn pick_handles(&mut self, p: usize, max: usize) -> Vec<HVar> {
        let hs = self.procs[p].handles.clone();
        if hs.is_empty() {
            return vec![];
        }
        let n = 1 + self.r.usize(max.min(hs.len()));
        let mut idx: Vec<usize> = (0..hs.len()).collect();
        self.r.shuffle(&mut idx);
        idx.truncate(n);
        idx.into_iter().map(|i| hs[i].clone()).collect()
    }

    fn plan_owns(&self, p: usize, h: &HVar) -> bool {
        self.owner[h.label] == Some(p) && !self.closed[h.label]
    }

    fn die(&mut self, p: usize) {
        self.procs[p].alive = false;
        self.procs[p].finished = true;
        self.procs[p].failed = true;
    }

    fn text(&mut self, p: usize, s: String) {
        self.procs[p].body.push(Stmt::Text(s));
    }

    fn new_label(&mut self, owner: Option<usize>) -> usize {
        self.owner.push(owner);
        self.closed.push(false);
        self.next_label += 1;
        self.next_label - 1
    }

    fn act_open(&mut self, p: usize) {
        let v = self.fresh("h");
        let n = self.next_var;
        let fail = self.r.chance(1, 30);
        // accept needs a listener variable
        let lis: Vec<HVar> = self.procs[p].handles.iter().filter(|h| h.rk == RK::Lis).cloned().collect();
        let choice = if self.file_only { self.r.usize(5) } else { self.r.usize(if lis.is_empty() { 9 } else { 11 }) };
        let (rk, stmt, dies) = match choice {
            0..=3 => {
                self.features.push("open:file");
                (RK::File, format!("{v} = [\"/{}/f{n}\" .0, 66, 420] __file_open__", if fail { "fail" } else { "ok" }), fail)
            }
            4 => {
                self.features.push("open:dir");
                (RK::Dir, format!("{v} = \"/{}/d{n}\" .0 __directory_read__", if fail { "fail" } else { "ok" }), fail)
            }
            5 => {
                self.features.push("open:dns");
                (RK::Dns, format!("{v} = \"{}.host{n}\" .0 __dns_resolve__", if fail { "fail" } else { "ok" }), fail)
            }
            6 | 7 => {
                self.features.push("open:connect");
                (RK::Sock, format!("{v} = [0x7f000001, {}] __tcp_connect__", if fail { 13 } else { 80 }), fail)
            }
            8 => {
                self.features.push("open:listen");
                (RK::Lis, format!("{v} = [{}, 10] __tcp_listen__", if fail { 13 } else { 8000 }), fail)
            }
            _ => {
                self.features.push("open:accept");
                let l = lis[self.r.usize(lis.len())].clone();
                let ok = self.plan_owns(p, &l);
                (RK::Sock, format!("{v} = {} __tcp_listener_accept__", l.name), !ok)
            }
        };
        self.text(p, stmt);
        if dies {
            self.features.push("open:expected-failure");
            self.die(p);
        } else {
            let label = self.new_label(Some(p));
            self.procs[p].handles.push(HVar { name: v, rk, label });
        }
    }

    /// one handle variable of `p`: usually one the plan says `p` owns, sometimes a stale one
    fn pick_for_use(&mut self, p: usize) -> Vec<HVar> {
        let owned: Vec<HVar> = self.procs[p].handles.iter().filter(|h| self.plan_owns(p, h)).cloned().collect();
        if !owned.is_empty() && !self.r.chance(1, 6) {
            return vec![owned[self.r.usize(owned.len())].clone()];
        }
        self.pick_handles(p, 1)
    }

    fn act_use(&mut self, p: usize) {
        let hs = self.pick_for_use(p);
        let Some(h) = hs.first().cloned() else { return };
        let bad_world = !self.file_only && self.r.chance(1, 30);
        let len = if bad_world { 13 } else { 5 };
        let data = if bad_world { "\"abcdefghijklm\" .0" } else { "\"abc\" .0" };
        let mut world_matters = true;
        let stmt = match h.rk {
            RK::File => match self.r.usize(3) {
                0 => format!("[{}, 0, {len}] __file_read__", h.name),
                1 => format!("[{}, 0, {data}] __file_write__", h.name),
                _ => {
                    world_matters = false;
                    format!("{} __file_flush__", h.name)
                }
            },
            RK::Dir => {
                world_matters = false;
                format!("{} __directory_next__", h.name)
            }
            RK::Dns => {
                world_matters = false;
                format!("{} __dns_next__", h.name)
            }
            RK::Sock => match self.r.usize(2) {
                0 => format!("[{}, {len}] __tcp_socket_read__", h.name),
                _ => format!("[{}, {data}] __tcp_socket_write__", h.name),
            },
            RK::Lis => {
                // using a listener = accepting; result discarded (the new socket stays with p)
                world_matters = false;
                format!("{} __tcp_listener_accept__", h.name)
            }
        };
        self.text(p, stmt);
        let owns = self.plan_owns(p, &h);
        if h.rk == RK::Lis && owns {
            // an accepted socket nobody holds a variable for
            self.new_label(Some(p));
        }
        self.features.push(if owns { "use:owner" } else if self.closed[h.label] { "use:after-close" } else { "use:non-owner" });
        if !owns || (bad_world && world_matters) {
            self.die(p);
        }
    }

    fn act_close(&mut self, p: usize) {
        let hs = self.pick_for_use(p);
        let Some(h) = hs.first().cloned() else { return };
        let b = match h.rk {
            RK::File => "__file_close__",
            RK::Dir => "__directory_close__",
            RK::Dns => "__dns_close__",
            RK::Sock => "__tcp_socket_close__",
            RK::Lis => "__tcp_listener_close__",
        };
        self.text(p, format!("{} {b}", h.name));
        if self.plan_owns(p, &h) {
            self.features.push("close:owner");
            self.closed[h.label] = true;
        } else {
            self.features.push("close:non-owner");
            self.die(p);
        }
    }

    fn act_send(&mut self, p: usize) {
        if self.procs[p].pids.is_empty() {
            return;
        }
        let hs = self.pick_handles(p, 2);
        if hs.is_empty() {
            return;
        }
        let (qname, q) = self.procs[p].pids[self.r.usize(self.procs[p].pids.len())].clone();
        let q_takes = self.procs[q].alive && !self.procs[q].finished;
        let receive = q_takes && !self.r.chance(1, 6);
        let unpack = !self.r.chance(1, 6);
        let pk = self.pack(&hs, unpack);
        self.next_tag += 1;
        let tag = format!("M{}", self.next_tag);
        self.text(p, format!("{tag}[{}] {qname}", pk.val));
        self.tags.push(format!("{tag}[{}]", pk.ty));
        for h in &hs {
            self.features.push(if self.plan_owns(p, h) { "send:owned" } else { "send:stale" });
            if !self.closed[h.label] {
                self.owner[h.label] = Some(q);
            }
        }
        if receive {
            self.features.push("send:received");
            self.text(q, format!("!#({tag}[{}]) ={tag}[{}]", pk.ty, pk.pat));
            for s in pk.post {
                self.text(q, s);
            }
            for (name, rk, label) in pk.binds {
                self.procs[q].handles.push(HVar { name, rk, label });
            }
        } else if q_takes {
            self.features.push("send:left-in-mailbox");
        } else {
            self.features.push("send:to-finished-process");
        }
    }

    fn act_spawn(&mut self, p: usize) {
        let child = self.procs.len();
        let var = format!("c{child}");
        // captures: a subset of p's handles the child will mention
        let caps = if self.r.chance(2, 3) { self.pick_handles(p, 2) } else { vec![] };
        let arg_hs = if self.r.chance(1, 2) { self.pick_handles(p, 2) } else { vec![] };
        let mut handles: Vec<HVar> = caps.clone();
        let mut body = vec![];
        let mut arg = None;
        let mut arg_pat = None;
        if !arg_hs.is_empty() {
            let pk = self.pack(&arg_hs, true);
            arg = Some((pk.val.clone(), pk.ty.clone()));
            arg_pat = Some(pk.pat.clone());
            for s in pk.post {
                body.push(Stmt::Text(s));
            }
            for (name, rk, label) in pk.binds {
                handles.push(HVar { name, rk, label });
            }
            self.features.push("spawn:argument");
        }
        let me = format!("me{child}");
        body.insert(0, Stmt::Text(format!("{me} = &.")));
        body.insert(1, Stmt::Decl);
        if !caps.is_empty() {
            self.features.push("spawn:captures");
            let names: Vec<String> = caps.iter().map(|h| h.name.clone()).collect();
            // mention the captured handles (nested in a closure half of the time) so they are captured
            if self.r.chance(1, 2) {
                body.push(Stmt::Text(format!("[{}]", names.join(", "))));
            } else {
                self.features.push("spawn:capture-inside-inner-closure");
                let k = self.fresh("k");
                body.push(Stmt::Text(format!("{k} = #{{ [{}] }}", names.join(", "))));
            }
        }
        if caps.is_empty() && arg_hs.is_empty() {
            self.features.push("spawn:plain");
        }
        for h in caps.iter().chain(arg_hs.iter()) {
            self.features.push(if self.plan_owns(p, h) { "spawn:owned" } else { "spawn:stale" });
            if !self.closed[h.label] {
                self.owner[h.label] = Some(child);
            }
        }
        let mut pids = self.procs[p].pids.clone();
        pids.push((format!("me{p}"), p));
        self.procs.push(Proc {
            parent: Some(p),
            body,
            handles,
            pids,
            alive: true,
            finished: false,
            failed: false,
            arg_pat,
        });
        self.procs[p].body.push(Stmt::Spawn { child, var: var.clone(), arg });
        self.procs[p].pids.push((var, child));
    }

    fn act_finish(&mut self, p: usize) {
        if p == 0 {
            return;
        }
        // sometimes the result is (or contains) a handle
        let ret = if self.r.chance(1, 5) {
            self.pick_handles(p, 1).first().map(|h| h.name.clone())
        } else {
            None
        };
        match ret {
            Some(h) => {
                self.features.push("finish:returns-handle");
                self.text(p, h)
            }
            None => self.text(p, "Ok".into()),
        }
        self.procs[p].alive = false;
        self.procs[p].finished = true;
    }

    fn act_await(&mut self, p: usize) {
        let cands: Vec<(String, usize)> = self.procs[p]
            .pids
            .iter()
            .filter(|(n, q)| n.starts_with('c') && *q != p && *q != 0 && !self.is_ancestor(*q, p))
            .cloned()
            .collect();
        if cands.is_empty() {
            return;
        }
        let (qn, q) = cands[self.r.usize(cands.len())].clone();
        if !self.procs[q].finished {
            // awaiting a process that is still running: its script ends here
            self.features.push("await:running-process");
            self.act_finish(q);
        }
        self.text(p, format!("!{qn}"));
        self.features.push(if self.procs[q].failed { "await:failed-process" } else { "await:completed-process" });
        // cleanup: everything the plan says q owns is closed
        for l in 0..self.owner.len() {
            if self.owner[l] == Some(q) {
                self.closed[l] = true;
            }
        }
        if self.procs[q].failed {
            self.die(p);
        }
    }

    fn is_ancestor(&self, a: usize, mut p: usize) -> bool {
        while let Some(pp) = self.procs[p].parent {
            if pp == a {
                return true;
            }
            p = pp;
        }
        false
    }

    fn render(&self, p: usize) -> String {
        let mut out = vec![];
        for s in &self.procs[p].body {
            match s {
                Stmt::Text(t) => out.push(t.clone()),
                Stmt::Decl => {
                    if !self.tags.is_empty() {
                        out.push(format!("0 {{ | =1 => {{ !#({}), Ok }} | Ok }}", self.tags.join(" | ")));
                    }
                }
                Stmt::Spawn { child, var, arg } => {
                    let body = self.render(*child);
                    match (arg, &self.procs[*child].arg_pat) {
                        (Some((val, ty)), Some(pat)) => out.push(format!("{var} = {val} @#{ty} {{ ={pat},\n{body} }}")),
                        _ => out.push(format!("{var} = @{{ {body} }}")),
                    }
                }
            }
        }
        out.join(",\n")
    }
}

pub fn generate(r: &mut Rng, max_procs: usize, n_actions: usize, file_only: bool) -> Scenario {
    let mut g = Gen {
        r,
        procs: vec![Proc {
            parent: None,
            body: vec![Stmt::Text("me0 = &.".into()), Stmt::Decl],
            handles: vec![],
            pids: vec![],
            alive: true,
            finished: false,
            failed: false,
            arg_pat: None,
        }],
        next_var: 0,
        next_tag: 0,
        next_label: 0,
        owner: vec![],
        closed: vec![],
        features: vec![],
        tags: vec![],
        file_only,
    };
    // a resource to start with
    g.act_open(0);
    for _ in 0..n_actions {
        let alive: Vec<usize> = (0..g.procs.len()).filter(|p| g.procs[*p].alive).collect();
        if alive.is_empty() {
            break;
        }
        let p = alive[g.r.usize(alive.len())];
        match g.r.usize(20) {
            0..=3 => g.act_open(p),
            4..=7 => g.act_use(p),
            8 => g.act_close(p),
            9..=12 => g.act_send(p),
            13..=15 => {
                if g.procs.len() < max_procs {
                    g.act_spawn(p)
                } else {
                    g.act_send(p)
                }
            }
            16 => g.act_finish(p),
            _ => g.act_await(p),
        }
    }
    // close all scripts: children first (so that late awaits can be added to parents)
    for p in (1..g.procs.len()).rev() {
        if g.procs[p].alive {
            g.text(p, "Ok".into());
            g.procs[p].alive = false;
            g.procs[p].finished = true;
        }
    }
    // main: await some of its children at the end, leave others un-awaited
    if g.procs[0].alive {
        let kids: Vec<(String, usize)> = g.procs[0].pids.clone();
        for (name, q) in kids {
            if g.procs[0].alive && g.r.chance(1, 2) {
                g.text(0, format!("!{name}"));
                g.features.push("await:at-end");
                if g.procs[q].failed {
                    g.die(0);
                }
            }
        }
    }
    if g.procs[0].alive {
        g.text(0, "Ok".into());
    }
    Scenario { source: g.render(0), n_procs: g.procs.len(), features: g.features }
}
