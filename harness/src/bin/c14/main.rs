//! C14 — a resource is usable only by its single owner and is closed exactly once.
//!
//! Generated multi-process programs (handles nested in tuples and closures, sent in messages, left
//! in mailboxes, passed as spawn captures / arguments, owners awaited or not, stale handles used or
//! forwarded) run on the REAL `Environment` + `Worker`s under the deterministic simulator, with an
//! instrumenting in-memory `EffectBackend` (backend.rs). For every environment step the harness
//! reconstructs the exact sequence of events the environment handled and
//!   * CORRESPONDENCE: feeds it to the Lean model driver `qm_c14` (the `step` the theorems are
//!     about) and compares, per step, the model's backend-log delta (execute / close_resource
//!     calls), the commands sent to workers (effect completions ok / err / new resource id, spawn
//!     placement, deliveries) and the backend registry with what the real system did;
//!   * ORACLE (independent of the model): tracks ownership as the property states it — creator,
//!     then the last recipient — and checks: no `execute` for a non-owner, the owner is never
//!     refused, the offender ends with a runtime error, `close_resource` only for resources of
//!     processes reported complete in that very message, never while the owner is alive, every
//!     resource of a reported process closed, no repeated close; at quiescence every resource still
//!     open whose owner has terminated is a violation (F10 / F10b, repaired in /repo 5cb2956: regressions).
mod backend;
mod scenario;
use backend::*;
use quiver_core::process::{ProcessId, ProcessStatus};
use quiver_core::value::{ResourceId, Value};
use quiver_environment::{Command, Event};
use qverif::sim::*;
use qverif::{Ev, Model, Opts, Rng};
use serde_json::json;
use std::collections::{BTreeMap, BTreeSet, HashMap};

type E = quiver_io::NativeEffect;

/// `DeliverAction` carries only the target: the sender is a ghost of the model's `send` event (used
/// by `livenessOk` only). The harness passes an id that never terminates.
const UNKNOWN_SENDER: u64 = 4294967295;

fn val_sx(v: &Value) -> String {
    match v {
        Value::Resource(r, _) => format!("(r {r})"),
        Value::Tuple(_, fs) => {
            let mut s = String::from("(t");
            for f in fs.iter() {
                s.push(' ');
                s.push_str(&val_sx(f));
            }
            s.push(')');
            s
        }
        Value::Function(_, cs) => {
            let mut s = String::from("(f");
            for f in cs.iter() {
                s.push(' ');
                s.push_str(&val_sx(f));
            }
            s.push(')');
            s
        }
        _ => "o".into(),
    }
}

/// (resource id, nesting depth, inside a closure?)
fn resources_of(v: &Value, depth: usize, in_fn: bool, out: &mut Vec<(ResourceId, usize, bool)>) {
    match v {
        Value::Resource(r, _) => out.push((*r, depth, in_fn)),
        Value::Tuple(_, fs) => fs.iter().for_each(|f| resources_of(f, depth + 1, in_fn, out)),
        Value::Function(_, cs) => cs.iter().for_each(|f| resources_of(f, depth + 1, true, out)),
        _ => {}
    }
}

/// Parse `key=value` fields of a model answer; a value is a token or a parenthesised group.
fn fields(line: &str) -> HashMap<String, String> {
    let mut m = HashMap::new();
    let b: Vec<char> = line.chars().collect();
    let mut i = 0;
    while i < b.len() {
        while i < b.len() && b[i] == ' ' {
            i += 1;
        }
        let ks = i;
        while i < b.len() && b[i] != '=' {
            i += 1;
        }
        if i >= b.len() {
            break;
        }
        let key: String = b[ks..i].iter().collect();
        i += 1;
        let vs = i;
        if i < b.len() && b[i] == '(' {
            while i < b.len() && b[i] != ')' {
                i += 1;
            }
            i += 1;
            m.insert(key, b[vs + 1..i - 1].iter().collect());
        } else {
            while i < b.len() && b[i] != ' ' {
                i += 1;
            }
            m.insert(key, b[vs..i].iter().collect());
        }
    }
    m
}

fn toks(s: &str) -> Vec<String> {
    s.split(' ').filter(|t| !t.is_empty()).map(|t| t.to_string()).collect()
}

/// Items of a call log in comparable form: executes in order, adjacent closes merged and sorted.
#[derive(Debug, Clone, PartialEq, Eq)]
enum Item {
    Exec(String),
    Closes(Vec<ResourceId>),
}

fn push_close(items: &mut Vec<Item>, mut rids: Vec<ResourceId>) {
    if rids.is_empty() {
        return;
    }
    if let Some(Item::Closes(prev)) = items.last_mut() {
        prev.append(&mut rids);
        prev.sort();
    } else {
        rids.sort();
        items.push(Item::Closes(rids));
    }
}

#[derive(Default)]
struct Tracker {
    /// ownership as the property states it: creator, then the last recipient
    owner: BTreeMap<ResourceId, ProcessId>,
    /// ids closed by cleanup and not registered again since
    cleaned: BTreeSet<ResourceId>,
    /// processes seen reported complete, with the env-step index
    reported: BTreeMap<ProcessId, usize>,
    /// when (env-step index) each resource was last acquired by its current owner
    acquired_at: BTreeMap<ResourceId, usize>,
    /// processes whose request was (rightly) refused: must end with a runtime error
    offenders: BTreeSet<ProcessId>,
    /// requests in flight: pid -> creating?
    effective_closes: BTreeMap<ResourceId, usize>,
    /// processes whose ProcessExited the environment has handled (repair of F10)
    exited: BTreeSet<ProcessId>,
    /// counts handled events (finer than environment steps)
    clock: usize,
}

struct Case {
    /// run on the real NativeEffectBackend (wrapped) instead of the fake
    native: bool,
    src: String,
    n_workers: usize,
    quantum: Option<usize>,
}

struct Outcome {
    /// (signature, description)
    problems: Vec<(String, String, bool)>,
    schedule: String,
    env_events: usize,
    transfers: usize,
    nested_transfers: usize,
    closure_transfers: usize,
    rejected: usize,
    closes: usize,
    execs: usize,
    f10: usize,
    result: String,
    results: Vec<String>,
    rejected_by_compiler: Option<String>,
    counters: Vec<String>,
}

/// Processes whose body has finished: `result` is set (a process that received an error completion
/// has its result set at once; the worker reports it from then on). A *persistent* process (the
/// REPL's process 0) is alive as long as the session lasts — it sleeps between lines and is resumed
/// by the next one — so it counts as terminated only once it has failed.
fn terminated_now(sim: &Sim) -> BTreeSet<ProcessId> {
    sim.processes()
        .into_iter()
        .filter(|(_, _, info)| if info.persistent { matches!(info.result, Some(Err(_))) } else { info.result.is_some() })
        .map(|(p, _, _)| p)
        .collect()
}

/// Persistent processes that are asleep (successful result, waiting to be resumed): alive.
fn sleeping_now(sim: &Sim) -> BTreeSet<ProcessId> {
    sim.processes()
        .into_iter()
        .filter(|(_, _, info)| info.persistent && matches!(info.result, Some(Ok(_))))
        .map(|(p, _, _)| p)
        .collect()
}

fn run_case(c: &Case, r: &mut Rng, model: &mut Model) -> Outcome {
    let mut out = Outcome {
        problems: vec![],
        schedule: String::new(),
        env_events: 0,
        transfers: 0,
        nested_transfers: 0,
        closure_transfers: 0,
        rejected: 0,
        closes: 0,
        execs: 0,
        f10: 0,
        result: String::new(),
        results: vec![],
        rejected_by_compiler: None,
        counters: vec![],
    };
    let mut b = qverif::run::builtins();
    quiver_io::attach_network_builtins(&mut b);
    quiver_io::attach_file_builtins(&mut b);
    let mut sim = Sim::new(c.n_workers, c.quantum, b, true);
    let sh = BShared::new();
    // prefer a memory file system for the scratch files: fsync on a busy disk can take seconds
    let shm = std::path::PathBuf::from("/dev/shm");
    let probe = shm.join(format!("qverif-c14-probe-{}", std::process::id()));
    let base = if std::fs::create_dir_all(&probe).is_ok() {
        let _ = std::fs::remove_dir_all(&probe);
        shm
    } else {
        std::env::temp_dir()
    };
    let scratch = base.join(format!("qverif-c14-{}", std::process::id()));
    if c.native {
        let _ = std::fs::remove_dir_all(&scratch);
        match WrapBackend::new(sh.clone(), scratch.clone()) {
            Some(wb) => sim.env.set_effect_backend(Box::new(wb)),
            None => {
                out.rejected_by_compiler = Some("io_uring not available".into());
                return out;
            }
        }
    } else {
        sim.env.set_effect_backend(Box::new(FakeBackend(sh.clone())));
    }
    let mut sim = sim.with_repl(HashMap::new());
    let policy = Policy::random(r, c.n_workers);

    let a = model.ask(&format!("reset {}", c.n_workers));
    if a != "ok" {
        out.problems.push(("model=bad-reset".into(), a, false));
        return out;
    }
    // Repl::new started the persistent process 0
    model.ask("start");

    let mut tr = Tracker::default();
    let mut term_told: BTreeSet<ProcessId> = BTreeSet::new();
    // REPL process 0 is "Sleeping" (terminated in our sense) until it is resumed: the resume command
    // has been queued by submit; tell the model only about terminations seen after a worker step.
    let mut result: Option<String>;
    let mut env_step_no = 0usize;
    let mut idle_rounds;
    let max_steps = 6000;
    let mut forced: Vec<Choice> = vec![];

    let lines: Vec<String> = c.src.split("\n----\n").map(|l| l.to_string()).collect();
    for (line_no, line) in lines.iter().enumerate() {
    let req = match sim.submit(line) {
        Ok(Some(id)) => id,
        Ok(None) => {
            out.rejected_by_compiler = Some("nocode".into());
            return out;
        }
        Err(e) => {
            out.rejected_by_compiler = Some(format!("line {line_no}: {e:?}"));
            return out;
        }
    };
    result = None;
    idle_rounds = 0;
    for _ in 0..max_steps {
        if result.is_none()
            && let Some(rr) = sim.poll_result(req)
        {
            result = Some(match rr {
                Ok((v, heap)) => sim.canon(&v, &heap),
                Err(e) => format!("error:{}", qverif::canon::error_class(&e)),
            });
        }
        if sh.lock().aborted {
            // the real backend did not complete an operation in time: inconclusive, not a finding
            out.problems.clear();
            out.counters.push("native:abandoned(operation did not complete in 20 s)".into());
            let _ = std::fs::remove_dir_all(&scratch);
            return out;
        }
        let pending_backend = sh.lock().pending.len();
        let choice = if let Some(ch) = forced.pop() {
            ch
        } else if sim.idle() && pending_backend == 0 && sim.next_timeout().is_none() {
            idle_rounds += 1;
            if idle_rounds > 2 {
                break;
            }
            // one full fair round: completions are reported lazily
            for i in (0..c.n_workers).rev() {
                forced.push(Choice::Worker { i, visible: usize::MAX });
            }
            Choice::Env { visible: vec![usize::MAX; c.n_workers] }
        } else if sim.idle() && pending_backend > 0 {
            idle_rounds = 0;
            Choice::Env { visible: vec![usize::MAX; c.n_workers] }
        } else {
            idle_rounds = 0;
            sim.random_choice(r, &policy)
        };

        match &choice {
            Choice::Tick { .. } => {
                sim.step(choice);
            }
            Choice::Worker { i, .. } => {
                let i = *i;
                sim.step(choice);
                // ghost: tell the model which processes have finished their body
                let _ = i;
                for p in terminated_now(&sim) {
                    if term_told.insert(p) {
                        model.ask(&format!("terminate {p}"));
                    }
                }
            }
            Choice::Env { visible } => {
                env_step_no += 1;
                // the events this step will handle, in the order the environment handles them
                let mut events: Vec<Event<E>> = vec![];
                for (i, sh_i) in sim.chans.iter().enumerate() {
                    let ch = sh_i.chan.lock().unwrap();
                    let k = visible.get(i).copied().unwrap_or(usize::MAX).min(ch.evts.len());
                    events.extend(ch.evts.iter().take(k).cloned());
                }
                let cmd_before: Vec<usize> = sim.chans.iter().map(|s| s.chan.lock().unwrap().cmd_log.len()).collect();
                let calls_before = sh.lock().calls.len();
                {
                    let mut st = sh.lock();
                    let n = st.pending.len();
                    st.release = if n > 0 && r.chance(1, 3) { Some(r.usize(n + 1)) } else { None };
                }
                let term_before = terminated_now(&sim);
                let sleeping = sleeping_now(&sim);
                let step_out = sim.step(choice.clone());
                if !matches!(step_out, StepOutcome::Ok(_)) {
                    out.problems.push(("env=step-error".into(), format!("{step_out:?}"), true));
                }
                let calls: Vec<Call> = sh.lock().calls[calls_before..].to_vec();
                // commands sent in this step, in global order
                let mut cmds: Vec<(u64, usize, Command<E>)> = vec![];
                for (i, s) in sim.chans.iter().enumerate() {
                    let ch = s.chan.lock().unwrap();
                    for (seq, cmd) in ch.cmd_log[cmd_before[i]..].iter() {
                        cmds.push((*seq, i, cmd.clone()));
                    }
                }
                cmds.sort_by_key(|x| x.0);
                let own_real = sim.env.verif_resource_ownership();
                let pers_real = sim.env.verif_persistent_processes();
                check_env_step(c, &events, &calls, &cmds, &term_before, &sleeping, &own_real, &pers_real, env_step_no, &sh, &mut tr, model, &mut out);
            }
        }
    }
    out.results.push(result.clone().unwrap_or_else(|| "no-result".into()));
    }
    out.schedule = sim.render_schedule();
    out.result = out.results.join(" ; ");
    for _ in 0..sh.lock().settled {
        out.counters.push("native:close-waited-for-operation-in-flight".into());
    }
    if c.native {
        let _ = std::fs::remove_dir_all(&scratch);
    }
    for (idx, who, msg) in &sim.faults {
        out.problems.push(("sim=fault".into(), format!("step {idx} {who}: {msg}"), true));
    }

    // ---- end of run: oracle on the final state -------------------------------------------------
    let procs = sim.processes();
    let status: HashMap<ProcessId, ProcessStatus> = procs.iter().map(|(p, _, i)| (*p, i.status.clone())).collect();
    // offenders must have failed with a runtime error
    for p in &tr.offenders {
        match procs.iter().find(|(q, _, _)| q == p) {
            Some((_, _, info)) => match &info.result {
                Some(Err(_)) => out.counters.push("offender:failed-with-runtime-error".into()),
                other => {
                    // the refusal may not have been delivered yet if the run was cut short
                    if sim.idle() {
                        out.problems.push((
                            "offender=not-failed".into(),
                            format!("process {p} was refused an effect but its result is {other:?}"),
                            true,
                        ))
                    }
                }
            },
            None => {}
        }
    }
    // resources still open whose owner has terminated
    let mut open: Vec<ResourceId> = sh.lock().open.iter().copied().collect();
    if !sim.idle() {
        // cut short by the step budget with messages still in flight: exit reports may be undelivered
        out.counters.push("end:not-quiescent(leak check skipped)".into());
        open.clear();
    }
    for rid in open {
        let Some(o) = tr.owner.get(&rid).copied() else {
            out.problems.push(("resource=open-without-owner".into(), format!("resource {rid} is open but the oracle knows no owner"), true));
            continue;
        };
        let st = status.get(&o);
        let dead = matches!(st, Some(ProcessStatus::Completed) | Some(ProcessStatus::Failed));
        if !dead {
            out.counters.push("end:open-owner-alive".into());
            continue;
        }
        match tr.reported.get(&o) {
            None => {
                out.f10 += 1;
                out.problems.push((
                    "resource=never-awaited-owner-not-closed".into(),
                    format!("resource {rid} still open at quiescence although its owner, process {o}, has terminated ({st:?}; never awaited) — F10 (repaired in 5cb2956) is back"),
                    true,
                ));
            }
            Some(when) => {
                let acq = tr.acquired_at.get(&rid).copied().unwrap_or(0);
                if acq > *when {
                    out.problems.push((
                        "resource=arrived-after-owner-reported-not-closed".into(),
                        format!("resource {rid} reached process {o} (event {acq}) after its termination had been reported (event {when}) and was never closed — F10b (repaired in 5cb2956) is back"),
                        true,
                    ));
                } else {
                    out.problems.push((
                        "resource=reported-owner-not-closed".into(),
                        format!("resource {rid} still open although its owner {o} was reported complete at event {when} (acquired at {acq})"),
                        true,
                    ));
                }
            }
        }
    }
    out
}

#[allow(clippy::too_many_arguments)]
fn check_env_step(
    _c: &Case,
    events: &[Event<E>],
    calls_all: &[Call],
    cmds: &[(u64, usize, Command<E>)],
    term_before: &BTreeSet<ProcessId>,
    sleeping: &BTreeSet<ProcessId>,
    own_real: &[(ResourceId, ProcessId)],
    pers_real: &[ProcessId],
    step_no: usize,
    sh: &BShared,
    tr: &mut Tracker,
    model: &mut Model,
    out: &mut Outcome,
) {
    // ---------- what the real system did, in comparable form ----------
    let native = sh.lock().native;
    for c in calls_all {
        if let Call::Surprise(what) = c {
            out.problems.push((
                "native=unexpected-backend-behaviour".into(),
                format!("the real NativeEffectBackend behaved differently from its id-level description: {what}"),
                false,
            ));
        }
    }
    let calls_f: Vec<Call> = calls_all.iter().filter(|c| !matches!(c, Call::Surprise(_))).cloned().collect();
    let calls: &[Call] = &calls_f;
    let mut real_items: Vec<Item> = vec![];
    let mut completions_n = 0usize;
    for (i, call) in calls.iter().enumerate() {
        match call {
            Call::Completions { n } => {
                if i != 0 {
                    out.problems.push(("backend=completions-not-first".into(), format!("{calls:?}"), false));
                }
                completions_n = *n;
            }
            Call::Execute { pid, kind, rid, .. } => real_items.push(Item::Exec(format!("{pid}:{kind}:{rid}"))),
            Call::Close { rid, .. } => push_close(&mut real_items, vec![*rid]),
            Call::ExplicitClose { .. } => {}
            Call::Surprise(_) => {}
        }
    }
    let mut real_out: Vec<String> = vec![];
    for (_, w, cmd) in cmds {
        match cmd {
            Command::EffectCompletion { process_id, result, .. } => real_out.push(match result {
                Ok(Value::Resource(r, _)) => format!("done:{process_id}:res{r}"),
                Ok(_) => format!("done:{process_id}:ok"),
                Err(_) => format!("done:{process_id}:err"),
            }),
            Command::SpawnProcess { id, .. } => real_out.push(format!("spawn:{id}@{w}")),
            Command::NotifySpawn { process_id, spawned_pid, .. } => real_out.push(format!("notify:{process_id}:{spawned_pid}")),
            Command::DeliverMessage { target, .. } => real_out.push(format!("deliver:{target}")),
            _ => {}
        }
    }

    // ---------- the model on the same events ----------
    let mut lines: Vec<String> = vec![];
    if completions_n > 0 {
        lines.push(format!("completions {completions_n}"));
    }
    // index of the model line of each event (None = not a resource-relevant event)
    let mut ev_line: Vec<Option<usize>> = vec![];
    for e in events {
        let l = match e {
            Event::EffectRequest { process_id, effect } => Some(format!(
                "request {process_id} {} {} {}",
                kind_of(effect),
                named_rid(effect).unwrap_or(0),
                if world_ok(effect, native) { 1 } else { 0 }
            )),
            Event::DeliverAction { target, message, .. } => Some(format!("send {UNKNOWN_SENDER} {target} {}", val_sx(message))),
            Event::SpawnAction { caller, captures, argument, .. } => Some(format!(
                "spawn {caller} ({}) {}",
                captures.iter().map(val_sx).collect::<Vec<_>>().join(" "),
                val_sx(argument)
            )),
            Event::ProcessResults { awaiter, results } => {
                // 0 = None, 1 = Some(Ok(_)), 2 = Some(Err(_))
                let mut rs: Vec<(ProcessId, u8)> = results
                    .iter()
                    .map(|(p, r)| (*p, match r { None => 0, Some(Ok(_)) => 1, Some(Err(_)) => 2 }))
                    .collect();
                rs.sort();
                Some(format!(
                    "results {awaiter} ({})",
                    rs.iter().map(|(p, b)| format!("({p} {b})")).collect::<Vec<_>>().join(" ")
                ))
            }
            other => exited_pid(other).map(|p| format!("exited {p}")),
        };
        match l {
            Some(l) => {
                ev_line.push(Some(lines.len()));
                lines.push(l);
            }
            None => ev_line.push(None),
        }
    }
    if lines.is_empty() {
        return;
    }
    let answers = model.ask_all(&lines);
    let mut model_items: Vec<Item> = vec![];
    let mut model_out: Vec<String> = vec![];
    let mut last: HashMap<String, String> = HashMap::new();
    for (l, a) in lines.iter().zip(answers.iter()) {
        if !a.starts_with("wf=") {
            out.problems.push(("model=bad-answer".into(), format!("{l} -> {a}"), false));
            return;
        }
        let f = fields(a);
        if f.get("wf").map(|s| s.as_str()) != Some("1") {
            out.problems.push((
                "assumption=event-not-well-formed".into(),
                format!("the model's eventOk is false for `{l}`: a worker emitted an event the theorems' hypotheses exclude (forged handle / action by a finished process / report before termination)"),
                false,
            ));
        }
        if f.get("faults").map(|s| s.as_str()) != Some("0") {
            out.problems.push(("model=fault".into(), format!("{l} -> {a}"), false));
        }
        for x in toks(f.get("x").map(|s| s.as_str()).unwrap_or("")) {
            model_items.push(Item::Exec(x));
        }
        let cs: Vec<ResourceId> = toks(f.get("c").map(|s| s.as_str()).unwrap_or("")).iter().filter_map(|t| t.parse().ok()).collect();
        push_close(&mut model_items, cs);
        for o in toks(f.get("out").map(|s| s.as_str()).unwrap_or("")) {
            if !o.starts_with("start:") {
                model_out.push(o);
            }
        }
        last = f;
    }
    let disagree = |what: &str, m: String, re: String, out: &mut Outcome| {
        out.problems.push((
            format!("correspondence={what}"),
            format!("env step {step_no}: model {m} / implementation {re}; events: {}", lines.join(" ; ")),
            false,
        ));
    };
    if model_items != real_items {
        disagree("backend-log", format!("{model_items:?}"), format!("{real_items:?}"), out);
    }
    if model_out != real_out {
        disagree("commands", format!("{model_out:?}"), format!("{real_out:?}"), out);
    }
    {
        let st = sh.lock();
        let open_real = st.open.iter().map(|r| r.to_string()).collect::<Vec<_>>().join(" ");
        if last.get("open").map(|s| s.as_str()) != Some(open_real.as_str()) {
            disagree("registry", format!("{:?}", last.get("open")), open_real, out);
        }
        // the ownership map itself (hook `Environment::verif_resource_ownership`)
        let own_s = own_real.iter().map(|(r, p)| format!("{r}:{p}")).collect::<Vec<_>>().join(" ");
        if last.get("own").map(|s| s.as_str()) != Some(own_s.as_str()) {
            disagree("ownership-map", format!("{:?}", last.get("own")), own_s, out);
        }
        let pers_s = pers_real.iter().map(|p| p.to_string()).collect::<Vec<_>>().join(" ");
        if last.get("pers").map(|s| s.as_str()) != Some(pers_s.as_str()) {
            disagree("persistent-set", format!("{:?}", last.get("pers")), pers_s, out);
        }
        if last.get("next").and_then(|s| s.parse::<usize>().ok()) != Some(st.next) {
            disagree("next-id", format!("{:?}", last.get("next")), st.next.to_string(), out);
        }
        if last.get("pend").and_then(|s| s.parse::<usize>().ok()) != Some(st.pending.len()) {
            disagree("pending", format!("{:?}", last.get("pend")), st.pending.len().to_string(), out);
        }
    }

    // ---------- the oracle: ownership as the property states it ----------
    // walk the call log alongside the events
    let mut ci = 0usize;
    let mut cmd_i = 0usize;
    // completions collected at the start of the step: creations register to the requester
    let next_completion_cmd = |cmd_i: &mut usize| -> Option<(ProcessId, Option<ResourceId>, bool)> {
        while *cmd_i < cmds.len() {
            let c = &cmds[*cmd_i].2;
            *cmd_i += 1;
            if let Command::EffectCompletion { process_id, result, .. } = c {
                return Some(match result {
                    Ok(Value::Resource(r, _)) => (*process_id, Some(*r), true),
                    Ok(_) => (*process_id, None, true),
                    Err(_) => (*process_id, None, false),
                });
            }
        }
        None
    };
    tr.clock += 1;
    if let Some(Call::Completions { n }) = calls.first() {
        let step_no = tr.clock;
        ci = 1;
        for _ in 0..*n {
            if let Some((p, Some(rid), _)) = next_completion_cmd(&mut cmd_i) {
                tr.owner.insert(rid, p);
                tr.acquired_at.insert(rid, step_no);
                tr.cleaned.remove(&rid);
                out.counters.push("create:async".into());
            }
        }
    }
    for e in events {
        out.env_events += 1;
        tr.clock += 1;
        let step_no = tr.clock;
        match e {
            Event::EffectRequest { process_id, effect } => {
                let p = *process_id;
                let named = named_rid(effect);
                let rightful = match named {
                    None => true,
                    Some(rid) => match tr.owner.get(&rid) {
                        None => true, // not registered (never opened / cleaned up): the backend decides
                        Some(o) => *o == p,
                    },
                };
                let reached = matches!(calls.get(ci), Some(Call::Execute { pid, kind, rid, .. })
                    if *pid == p && *kind == kind_of(effect) && *rid == named.unwrap_or(0));
                if reached {
                    ci += 1;
                    out.execs += 1;
                    if let Some(Call::ExplicitClose { .. }) = calls.get(ci) {
                        ci += 1;
                        out.counters.push("close:explicit".into());
                    }
                }
                if !rightful {
                    out.rejected += 1;
                    tr.offenders.insert(p);
                    out.counters.push(format!("refused:{}", kind_of(effect)));
                    if reached {
                        out.problems.push((
                            format!("exec=non-owner kind={}", kind_of(effect)),
                            format!(
                                "process {p} is not the owner of resource {} (owner: {:?}) but its {} reached the backend",
                                named.unwrap_or(0),
                                named.and_then(|r| tr.owner.get(&r)),
                                kind_of(effect)
                            ),
                            true,
                        ));
                    }
                } else if !reached {
                    out.problems.push((
                        format!("exec=owner-refused kind={}", kind_of(effect)),
                        format!(
                            "process {p} owns resource {:?} (or it is unregistered) but its {} never reached the backend",
                            named,
                            kind_of(effect)
                        ),
                        true,
                    ));
                } else {
                    out.counters.push(format!("exec:{}", kind_of(effect)));
                }
                // synchronous completion (success, refusal or failure) is the next completion command
                let sync = !rightful
                    || !reached
                    || !matches!(
                        effect,
                        E::FileRead { .. }
                            | E::FileWrite { .. }
                            | E::FileFlush { .. }
                            | E::TcpSocketRead { .. }
                            | E::TcpSocketWrite { .. }
                            | E::TcpListenerAccept { .. }
                            | E::TcpConnect { .. }
                    )
                    || named.is_some_and(|rid| !sh_was_open(calls, ci, rid, sh));
                if sync {
                    if let Some((q, created, ok)) = next_completion_cmd(&mut cmd_i) {
                        if q != p {
                            out.problems.push(("completion=wrong-process".into(), format!("completion for {q}, request by {p}"), true));
                        }
                        if !rightful && ok {
                            out.problems.push(("refusal=not-an-error".into(), format!("process {p} was refused but got an Ok completion"), true));
                        }
                        if let Some(rid) = created {
                            tr.owner.insert(rid, p);
                            tr.acquired_at.insert(rid, step_no);
                            tr.cleaned.remove(&rid);
                            out.counters.push("create:sync".into());
                        }
                    } else {
                        out.problems.push(("completion=missing".into(), format!("no completion command for the request of {p}"), true));
                    }
                }
            }
            Event::DeliverAction { target, message, .. } => {
                let mut rs = vec![];
                resources_of(message, 0, false, &mut rs);
                for (rid, depth, in_fn) in rs {
                    out.transfers += 1;
                    if depth > 1 {
                        out.nested_transfers += 1;
                    }
                    if in_fn {
                        out.closure_transfers += 1;
                    }
                    if tr.cleaned.remove(&rid) {
                        out.counters.push("transfer:stale-after-cleanup".into());
                    }
                    if tr.owner.get(&rid).is_some_and(|o| term_before.contains(o)) {
                        out.counters.push("transfer:from-terminated-owner".into());
                    }
                    tr.owner.insert(rid, *target);
                    tr.acquired_at.insert(rid, step_no);
                    out.counters.push("transfer:deliver".into());
                    if term_before.contains(target) {
                        out.counters.push("transfer:to-terminated-process".into());
                    }
                }
                // repair of F10b: the target's termination has been reported (ProcessExited) — what
                // it is handed now must be closed on arrival
                if tr.exited.contains(target) {
                    let one: BTreeSet<ProcessId> = [*target].into_iter().collect();
                    account_cleanup(calls, &mut ci, tr, &one, &one, term_before, sleeping, step_no, "handed a resource after its ProcessExited", out);
                    out.counters.push("deliver:to-exited-process(closed on arrival)".into());
                }
            }
            Event::SpawnAction { captures, argument, .. } => {
                // the new pid: the SpawnProcess command of this step that follows
                let new_pid = cmds.iter().skip(cmd_i).find_map(|(_, _, c)| match c {
                    Command::SpawnProcess { id, .. } => Some(*id),
                    _ => None,
                });
                // advance past it
                while cmd_i < cmds.len() {
                    let is_spawn = matches!(cmds[cmd_i].2, Command::SpawnProcess { .. });
                    cmd_i += 1;
                    if is_spawn {
                        break;
                    }
                }
                let Some(new_pid) = new_pid else {
                    out.problems.push(("spawn=no-command".into(), "SpawnAction without SpawnProcess".into(), true));
                    continue;
                };
                let mut rs = vec![];
                for (k, v) in captures.iter().enumerate() {
                    let before = rs.len();
                    resources_of(v, 1, false, &mut rs);
                    if rs.len() > before {
                        out.counters.push(format!("transfer:capture{}", if k > 0 { "+" } else { "" }));
                    }
                }
                let before = rs.len();
                resources_of(argument, 0, false, &mut rs);
                if rs.len() > before {
                    out.counters.push("transfer:argument".into());
                }
                for (rid, depth, in_fn) in rs {
                    out.transfers += 1;
                    if depth > 1 {
                        out.nested_transfers += 1;
                    }
                    if in_fn {
                        out.closure_transfers += 1;
                    }
                    if tr.cleaned.remove(&rid) {
                        out.counters.push("transfer:stale-after-cleanup".into());
                    }
                    tr.owner.insert(rid, new_pid);
                    tr.acquired_at.insert(rid, step_no);
                    out.counters.push("transfer:spawn".into());
                }
            }
            Event::ProcessResults { results, .. } => {
                // every `Some(result)` entry ...
                let reported_all: BTreeSet<ProcessId> = results.iter().filter(|(_, r)| r.is_some()).map(|(p, _)| *p).collect();
                // ... of which the dead ones: a persistent process that sleeps between two lines is alive
                // (worker-side truth, independent of the environment's own bookkeeping)
                let reported: BTreeSet<ProcessId> = reported_all.iter().copied().filter(|p| !sleeping.contains(p)).collect();
                account_cleanup(calls, &mut ci, tr, &reported_all, &reported, term_before, sleeping, step_no, "reported complete", out);
                if !results.is_empty() && reported.is_empty() {
                    out.counters.push("report:pending-only".into());
                }
            }
            other => {
                if let Some(p) = exited_pid(other) {
                    let all: BTreeSet<ProcessId> = [p].into_iter().collect();
                    let dead: BTreeSet<ProcessId> = all.iter().copied().filter(|q| !sleeping.contains(q)).collect();
                    if dead.is_empty() {
                        out.problems.push((
                            "exit-report=sleeping-persistent-process".into(),
                            format!("ProcessExited for the persistent process {p}, which is only asleep"),
                            true,
                        ));
                    }
                    if !tr.exited.insert(p) {
                        out.problems.push(("exit-report=twice".into(), format!("ProcessExited for {p} a second time"), true));
                    }
                    account_cleanup(calls, &mut ci, tr, &all, &dead, term_before, sleeping, step_no, "reported exited", out);
                    out.counters.push("exit-report".into());
                }
            }
        }
    }
    // leftover calls nobody accounted for
    while ci < calls.len() {
        match &calls[ci] {
            Call::Close { rid, .. } => out.problems.push((
                "cleanup=wrong-process".into(),
                format!("close_resource({rid}) not attributable to any ProcessResults of this step (owner {:?})", tr.owner.get(rid)),
                true,
            )),
            Call::Execute { pid, kind, rid, .. } => out.problems.push((
                format!("exec=unrequested kind={kind}"),
                format!("execute({pid}, {kind} {rid}) without a matching EffectRequest"),
                true,
            )),
            _ => {}
        }
        ci += 1;
    }
    // the environment's map must be the ownership the property describes (creator, then the last
    // recipient; dropped when the owner's termination is reported)
    let spec: Vec<(ResourceId, ProcessId)> = tr.owner.iter().map(|(r, p)| (*r, *p)).collect();
    if spec != own_real {
        out.problems.push((
            "ownership=map-differs-from-property".into(),
            format!("after env step {step_no}: resource_ownership = {own_real:?}, ownership per the property = {spec:?}"),
            true,
        ));
    }
    for (rid, n) in &tr.effective_closes {
        if *n > 1 {
            out.problems.push(("close=double-effective".into(), format!("resource {rid} effectively closed {n} times"), true));
        }
    }
}

/// The oracle's view of one cleanup: the next `close_resource` calls that belong to processes in
/// `all` (the processes this event names), of which `dead` are really dead (worker-side truth).
/// Everything a dead process owns must be closed now, nothing may be closed for a live owner, no id
/// twice.
#[allow(clippy::too_many_arguments)]
fn account_cleanup(
    calls: &[Call],
    ci_ref: &mut usize,
    tr: &mut Tracker,
    reported_all: &BTreeSet<ProcessId>,
    reported: &BTreeSet<ProcessId>,
    term_before: &BTreeSet<ProcessId>,
    sleeping: &BTreeSet<ProcessId>,
    step_no: usize,
    why: &str,
    out: &mut Outcome,
) {
    let mut ci = *ci_ref;
    {
                // the closes of this event: the following close_resource calls the oracle attributes
                // to a process reported in this message (anything else is left over and flagged below)
                let mut mine: Vec<(ResourceId, bool)> = vec![];
                while let Some(Call::Close { rid, effective }) = calls.get(ci) {
                    // one cleanup passes an id at most once: a repetition belongs to the next event
                    if mine.iter().any(|(r, _)| r == rid) {
                        break;
                    }
                    match tr.owner.get(rid) {
                        Some(o) if reported_all.contains(o) => {
                            mine.push((*rid, *effective));
                            ci += 1;
                        }
                        _ => break,
                    }
                }
                for p in reported_all.difference(reported) {
                    out.counters.push(format!("report:sleeping-persistent-process-{p}"));
                }
                for p in reported {
                    tr.reported.entry(*p).or_insert(step_no);
                    if !term_before.contains(p) {
                        out.problems.push((
                            "report=before-termination".into(),
                            format!("process {p} {why} but it had not terminated before this environment step"),
                            true,
                        ));
                    }
                    out.counters.push("report:completed".into());
                }
                let mine_set: BTreeSet<ResourceId> = mine.iter().map(|x| x.0).collect();
                if mine_set.len() != mine.len() {
                    out.problems.push(("close=repeated-call".into(), format!("close_resource called twice for the same id in one cleanup: {mine:?}"), true));
                }
                // every resource of a reported process must be closed now
                let owned: Vec<ResourceId> = tr.owner.iter().filter(|(_, o)| reported.contains(o)).map(|(r, _)| *r).collect();
                for rid in owned {
                    if !mine_set.contains(&rid) {
                        out.problems.push((
                            "cleanup=missed".into(),
                            format!("process {:?} was {why} but its resource {rid} was not passed to close_resource", tr.owner.get(&rid)),
                            true,
                        ));
                    }
                }
                for (rid, effective) in mine {
                    out.closes += 1;
                    let o = tr.owner.get(&rid).copied();
                    if let Some(o) = o
                        && sleeping.contains(&o)
                    {
                        out.problems.push((
                            "close=sleeping-persistent-owner".into(),
                            format!("close_resource({rid}) while its owner, the persistent process {o}, is alive (asleep between two lines of the session): a process awaited it, the worker reported its last line's result as a completion"),
                            true,
                        ));
                    } else if let Some(o) = o
                        && !term_before.contains(&o)
                    {
                        out.problems.push((
                            "close=owner-alive".into(),
                            format!("close_resource({rid}) while its owner {o} is alive"),
                            true,
                        ));
                    }
                    if tr.cleaned.contains(&rid) {
                        out.problems.push(("close=repeated-call".into(), format!("close_resource({rid}) again without a new registration"), true));
                    }
                    if effective {
                        *tr.effective_closes.entry(rid).or_insert(0) += 1;
                        out.counters.push("close:cleanup-effective".into());
                    } else {
                        out.counters.push("close:cleanup-noop(already closed)".into());
                    }
                    tr.owner.remove(&rid);
                    tr.cleaned.insert(rid);
                }

    }
    *ci_ref = ci;
}

/// `Event::ProcessExited { process_id }`: the worker's report that a process has terminated (repair
/// of F10, /repo 5cb2956).
fn exited_pid(e: &Event<E>) -> Option<ProcessId> {
    match e {
        Event::ProcessExited { process_id } => Some(*process_id),
        _ => None,
    }
}

/// Was `rid` open when the Execute just before `ci` ran? (an async kind on a closed id fails at
/// submission, i.e. synchronously). The registry is only reduced by closes, so "open now or closed
/// later in this step" = open then.
fn sh_was_open(calls: &[Call], ci: usize, rid: ResourceId, sh: &BShared) -> bool {
    if sh.lock().open.contains(&rid) {
        return true;
    }
    calls[ci.min(calls.len())..].iter().any(|c| match c {
        Call::Close { rid: r, effective } => *r == rid && *effective,
        Call::ExplicitClose { rid: r } => *r == rid,
        _ => false,
    })
}

/// `c14 --probe LINE1 LINE2 …`: evaluate lines one after the other in ONE REPL session on the fake
/// backend with fair scheduling, print the backend calls (exploration aid, not part of the check).
fn probe(lines: &[String]) {
    let mut b = qverif::run::builtins();
    quiver_io::attach_network_builtins(&mut b);
    quiver_io::attach_file_builtins(&mut b);
    let mut sim = Sim::new(2, None, b, true);
    let sh = BShared::new();
    sim.env.set_effect_backend(Box::new(FakeBackend(sh.clone())));
    let mut sim = sim.with_repl(HashMap::new());
    for l in lines {
        let out = eval_in(&mut sim, l, None, 3000);
        for _ in 0..6 {
            sim.fair_round();
        }
        println!("{l}\n  => {}", out.render());
        for c in sh.lock().calls.drain(..) {
            println!("     {c:?}");
        }
        println!("     open = {:?}", sh.lock().open);
        for (pid, w, info) in sim.processes() {
            println!("     pid {pid} w{w} {:?}", info.status);
        }
    }
}

fn main() {
    qverif::quiet_panics();
    let args: Vec<String> = std::env::args().collect();
    if args.get(1).map(|s| s.as_str()) == Some("--native-check") {
        match quiver_io::NativeEffectBackend::new(8) {
            Ok(_) => println!("io_uring: available"),
            Err(e) => println!("io_uring: NOT available ({e:?})"),
        }
        return;
    }
    if args.get(1).map(|s| s.as_str()) == Some("--probe") {
        probe(&args[2..]);
        return;
    }
    let opts = Opts::parse();
    let mut ev = Ev::new("C14", &opts);
    ev.rule = "a case is one (generated program, worker count, quantum, random schedule); non-trivial = the environment handled at least one ownership transfer and one effect on a resource, and at least two processes ran; distinct by (program, schedule)".into();
    let model_path = opts.model.clone().unwrap_or_else(|| format!("{}/.lake/build/bin/qm_c14", qverif::lean_dir()).into());
    let mut model = Model::spawn(&model_path);

    // ---- --replay FILE: re-run the recorded case (same program, workers, quantum, schedule seed) ----
    if let Some(path) = opts.replay.clone() {
        let text = std::fs::read_to_string(&path).unwrap_or_else(|e| panic!("cannot read replay {}: {e}", path.display()));
        let j: serde_json::Value = serde_json::from_str(&text).expect("replay JSON");
        let rj = &j["replay"];
        let src = rj["program"].as_str().expect("replay.program").to_string();
        let what = j["what"].as_str().unwrap_or("");
        let native = rj["native"].as_bool().unwrap_or_else(|| what.contains("[program native"));
        let case_no = rj["case"].as_u64().unwrap_or(0);
        let seed = j["seed"].as_u64().unwrap_or(opts.seed);
        let mut r = Rng::for_case(seed ^ 0x5C4ED, case_no);
        let n_workers = 1 + r.usize(4);
        let quantum = *r.pick(&[Some(1usize), Some(3), Some(17), None]);
        let c = Case { native, src: src.clone(), n_workers, quantum };
        let o = run_case(&c, &mut r, &mut model);
        println!("# replay of {}: native={native} workers={n_workers} quantum={quantum:?} result={}", path.display(), o.result);
        println!("# schedule {} the recorded one", if rj["schedule"].as_str() == Some(o.schedule.as_str()) { "IS" } else { "differs from" });
        for cn in &o.counters {
            ev.hit(cn);
        }
        ev.case(&(&src, &o.schedule), true);
        for (sig, what, found) in &o.problems {
            ev.violation(sig, what, json!({"program": src, "native": native, "workers": n_workers, "quantum": quantum, "case": case_no, "schedule": o.schedule}), *found);
        }
        std::process::exit(ev.finish());
    }

    // ---- corpus: fixed programs first ----
    let mut programs: Vec<(String, String)> = corpus();
    let n_gen = opts.tier.pick(1500, 15000);
    let schedules = opts.tier.pick(3, 8);
    for i in 0..n_gen {
        let mut r = Rng::for_case(opts.seed ^ 0xC14, i as u64);
        let max_procs = 2 + r.usize(5);
        let n_actions = 6 + r.usize(30);
        let sc = scenario::generate(&mut r, max_procs, n_actions, false);
        for f in &sc.features {
            ev.hit(&format!("gen:{f}"));
        }
        ev.hit(&format!("gen:processes={}", sc.n_procs.min(6)));
        programs.push((format!("gen{i}"), sc.source));
    }

    // ---- a second stream on the REAL NativeEffectBackend (file / directory kinds), if io_uring exists ----
    let native_ok = quiver_io::NativeEffectBackend::new(8).is_ok();
    let n_native = if native_ok { opts.tier.pick(120, 2500) } else { 0 };
    ev.set_extra("native_backend_available", json!(native_ok));
    let first_native = programs.len();
    for i in 0..n_native {
        let mut r = Rng::for_case(opts.seed ^ 0xC14F, i as u64);
        let max_procs = 2 + r.usize(4);
        let n_actions = 6 + r.usize(24);
        let sc = scenario::generate(&mut r, max_procs, n_actions, true);
        programs.push((format!("native{i}"), sc.source));
    }
    // the file-only corpus programs also run on the real backend
    if native_ok {
        for (name, src) in corpus() {
            if !src.contains("tcp_") && !src.contains("dns_") {
                programs.push((format!("native:{name}"), src));
            }
        }
    }

    let mut total_transfers = 0u64;
    let mut rejected_programs = 0u64;
    for (pi, (name, src)) in programs.iter().enumerate() {
        let native = pi >= first_native;
        let schedules = if native { 2 } else { schedules };
        for k in 0..schedules {
            let case_no = (pi * 100 + k) as u64;
            let mut r = Rng::for_case(opts.seed ^ 0x5C4ED, case_no);
            let n_workers = 1 + r.usize(4);
            let quantum = *r.pick(&[Some(1usize), Some(3), Some(17), None]);
            let c = Case { native, src: src.clone(), n_workers, quantum };
            let o = match qverif::catch(|| run_case(&c, &mut r, &mut model)) {
                Ok(o) => o,
                Err(p) => {
                    ev.violation(
                        "harness=panic",
                        &format!("panic while running {name}: {p}"),
                        json!({"program": src, "workers": n_workers, "quantum": quantum, "case": case_no}),
                        false,
                    );
                    model = Model::spawn(&model_path);
                    continue;
                }
            };
            if let Some(why) = &o.rejected_by_compiler {
                rejected_programs += 1;
                ev.hit("program:rejected-by-compiler");
                if rejected_programs <= 3 {
                    eprintln!("# generator produced a rejected program ({name}): {why}\n{src}");
                }
                break;
            }
            let nontrivial = o.transfers > 0 && o.execs > 0;
            ev.case(&(src, &o.schedule), nontrivial);
            total_transfers += o.transfers as u64;
            ev.add("events:handled-by-environment", o.env_events as u64);
            ev.add("transfers:resources-moved", o.transfers as u64);
            ev.add("transfers:nested-depth>1", o.nested_transfers as u64);
            ev.add("transfers:inside-closure", o.closure_transfers as u64);
            ev.add("requests:refused-non-owner", o.rejected as u64);
            ev.add("requests:reached-backend", o.execs as u64);
            ev.add("closes:by-cleanup", o.closes as u64);
            ev.add("end:F10-resources", o.f10 as u64);
            ev.hit(if native { "backend:real-NativeEffectBackend(io_uring)" } else { "backend:fake" });
            ev.hit(&format!("workers={n_workers}"));
            ev.hit(&format!("quantum={quantum:?}"));
            ev.hit(&format!(
                "result:{}",
                if o.result.starts_with("error:") {
                    "runtime-error"
                } else if o.result == "no-result" {
                    "no-result(blocked)"
                } else {
                    "value"
                }
            ));
            for cn in &o.counters {
                ev.hit(cn);
            }
            ev.sample_sparse(case_no, 97, || {
                json!({"program": src, "workers": n_workers, "quantum": quantum, "result": o.result,
                       "transfers": o.transfers, "refused": o.rejected, "cleanup_closes": o.closes, "f10": o.f10})
            });
            for (sig, what, found) in &o.problems {
                ev.violation(
                    sig,
                    &format!("{what} [program {name}, {n_workers} workers, quantum {quantum:?}]"),
                    json!({"program": src, "name": name, "native": native, "workers": n_workers, "quantum": quantum, "case": case_no,
                           "schedule": o.schedule, "result": o.result,
                           "broken": if *found { "oracle on the implementation".to_string() } else { format!("correspondence model<->impl ({sig})") }}),
                    *found,
                );
            }
        }
    }
    ev.set_extra("model_requests", json!(model.requests));
    ev.set_extra("programs", json!(programs.len()));
    ev.set_extra("programs_rejected_by_compiler", json!(rejected_programs));
    ev.set_extra("total_resource_transfers", json!(total_transfers));
    std::process::exit(ev.finish());
}

/// Fixed regression programs (run first): the three ownership tests of files.rs in fake-backend
/// form, the F10 witness, and the shapes DESIGN §5 C14 names.
fn corpus() -> Vec<(String, String)> {
    let mut v = vec![];
    let dir = "/verif/corpus/C14";
    if let Ok(rd) = std::fs::read_dir(dir) {
        let mut names: Vec<_> = rd.filter_map(|e| e.ok()).map(|e| e.path()).filter(|p| p.extension().is_some_and(|x| x == "qv")).collect();
        names.sort();
        for p in names {
            if let Ok(s) = std::fs::read_to_string(&p) {
                v.push((p.file_name().unwrap().to_string_lossy().to_string(), s));
            }
        }
    }
    v
}
