//! An instrumenting, purely in-memory `EffectBackend` for `NativeEffect`.
//!
//! It mirrors `quiver_io::NativeEffectBackend` at the level of resource ids — ids come from a
//! counter starting at 1 and are never reused; an effect on an id that is not in the registry fails
//! at submission (`Err(InvalidArgument("Resource N not found"))`); read / write / flush / accept /
//! connect are *submitted* and complete through `process_completions` (accept / connect allocate
//! the new id when the completion is collected); `close_resource` removes from the registry and is
//! a no-op for an unknown id — and logs every call the environment makes.
//!
//! Whether "the outside world" lets an operation succeed is decided by the operation's own
//! arguments (so the harness can tell the model the same bit): see `world_ok`.
use quiver_core::effects::{EffectBackend, EffectError, EffectResult, ResultTupleInfo};
use quiver_core::process::ProcessId;
use quiver_core::value::{Binary, ResourceId, Value};
use quiver_io::NativeEffect;
use std::collections::{BTreeSet, HashMap, VecDeque};
use std::sync::{Arc, Mutex};

#[derive(Clone, Debug, PartialEq, Eq)]
pub enum Call {
    /// execute(pid, effect): kind name, resource id (0 for creating kinds), world bit
    Execute { pid: ProcessId, kind: &'static str, rid: ResourceId, w: bool },
    /// close_resource(id); `effective` = the id was open
    Close { rid: ResourceId, effective: bool },
    /// an explicit close effect removed an open id
    ExplicitClose { rid: ResourceId },
    /// process_completions() returned `n` completions
    Completions { n: usize },
    /// native mode only: the real backend did something the id-level description does not predict
    Surprise(String),
}

#[derive(Clone, Debug)]
pub enum Pending {
    Plain { ok: bool, kind: &'static str, len: usize },
    Creating { ok: bool },
}

#[derive(Default)]
pub struct State {
    pub calls: Vec<Call>,
    pub open: BTreeSet<ResourceId>,
    pub kinds: HashMap<ResourceId, &'static str>,
    pub next: ResourceId,
    pub pending: VecDeque<(ProcessId, Pending)>,
    /// how many pending operations the next `process_completions` may return (None = all)
    pub release: Option<usize>,
    pub type_ids: HashMap<String, usize>,
    pub result_infos: HashMap<String, ResultTupleInfo>,
    pub set_type_ids_calls: usize,
    /// native mode: the real `NativeEffectBackend` is behind this log (file / directory kinds only)
    pub native: bool,
    /// native mode: a submitted operation did not complete in time (a loaded machine: fsync on a
    /// busy disk) — the case is inconclusive and is abandoned, it is NOT a finding
    pub aborted: bool,
    /// native mode: how often a close had to wait for an operation in flight on the same resource
    pub settled: usize,
}

#[derive(Clone)]
pub struct BShared(pub Arc<Mutex<State>>);

impl BShared {
    pub fn new() -> BShared {
        BShared(Arc::new(Mutex::new(State { next: 1, ..Default::default() })))
    }
    pub fn lock(&self) -> std::sync::MutexGuard<'_, State> {
        self.0.lock().unwrap()
    }
}

pub struct FakeBackend(pub BShared);

pub fn kind_of(e: &NativeEffect) -> &'static str {
    match e {
        NativeEffect::FileOpen { .. } => "fileOpen",
        NativeEffect::FileRead { .. } => "fileRead",
        NativeEffect::FileWrite { .. } => "fileWrite",
        NativeEffect::FileFlush { .. } => "fileFlush",
        NativeEffect::FileClose { .. } => "fileClose",
        NativeEffect::Stat { .. } => "stat",
        NativeEffect::ReadDirOpen { .. } => "readDirOpen",
        NativeEffect::ReadDirNext { .. } => "readDirNext",
        NativeEffect::ReadDirClose { .. } => "readDirClose",
        NativeEffect::DnsResolve { .. } => "dnsResolve",
        NativeEffect::DnsNext { .. } => "dnsNext",
        NativeEffect::DnsClose { .. } => "dnsClose",
        NativeEffect::TcpConnect { .. } => "tcpConnect",
        NativeEffect::TcpListen { .. } => "tcpListen",
        NativeEffect::TcpListenerAccept { .. } => "tcpListenerAccept",
        NativeEffect::TcpListenerClose { .. } => "tcpListenerClose",
        NativeEffect::TcpSocketRead { .. } => "tcpSocketRead",
        NativeEffect::TcpSocketWrite { .. } => "tcpSocketWrite",
        NativeEffect::TcpSocketClose { .. } => "tcpSocketClose",
    }
}

/// The id an effect names — computed HERE from the variant, independently of
/// `Effect::resource_id()` (which is part of the code under test).
pub fn named_rid(e: &NativeEffect) -> Option<ResourceId> {
    match e {
        NativeEffect::FileOpen { .. }
        | NativeEffect::Stat { .. }
        | NativeEffect::ReadDirOpen { .. }
        | NativeEffect::DnsResolve { .. }
        | NativeEffect::TcpConnect { .. }
        | NativeEffect::TcpListen { .. } => None,
        NativeEffect::FileRead { resource_id, .. }
        | NativeEffect::FileWrite { resource_id, .. }
        | NativeEffect::FileFlush { resource_id }
        | NativeEffect::FileClose { resource_id }
        | NativeEffect::ReadDirNext { resource_id }
        | NativeEffect::ReadDirClose { resource_id }
        | NativeEffect::DnsNext { resource_id }
        | NativeEffect::DnsClose { resource_id }
        | NativeEffect::TcpListenerAccept { resource_id }
        | NativeEffect::TcpListenerClose { resource_id }
        | NativeEffect::TcpSocketRead { resource_id, .. }
        | NativeEffect::TcpSocketWrite { resource_id, .. }
        | NativeEffect::TcpSocketClose { resource_id } => Some(*resource_id),
    }
}

/// Does the outside world let this operation succeed? A pure function of the request. In native
/// mode only missing paths fail (reads / writes / fsync on a file opened read-write succeed).
pub fn world_ok(e: &NativeEffect, native: bool) -> bool {
    if native {
        return match e {
            NativeEffect::FileOpen { path, .. } | NativeEffect::ReadDirOpen { path } => !path.starts_with(b"/fail"),
            _ => true,
        };
    }
    match e {
        NativeEffect::FileOpen { path, .. }
        | NativeEffect::ReadDirOpen { path }
        | NativeEffect::Stat { path } => !path.starts_with(b"/fail"),
        NativeEffect::DnsResolve { hostname } => !hostname.starts_with(b"fail"),
        NativeEffect::TcpConnect { port, .. } => *port != 13,
        NativeEffect::TcpListen { port, .. } => *port != 13,
        NativeEffect::FileRead { length, .. } | NativeEffect::TcpSocketRead { length, .. } => *length != 13,
        NativeEffect::FileWrite { data, .. } | NativeEffect::TcpSocketWrite { data, .. } => data.len() != 13,
        _ => true,
    }
}

fn not_found(rid: ResourceId) -> quiver_core::error::Error {
    quiver_core::error::Error::InvalidArgument(format!("Resource {} not found", rid))
}

impl State {
    fn alloc(&mut self, type_name: &'static str) -> Value {
        let rid = self.next;
        self.next += 1;
        self.open.insert(rid);
        self.kinds.insert(rid, type_name);
        Value::Resource(rid, *self.type_ids.get(type_name).unwrap_or(&0))
    }
}

impl EffectBackend for FakeBackend {
    type E = NativeEffect;

    fn execute(&mut self, pid: ProcessId, effect: NativeEffect) -> Result<Option<EffectResult>, quiver_core::error::Error> {
        let mut s = self.0.lock();
        let kind = kind_of(&effect);
        let w = world_ok(&effect, false);
        let rid = named_rid(&effect);
        s.calls.push(Call::Execute { pid, kind, rid: rid.unwrap_or(0), w });
        let refuse = || Err(quiver_core::error::Error::InvalidArgument(format!("world refuses {kind}")));
        match &effect {
            NativeEffect::FileOpen { .. } => if w { Ok(Some(Ok((s.alloc("File"), vec![])))) } else { refuse() },
            NativeEffect::ReadDirOpen { .. } => if w { Ok(Some(Ok((s.alloc("Dir"), vec![])))) } else { refuse() },
            NativeEffect::DnsResolve { .. } => if w { Ok(Some(Ok((s.alloc("DnsResolver"), vec![])))) } else { refuse() },
            NativeEffect::TcpListen { .. } => if w { Ok(Some(Ok((s.alloc("TcpListener"), vec![])))) } else { refuse() },
            NativeEffect::TcpConnect { .. } => {
                s.pending.push_back((pid, Pending::Creating { ok: w }));
                Ok(None)
            }
            NativeEffect::Stat { .. } => {
                if !w {
                    return refuse();
                }
                // `[kind, size, modified, mode]` stamped like the native backend does
                match s.result_infos.get("filesystem_stat").and_then(|i| i.variants.get("File").map(|k| (i.tuple_id, *k))) {
                    Some((tid, kid)) => Ok(Some(Ok((
                        Value::tuple(tid, vec![Value::tuple(kid, vec![]), Value::Integer(5.into()), Value::Integer(0.into()), Value::Integer(420.into())]),
                        vec![],
                    )))),
                    None => Ok(Some(Ok((Value::nil(), vec![])))),
                }
            }
            NativeEffect::ReadDirNext { resource_id } => {
                if !s.open.contains(resource_id) {
                    return Err(not_found(*resource_id));
                }
                match s.result_infos.get("directory_next").and_then(|i| i.variants.get("File").map(|k| (i.tuple_id, *k))) {
                    Some((tid, kid)) => Ok(Some(Ok((
                        Value::tuple(tid, vec![Value::Binary(Binary::Heap(0)), Value::tuple(kid, vec![])]),
                        vec![b"entry".to_vec()],
                    )))),
                    None => Ok(Some(Ok((Value::nil(), vec![])))),
                }
            }
            NativeEffect::DnsNext { resource_id } => {
                if !s.open.contains(resource_id) {
                    return Err(not_found(*resource_id));
                }
                Ok(Some(Ok((Value::Binary(Binary::Heap(0)), vec![vec![127, 0, 0, 1]]))))
            }
            NativeEffect::FileRead { resource_id, length, .. } | NativeEffect::TcpSocketRead { resource_id, length } => {
                if !s.open.contains(resource_id) {
                    return Err(not_found(*resource_id));
                }
                s.pending.push_back((pid, Pending::Plain { ok: w, kind: "read", len: *length }));
                Ok(None)
            }
            NativeEffect::FileWrite { resource_id, data, .. } | NativeEffect::TcpSocketWrite { resource_id, data } => {
                if !s.open.contains(resource_id) {
                    return Err(not_found(*resource_id));
                }
                s.pending.push_back((pid, Pending::Plain { ok: w, kind: "write", len: data.len() }));
                Ok(None)
            }
            NativeEffect::FileFlush { resource_id } => {
                if !s.open.contains(resource_id) {
                    return Err(not_found(*resource_id));
                }
                s.pending.push_back((pid, Pending::Plain { ok: w, kind: "flush", len: 0 }));
                Ok(None)
            }
            NativeEffect::TcpListenerAccept { resource_id } => {
                if !s.open.contains(resource_id) {
                    return Err(not_found(*resource_id));
                }
                s.pending.push_back((pid, Pending::Creating { ok: w }));
                Ok(None)
            }
            NativeEffect::FileClose { resource_id }
            | NativeEffect::ReadDirClose { resource_id }
            | NativeEffect::DnsClose { resource_id }
            | NativeEffect::TcpSocketClose { resource_id }
            | NativeEffect::TcpListenerClose { resource_id } => {
                if !s.open.remove(resource_id) {
                    return Err(not_found(*resource_id));
                }
                s.calls.push(Call::ExplicitClose { rid: *resource_id });
                Ok(Some(Ok((Value::ok(), vec![]))))
            }
        }
    }

    fn process_completions(&mut self) -> Vec<(ProcessId, EffectResult)> {
        let mut s = self.0.lock();
        let n = s.release.unwrap_or(usize::MAX).min(s.pending.len());
        s.release = None;
        let mut out = vec![];
        for _ in 0..n {
            let (pid, p) = s.pending.pop_front().unwrap();
            let r: EffectResult = match p {
                Pending::Plain { ok: false, .. } | Pending::Creating { ok: false } => Err(EffectError::IO("world refuses".into())),
                Pending::Plain { kind: "read", len, .. } => Ok((Value::Binary(Binary::Heap(0)), vec![vec![b'x'; len.min(8)]])),
                Pending::Plain { kind: "write", len, .. } => Ok((Value::Integer((len as i64).into()), vec![])),
                Pending::Plain { .. } => Ok((Value::ok(), vec![])),
                Pending::Creating { .. } => Ok((s.alloc("TcpSocket"), vec![])),
            };
            out.push((pid, r));
        }
        if n > 0 {
            s.calls.push(Call::Completions { n });
        }
        out
    }

    fn close_resource(&mut self, resource_id: ResourceId) {
        let mut s = self.0.lock();
        let effective = s.open.remove(&resource_id);
        s.calls.push(Call::Close { rid: resource_id, effective });
    }

    fn set_type_ids(&mut self, resources: &[String], results: &[(String, ResultTupleInfo)]) {
        let mut s = self.0.lock();
        s.set_type_ids_calls += 1;
        s.type_ids.clear();
        for (i, n) in resources.iter().enumerate() {
            s.type_ids.insert(n.clone(), i);
        }
        s.result_infos.clear();
        for (n, info) in results {
            s.result_infos.insert(n.clone(), info.clone());
        }
    }
}


/// Instrumenting wrapper around the REAL `quiver_io::NativeEffectBackend` (io_uring) over a
/// scratch directory: `/ok/<name>` and `/fail/<name>` paths are mapped into it (the former are
/// created on demand, the latter never exist). It logs the same `Call`s as the fake and mirrors the
/// registry / allocator / pending queue from what the real backend answers, so the same
/// correspondence and oracle run on top of it; anything the id-level description of the backend
/// (the model's `Backend.execute`, the fake above) does not predict is logged as `Surprise`.
/// To keep runs reproducible, `process_completions` waits until every submitted operation has
/// completed and hands completions out in submission order (`release` still limits how many).
pub struct WrapBackend {
    pub inner: quiver_io::NativeEffectBackend,
    pub sh: BShared,
    pub dir: std::path::PathBuf,
    buffered: HashMap<ProcessId, EffectResult>,
    /// operations submitted to the ring and not yet collected: requester -> resource id
    in_flight: HashMap<ProcessId, ResourceId>,
}

impl WrapBackend {
    pub fn new(sh: BShared, dir: std::path::PathBuf) -> Option<WrapBackend> {
        let inner = quiver_io::NativeEffectBackend::new(64).ok()?;
        std::fs::create_dir_all(&dir).ok()?;
        sh.lock().native = true;
        Some(WrapBackend { inner, sh, dir, buffered: HashMap::new(), in_flight: HashMap::new() })
    }

    /// Before `rid` is closed: let every operation the kernel still has in flight on it finish.
    /// The id-level description (and the model) complete a submitted operation with the outcome
    /// fixed at submission; in the real kernel an fsync / read / write that io_uring has handed to a
    /// worker thread resolves its descriptor only when the worker runs, so a `close` that wins that
    /// race turns the completion into EBADF. Which one wins is real-time scheduling inside the
    /// kernel (seen only on a loaded machine), not something a verdict may depend on: the wrapper
    /// picks the order "operation first, then close", which is one of the legal ones.
    fn settle(&mut self, rid: ResourceId) {
        let waiting: Vec<ProcessId> = self.in_flight.iter().filter(|(_, r)| **r == rid).map(|(p, _)| *p).collect();
        if waiting.is_empty() {
            return;
        }
        self.sh.lock().settled += 1;
        let start = std::time::Instant::now();
        loop {
            for (pid, r) in self.inner.process_completions() {
                self.in_flight.remove(&pid);
                self.buffered.insert(pid, r);
            }
            if waiting.iter().all(|p| self.buffered.contains_key(p)) {
                return;
            }
            if start.elapsed().as_millis() > 20000 {
                self.sh.lock().aborted = true;
                return;
            }
            std::thread::sleep(std::time::Duration::from_micros(30));
        }
    }

    fn map_path(&self, path: &[u8], is_dir: bool) -> Vec<u8> {
        let s = String::from_utf8_lossy(path).to_string();
        let name = s.rsplit('/').next().unwrap_or("x").to_string();
        if s.starts_with("/ok/") {
            let p = self.dir.join(&name);
            if is_dir {
                let _ = std::fs::create_dir_all(&p);
                let _ = std::fs::write(p.join("entry"), b"e");
            } else if !p.exists() {
                let _ = std::fs::write(&p, b"hello world, this is a scratch file\n");
            }
            p.to_string_lossy().as_bytes().to_vec()
        } else {
            self.dir.join("missing").join(&name).to_string_lossy().as_bytes().to_vec()
        }
    }
}

impl EffectBackend for WrapBackend {
    type E = NativeEffect;

    fn execute(&mut self, pid: ProcessId, effect: NativeEffect) -> Result<Option<EffectResult>, quiver_core::error::Error> {
        let kind = kind_of(&effect);
        let w = world_ok(&effect, true);
        let rid = named_rid(&effect);
        let was_open = rid.map(|r| self.sh.lock().open.contains(&r));
        self.sh.lock().calls.push(Call::Execute { pid, kind, rid: rid.unwrap_or(0), w });
        let mapped = match effect.clone() {
            NativeEffect::FileOpen { path, flags, mode } => NativeEffect::FileOpen { path: self.map_path(&path, false), flags, mode },
            NativeEffect::ReadDirOpen { path } => NativeEffect::ReadDirOpen { path: self.map_path(&path, true) },
            NativeEffect::Stat { path } => NativeEffect::Stat { path: self.map_path(&path, false) },
            other => other,
        };
        if matches!(effect, NativeEffect::FileClose { .. } | NativeEffect::ReadDirClose { .. })
            && let Some(r) = rid
        {
            self.settle(r);
        }
        let reply = self.inner.execute(pid, mapped);
        if matches!(reply, Ok(None))
            && let Some(r) = rid
        {
            self.in_flight.insert(pid, r);
        }
        let mut s = self.sh.lock();
        let creating = matches!(effect, NativeEffect::FileOpen { .. } | NativeEffect::ReadDirOpen { .. });
        let closing = matches!(effect, NativeEffect::FileClose { .. } | NativeEffect::ReadDirClose { .. });
        let asynchronous = matches!(effect, NativeEffect::FileRead { .. } | NativeEffect::FileWrite { .. } | NativeEffect::FileFlush { .. });
        // what the id-level description predicts
        let predicted = if creating {
            if w { "new" } else { "err" }
        } else if was_open == Some(false) {
            "err"
        } else if asynchronous {
            "submitted"
        } else {
            "ok"
        };
        let actual = match &reply {
            Ok(Some(Ok((Value::Resource(r, _), _)))) => {
                if *r != s.next {
                    let exp = s.next;
                    s.calls.push(Call::Surprise(format!("{kind}: new id {r}, expected {exp}")));
                }
                s.open.insert(*r);
                s.next = *r + 1;
                "new"
            }
            Ok(Some(Ok(_))) => {
                if closing && let Some(r) = rid {
                    s.open.remove(&r);
                    s.calls.push(Call::ExplicitClose { rid: r });
                }
                "ok"
            }
            Ok(Some(Err(_))) => "completion-err",
            Ok(None) => {
                s.pending.push_back((pid, Pending::Plain { ok: true, kind: "native", len: 0 }));
                "submitted"
            }
            Err(_) => "err",
        };
        if predicted != actual {
            s.calls.push(Call::Surprise(format!("{kind} {:?} by {pid}: real backend answered `{actual}`, id-level description predicts `{predicted}` ({reply:?})", rid)));
        }
        reply
    }

    fn process_completions(&mut self) -> Vec<(ProcessId, EffectResult)> {
        let want = self.sh.lock().pending.len();
        if want == 0 {
            return self.inner.process_completions();
        }
        let start = std::time::Instant::now();
        loop {
            for (pid, r) in self.inner.process_completions() {
                self.in_flight.remove(&pid);
                self.buffered.insert(pid, r);
            }
            if self.buffered.len() >= want {
                break;
            }
            if start.elapsed().as_millis() > 20000 {
                self.sh.lock().aborted = true;
                break;
            }
            std::thread::sleep(std::time::Duration::from_micros(30));
        }
        let mut s = self.sh.lock();
        let n = s.release.unwrap_or(usize::MAX).min(s.pending.len());
        s.release = None;
        let mut out = vec![];
        for _ in 0..n {
            let Some((pid, _)) = s.pending.front().cloned() else { break };
            let Some(r) = self.buffered.remove(&pid) else { break };
            s.pending.pop_front();
            if r.is_err() {
                s.calls.push(Call::Surprise(format!("completion for {pid} is an error: {r:?}")));
            }
            out.push((pid, r));
        }
        if !out.is_empty() {
            let n = out.len();
            s.calls.push(Call::Completions { n });
        }
        out
    }

    fn close_resource(&mut self, resource_id: ResourceId) {
        self.settle(resource_id);
        {
            let mut s = self.sh.lock();
            let effective = s.open.remove(&resource_id);
            s.calls.push(Call::Close { rid: resource_id, effective });
        }
        self.inner.close_resource(resource_id);
    }

    fn set_type_ids(&mut self, resources: &[String], results: &[(String, ResultTupleInfo)]) {
        self.sh.lock().set_type_ids_calls += 1;
        self.inner.set_type_ids(resources, results);
    }
}
