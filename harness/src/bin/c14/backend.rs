//! An instrumenting, purely in-memory `EffectBackend` for `NativeEffect`.
//!
//! It mirrors `quiver_io::NativeEffectBackend` at the level of resource ids — ids come from a
//! counter starting at 1 and are never reused; an effect on an id that is not in the registry fails
//! at submission (`Err(InvalidArgument("Resource N not found"))`); read / write / flush / accept /
//! connect are *submitted* and complete through `process_completions` (accept / connect allocate
//! the new id when the completion is collected); `close_resource` removes from the registry and is
//! a no-op for an unknown id — and logs every call the environment makes.
//!
//! Whether "the outside world" lets an operation succeed is decided by the operation's own
//! arguments (so the harness can tell the model the same bit): see `world_ok`.
use quiver_core::effects::{EffectBackend, EffectError, EffectResult, ResultTupleInfo};
use quiver_core::process::ProcessId;
use quiver_core::value::{Binary, ResourceId, Value};
use quiver_io::NativeEffect;
use std::collections::{BTreeSet, HashMap, VecDeque};
use std::sync::{Arc, Mutex};

#[derive(Clone, Debug, PartialEq, Eq)]
pub enum Call {
    /// execute(pid, effect): kind name, resource id (0 for creating kinds), world bit
    Execute { pid: ProcessId, kind: &'static str, rid: ResourceId, w: bool },
    /// close_resource(id); `effective` = the id was open
    Close { rid: ResourceId, effective: bool },
    /// an explicit close effect removed an open id
    ExplicitClose { rid: ResourceId },
    /// process_completions() returned `n` completions
    Completions { n: usize },
}

#[derive(Clone, Debug)]
pub enum Pending {
    Plain { ok: bool, kind: &'static str, len: usize },
    Creating { ok: bool },
}

#[derive(Default)]
pub struct State {
    pub calls: Vec<Call>,
    pub open: BTreeSet<ResourceId>,
    pub kinds: HashMap<ResourceId, &'static str>,
    pub next: ResourceId,
    pub pending: VecDeque<(ProcessId, Pending)>,
    /// how many pending operations the next `process_completions` may return (None = all)
    pub release: Option<usize>,
    pub type_ids: HashMap<String, usize>,
    pub result_infos: HashMap<String, ResultTupleInfo>,
    pub set_type_ids_calls: usize,
}

#[derive(Clone)]
pub struct BShared(pub Arc<Mutex<State>>);

impl BShared {
    pub fn new() -> BShared {
        BShared(Arc::new(Mutex::new(State { next: 1, ..Default::default() })))
    }
    pub fn lock(&self) -> std::sync::MutexGuard<'_, State> {
        self.0.lock().unwrap()
    }
}

pub struct FakeBackend(pub BShared);

pub fn kind_of(e: &NativeEffect) -> &'static str {
    match e {
        NativeEffect::FileOpen { .. } => "fileOpen",
        NativeEffect::FileRead { .. } => "fileRead",
        NativeEffect::FileWrite { .. } => "fileWrite",
        NativeEffect::FileFlush { .. } => "fileFlush",
        NativeEffect::FileClose { .. } => "fileClose",
        NativeEffect::Stat { .. } => "stat",
        NativeEffect::ReadDirOpen { .. } => "readDirOpen",
        NativeEffect::ReadDirNext { .. } => "readDirNext",
        NativeEffect::ReadDirClose { .. } => "readDirClose",
        NativeEffect::DnsResolve { .. } => "dnsResolve",
        NativeEffect::DnsNext { .. } => "dnsNext",
        NativeEffect::DnsClose { .. } => "dnsClose",
        NativeEffect::TcpConnect { .. } => "tcpConnect",
        NativeEffect::TcpListen { .. } => "tcpListen",
        NativeEffect::TcpListenerAccept { .. } => "tcpListenerAccept",
        NativeEffect::TcpListenerClose { .. } => "tcpListenerClose",
        NativeEffect::TcpSocketRead { .. } => "tcpSocketRead",
        NativeEffect::TcpSocketWrite { .. } => "tcpSocketWrite",
        NativeEffect::TcpSocketClose { .. } => "tcpSocketClose",
    }
}

/// The id an effect names — computed HERE from the variant, independently of
/// `Effect::resource_id()` (which is part of the code under test).
pub fn named_rid(e: &NativeEffect) -> Option<ResourceId> {
    match e {
        NativeEffect::FileOpen { .. }
        | NativeEffect::Stat { .. }
        | NativeEffect::ReadDirOpen { .. }
        | NativeEffect::DnsResolve { .. }
        | NativeEffect::TcpConnect { .. }
        | NativeEffect::TcpListen { .. } => None,
        NativeEffect::FileRead { resource_id, .. }
        | NativeEffect::FileWrite { resource_id, .. }
        | NativeEffect::FileFlush { resource_id }
        | NativeEffect::FileClose { resource_id }
        | NativeEffect::ReadDirNext { resource_id }
        | NativeEffect::ReadDirClose { resource_id }
        | NativeEffect::DnsNext { resource_id }
        | NativeEffect::DnsClose { resource_id }
        | NativeEffect::TcpListenerAccept { resource_id }
        | NativeEffect::TcpListenerClose { resource_id }
        | NativeEffect::TcpSocketRead { resource_id, .. }
        | NativeEffect::TcpSocketWrite { resource_id, .. }
        | NativeEffect::TcpSocketClose { resource_id } => Some(*resource_id),
    }
}

/// Does the outside world let this operation succeed? A pure function of the request.
pub fn world_ok(e: &NativeEffect) -> bool {
    match e {
        NativeEffect::FileOpen { path, .. }
        | NativeEffect::ReadDirOpen { path }
        | NativeEffect::Stat { path } => !path.starts_with(b"/fail"),
        NativeEffect::DnsResolve { hostname } => !hostname.starts_with(b"fail"),
        NativeEffect::TcpConnect { port, .. } => *port != 13,
        NativeEffect::TcpListen { port, .. } => *port != 13,
        NativeEffect::FileRead { length, .. } | NativeEffect::TcpSocketRead { length, .. } => *length != 13,
        NativeEffect::FileWrite { data, .. } | NativeEffect::TcpSocketWrite { data, .. } => data.len() != 13,
        _ => true,
    }
}

fn not_found(rid: ResourceId) -> quiver_core::error::Error {
    quiver_core::error::Error::InvalidArgument(format!("Resource {} not found", rid))
}

impl State {
    fn alloc(&mut self, type_name: &'static str) -> Value {
        let rid = self.next;
        self.next += 1;
        self.open.insert(rid);
        self.kinds.insert(rid, type_name);
        Value::Resource(rid, *self.type_ids.get(type_name).unwrap_or(&0))
    }
}

impl EffectBackend for FakeBackend {
    type E = NativeEffect;

    fn execute(&mut self, pid: ProcessId, effect: NativeEffect) -> Result<Option<EffectResult>, quiver_core::error::Error> {
        let mut s = self.0.lock();
        let kind = kind_of(&effect);
        let w = world_ok(&effect);
        let rid = named_rid(&effect);
        s.calls.push(Call::Execute { pid, kind, rid: rid.unwrap_or(0), w });
        let refuse = || Err(quiver_core::error::Error::InvalidArgument(format!("world refuses {kind}")));
        match &effect {
            NativeEffect::FileOpen { .. } => if w { Ok(Some(Ok((s.alloc("File"), vec![])))) } else { refuse() },
            NativeEffect::ReadDirOpen { .. } => if w { Ok(Some(Ok((s.alloc("Dir"), vec![])))) } else { refuse() },
            NativeEffect::DnsResolve { .. } => if w { Ok(Some(Ok((s.alloc("DnsResolver"), vec![])))) } else { refuse() },
            NativeEffect::TcpListen { .. } => if w { Ok(Some(Ok((s.alloc("TcpListener"), vec![])))) } else { refuse() },
            NativeEffect::TcpConnect { .. } => {
                s.pending.push_back((pid, Pending::Creating { ok: w }));
                Ok(None)
            }
            NativeEffect::Stat { .. } => {
                if !w {
                    return refuse();
                }
                // `[kind, size, modified, mode]` stamped like the native backend does
                match s.result_infos.get("filesystem_stat").and_then(|i| i.variants.get("File").map(|k| (i.tuple_id, *k))) {
                    Some((tid, kid)) => Ok(Some(Ok((
                        Value::tuple(tid, vec![Value::tuple(kid, vec![]), Value::Integer(5.into()), Value::Integer(0.into()), Value::Integer(420.into())]),
                        vec![],
                    )))),
                    None => Ok(Some(Ok((Value::nil(), vec![])))),
                }
            }
            NativeEffect::ReadDirNext { resource_id } => {
                if !s.open.contains(resource_id) {
                    return Err(not_found(*resource_id));
                }
                match s.result_infos.get("directory_next").and_then(|i| i.variants.get("File").map(|k| (i.tuple_id, *k))) {
                    Some((tid, kid)) => Ok(Some(Ok((
                        Value::tuple(tid, vec![Value::Binary(Binary::Heap(0)), Value::tuple(kid, vec![])]),
                        vec![b"entry".to_vec()],
                    )))),
                    None => Ok(Some(Ok((Value::nil(), vec![])))),
                }
            }
            NativeEffect::DnsNext { resource_id } => {
                if !s.open.contains(resource_id) {
                    return Err(not_found(*resource_id));
                }
                Ok(Some(Ok((Value::Binary(Binary::Heap(0)), vec![vec![127, 0, 0, 1]]))))
            }
            NativeEffect::FileRead { resource_id, length, .. } | NativeEffect::TcpSocketRead { resource_id, length } => {
                if !s.open.contains(resource_id) {
                    return Err(not_found(*resource_id));
                }
                s.pending.push_back((pid, Pending::Plain { ok: w, kind: "read", len: *length }));
                Ok(None)
            }
            NativeEffect::FileWrite { resource_id, data, .. } | NativeEffect::TcpSocketWrite { resource_id, data } => {
                if !s.open.contains(resource_id) {
                    return Err(not_found(*resource_id));
                }
                s.pending.push_back((pid, Pending::Plain { ok: w, kind: "write", len: data.len() }));
                Ok(None)
            }
            NativeEffect::FileFlush { resource_id } => {
                if !s.open.contains(resource_id) {
                    return Err(not_found(*resource_id));
                }
                s.pending.push_back((pid, Pending::Plain { ok: w, kind: "flush", len: 0 }));
                Ok(None)
            }
            NativeEffect::TcpListenerAccept { resource_id } => {
                if !s.open.contains(resource_id) {
                    return Err(not_found(*resource_id));
                }
                s.pending.push_back((pid, Pending::Creating { ok: w }));
                Ok(None)
            }
            NativeEffect::FileClose { resource_id }
            | NativeEffect::ReadDirClose { resource_id }
            | NativeEffect::DnsClose { resource_id }
            | NativeEffect::TcpSocketClose { resource_id }
            | NativeEffect::TcpListenerClose { resource_id } => {
                if !s.open.remove(resource_id) {
                    return Err(not_found(*resource_id));
                }
                s.calls.push(Call::ExplicitClose { rid: *resource_id });
                Ok(Some(Ok((Value::ok(), vec![]))))
            }
        }
    }

    fn process_completions(&mut self) -> Vec<(ProcessId, EffectResult)> {
        let mut s = self.0.lock();
        let n = s.release.unwrap_or(usize::MAX).min(s.pending.len());
        s.release = None;
        let mut out = vec![];
        for _ in 0..n {
            let (pid, p) = s.pending.pop_front().unwrap();
            let r: EffectResult = match p {
                Pending::Plain { ok: false, .. } | Pending::Creating { ok: false } => Err(EffectError::IO("world refuses".into())),
                Pending::Plain { kind: "read", len, .. } => Ok((Value::Binary(Binary::Heap(0)), vec![vec![b'x'; len.min(8)]])),
                Pending::Plain { kind: "write", len, .. } => Ok((Value::Integer((len as i64).into()), vec![])),
                Pending::Plain { .. } => Ok((Value::ok(), vec![])),
                Pending::Creating { .. } => Ok((s.alloc("TcpSocket"), vec![])),
            };
            out.push((pid, r));
        }
        if n > 0 {
            s.calls.push(Call::Completions { n });
        }
        out
    }

    fn close_resource(&mut self, resource_id: ResourceId) {
        let mut s = self.0.lock();
        let effective = s.open.remove(&resource_id);
        s.calls.push(Call::Close { rid: resource_id, effective });
    }

    fn set_type_ids(&mut self, resources: &[String], results: &[(String, ResultTupleInfo)]) {
        let mut s = self.0.lock();
        s.set_type_ids_calls += 1;
        s.type_ids.clear();
        for (i, n) in resources.iter().enumerate() {
            s.type_ids.insert(n.clone(), i);
        }
        s.result_infos.clear();
        for (n, info) in results {
            s.result_infos.insert(n.clone(), info.clone());
        }
    }
}
