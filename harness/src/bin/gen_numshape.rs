//! gen_numshape — regenerates `lean/QuiverModel/Generated/NumShape.lean` from `<repo>/std/num.qv`,
//! parsed with the REAL parser (`quiver_compiler::parse`): the type aliases, every top-level
//! definition (name, parameter type, per top-level branch its leading pattern / whether it has a
//! consequence / the callees in source order, and a canonical skeleton of the whole body with
//! comments, layout and `~>`-vs-space differences removed), and the exported record's fields.
//! `Theorems/C20Shape.lean` states (by `decide`) that this table equals `QM.Num.modelShape`, the
//! table the hand-written model `Core/Num.lean` was written against. Any change of num.qv other
//! than comments / layout makes that theorem fail — harmless rewrites included, by intent.
use quiver_compiler::ast::*;
use std::collections::BTreeSet;

fn lit(l: &Literal) -> String {
    match l {
        Literal::Integer(i) => i.to_string(),
        Literal::Binary(b) => format!("0x{}", qverif::hex(b)),
    }
}

fn ty(t: &Type) -> String {
    match t {
        Type::Primitive(PrimitiveType::Int) => "'int".into(),
        Type::Primitive(PrimitiveType::Bin) => "'bin".into(),
        Type::Primitive(PrimitiveType::Ref) => "'ref".into(),
        Type::Tuple(tt) => {
            let fs: Vec<String> = tt
                .fields
                .iter()
                .map(|f| match f {
                    FieldType::Field { name: Some(n), type_def } => format!("{n}: {}", ty(type_def)),
                    FieldType::Field { name: None, type_def } => ty(type_def),
                    FieldType::Spread { identifier, type_arguments } => format!(
                        "...{}{}",
                        identifier.clone().unwrap_or_default(),
                        if type_arguments.is_empty() { String::new() } else { format!("<{}>", type_arguments.iter().map(ty).collect::<Vec<_>>().join(", ")) }
                    ),
                })
                .collect();
            let (o, c) = if tt.is_partial { ("(", ")") } else { ("[", "]") };
            format!("{}{o}{}{c}", tt.name.clone().unwrap_or_default(), fs.join(", "))
        }
        Type::Function(f) => format!("#{} -> {}", ty(&f.input), ty(&f.output)),
        Type::Union(u) => format!("({})", u.types.iter().map(ty).collect::<Vec<_>>().join(" | ")),
        Type::Intersection(ts) => format!("({})", ts.iter().map(ty).collect::<Vec<_>>().join(" & ")),
        Type::Identifier { name, arguments } => {
            if arguments.is_empty() { format!("'{name}") } else { format!("'{name}<{}>", arguments.iter().map(ty).collect::<Vec<_>>().join(", ")) }
        }
        Type::Cycle(d) => format!("^{}", d.map(|x| x.to_string()).unwrap_or_default()),
        Type::Process(p) => format!(
            "@({};{})",
            p.receive_type.as_ref().map(|t| ty(t)).unwrap_or_default(),
            p.return_type.as_ref().map(|t| ty(t)).unwrap_or_default()
        ),
        Type::Resource(n) => format!("resource:{n}"),
        Type::ModuleType { module, member, arguments } => format!(
            "'%{}{}{}",
            module.join("/"),
            member.as_ref().map(|m| format!(".{m}")).unwrap_or_default(),
            if arguments.is_empty() { String::new() } else { format!("<{}>", arguments.iter().map(ty).collect::<Vec<_>>().join(", ")) }
        ),
        Type::SelfDefault { arguments } => {
            if arguments.is_empty() { "'".into() } else { format!("'<{}>", arguments.iter().map(ty).collect::<Vec<_>>().join(", ")) }
        }
    }
}

fn pat(m: &Match) -> String {
    match m {
        Match::Identifier(n, _) => n.clone(),
        Match::Literal(l) => lit(l),
        Match::String(..) => "=str".into(),
        Match::Tuple(t) => format!(
            "{}[{}]",
            t.name.clone().unwrap_or_default(),
            t.fields.iter().map(|f| match &f.name { Some(n) => format!("{n}: {}", pat(&f.pattern)), None => pat(&f.pattern) }).collect::<Vec<_>>().join(", ")
        ),
        Match::Partial(p) => format!(
            "{}({})",
            p.name.clone().unwrap_or_default(),
            p.fields.iter().map(|f| match &f.pattern { Some(q) => format!("{}: {}", f.name, pat(q)), None => f.name.clone() }).collect::<Vec<_>>().join(", ")
        ),
        Match::Star(n) => format!("{}*", n.clone().unwrap_or_default()),
        Match::Placeholder => "_".into(),
        Match::Reference(n, _) => format!("&{n}"),
        Match::Type(t) => ty(t),
        Match::Or(ms) => format!("({})", ms.iter().map(pat).collect::<Vec<_>>().join(" | ")),
        Match::As(t, n, _) => format!("({}){n}", ty(t)),
    }
}

struct Cx<'a> {
    defs: &'a BTreeSet<String>,
    calls: Vec<String>,
}

fn access(a: &Access, cx: &mut Cx) -> String {
    let mut s = match &a.source {
        None => String::new(),
        Some(AccessSource::Identifier(n)) => {
            if cx.defs.contains(n) {
                cx.calls.push(n.clone());
            }
            n.clone()
        }
        Some(AccessSource::Parameter) => "$".into(),
        Some(AccessSource::Ripple) => "~".into(),
        Some(AccessSource::Import(p)) => format!("%{}", p.join("/")),
        Some(AccessSource::Self_) => ".".into(),
        Some(AccessSource::Builtin(n)) => {
            cx.calls.push(format!("__{n}__"));
            format!("__{n}__")
        }
        Some(AccessSource::TailCall(t)) => {
            let s = format!("^{}", t.clone().unwrap_or_default());
            cx.calls.push(s.clone());
            s
        }
        Some(AccessSource::TailCallRipple) => "^~".into(),
    };
    for p in &a.accessors {
        match p {
            AccessPath::Field(f) => s.push_str(&format!(".{f}")),
            AccessPath::Index(i) => s.push_str(&format!(".{i}")),
        }
    }
    s
}

fn term(t: &Term, cx: &mut Cx) -> String {
    match t {
        Term::Literal(l) => lit(l),
        Term::Tuple(tp) => {
            let name = match &tp.name {
                TupleName::Anonymous => String::new(),
                TupleName::Named(n) => n.clone(),
                TupleName::Inherit => "~".into(),
            };
            let fs: Vec<String> = tp
                .fields
                .iter()
                .map(|f| {
                    let v = match &f.value {
                        FieldValue::Chain(c) => chain(c, cx),
                        FieldValue::Spread(n) => format!("...{}", n.clone().unwrap_or_default()),
                    };
                    match &f.name {
                        Some(n) => format!("{n}: {v}"),
                        None => v,
                    }
                })
                .collect();
            format!("{name}[{}]", fs.join(", "))
        }
        Term::String(..) => "str".into(),
        Term::Match(m) => format!("={}", pat(m)),
        Term::Block(e) => format!("{{ {} }}", expr(e, cx)),
        Term::Function(f) => function(f, cx),
        Term::Access(a) => access(a, cx),
        Term::Spawn(inner, _) => format!("@{}", term(inner, cx)),
        Term::Self_ => ".".into(),
        Term::Select(src, _) => match src {
            None => "!".into(),
            Some(cs) => format!("![{}]", cs.iter().map(|c| chain(c, cx)).collect::<Vec<_>>().join(", ")),
        },
        Term::Process(p) => format!("process{p}"),
        Term::Reference(a) => {
            // a reference does not call
            let mut quiet = Cx { defs: cx.defs, calls: vec![] };
            format!("&{}", access(a, &mut quiet))
        }
    }
}

fn chain(c: &Chain, cx: &mut Cx) -> String {
    let body = c.terms.iter().map(|t| term(t, cx)).collect::<Vec<_>>().join(" ");
    match &c.match_pattern {
        Some(m) => format!("{} = {body}", pat(m)),
        None => body,
    }
}

fn seq(s: &Sequence, cx: &mut Cx) -> String {
    s.chains.iter().map(|c| chain(c, cx)).collect::<Vec<_>>().join(", ")
}

fn branch(b: &Branch, cx: &mut Cx) -> String {
    match &b.consequence {
        Some(c) => format!("{} => {}", seq(&b.condition, cx), seq(c, cx)),
        None => seq(&b.condition, cx),
    }
}

fn expr(e: &Expression, cx: &mut Cx) -> String {
    e.branches.iter().map(|b| branch(b, cx)).collect::<Vec<_>>().join(" | ")
}

fn function(f: &Function, cx: &mut Cx) -> String {
    format!(
        "#{}{}{} {{ {} }}",
        if f.type_parameters.is_empty() { String::new() } else { format!("<{}>", f.type_parameters.join(", ")) },
        f.parameter_type.as_ref().map(ty).unwrap_or_default(),
        f.return_type.as_ref().map(|t| format!(" -> {}", ty(t))).unwrap_or_default(),
        f.body.as_ref().map(|b| expr(b, cx)).unwrap_or_default()
    )
}

fn q(s: &str) -> String {
    format!("\"{}\"", s.replace('\\', "\\\\").replace('"', "\\\""))
}

/// Lean text of a `DefShape`
fn def_shape(name: &str, t: &Term, defs: &BTreeSet<String>) -> String {
    match t {
        Term::Function(f) => {
            let mut branches = vec![];
            let mut binds = String::new();
            if let Some(body) = &f.body {
                // a body of the form `step, step, { | b1 | b2 … }` dispatches in its final block:
                // report that block's branches, and the leading steps as `binds`
                let mut blist: &Vec<Branch> = &body.branches;
                if let [only] = body.branches.as_slice() {
                    if only.consequence.is_none() {
                        if let Some((last, init)) = only.condition.chains.split_last() {
                            if let (None, [Term::Block(e)]) = (&last.match_pattern, last.terms.as_slice()) {
                                let mut cx = Cx { defs, calls: vec![] };
                                binds = init.iter().map(|c| chain(c, &mut cx)).collect::<Vec<_>>().join(", ");
                                blist = &e.branches;
                            }
                        }
                    }
                }
                for b in blist {
                    let mut cx = Cx { defs, calls: vec![] };
                    let _ = branch(b, &mut cx);
                    let leading = match b.condition.chains.first().and_then(|c| c.terms.first()) {
                        Some(Term::Match(m)) => pat(m),
                        _ => String::new(),
                    };
                    branches.push(format!(
                        "      {{ pattern := {}, consequence := {}, calls := [{}] }}",
                        q(&leading),
                        b.consequence.is_some(),
                        cx.calls.iter().map(|c| q(c)).collect::<Vec<_>>().join(", ")
                    ));
                }
            }
            let mut cx = Cx { defs, calls: vec![] };
            let skeleton = function(f, &mut cx);
            format!(
                "  {{ name := {}, param := {}, binds := {},\n    branches := [\n{}],\n    skeleton := {} }}",
                q(name),
                q(&f.parameter_type.as_ref().map(ty).unwrap_or_default()),
                q(&binds),
                branches.join(",\n"),
                q(&skeleton)
            )
        }
        other => {
            let mut cx = Cx { defs, calls: vec![] };
            let skeleton = term(other, &mut cx);
            format!("  {{ name := {}, param := \"\", binds := \"\", branches := [], skeleton := {} }}", q(name), q(&skeleton))
        }
    }
}

fn main() {
    let repo = qverif::repo();
    let path_src = format!("{repo}/std/num.qv");
    let src = std::fs::read_to_string(&path_src).expect("read std/num.qv");
    let program = match quiver_compiler::parse(&src) {
        Ok(p) => p,
        Err(e) => {
            eprintln!("gen_numshape: std/num.qv does not parse: {e:?}");
            std::process::exit(2);
        }
    };
    // flatten: type aliases, and the chains of every expression statement in order
    let mut aliases = vec![];
    let mut chains: Vec<&Chain> = vec![];
    for st in &program.statements {
        match st {
            Statement::TypeAlias { name, type_parameters, type_definition, .. } => {
                let n = format!(
                    "'{}{}",
                    name.clone().unwrap_or_default(),
                    if type_parameters.is_empty() { String::new() } else { format!("<{}>", type_parameters.join(", ")) }
                );
                aliases.push(format!("  ({}, {})", q(&n), q(&ty(type_definition))));
            }
            Statement::Expression(s) => chains.extend(s.chains.iter()),
        }
    }
    let mut defs_names = BTreeSet::new();
    for c in &chains {
        if let Some(Match::Identifier(n, _)) = &c.match_pattern {
            defs_names.insert(n.clone());
        }
    }
    let mut defs = vec![];
    let mut exports = vec![];
    let mut other = vec![];
    for c in &chains {
        match (&c.match_pattern, c.terms.as_slice()) {
            (Some(Match::Identifier(n, _)), [t]) => defs.push(def_shape(n, t, &defs_names)),
            (None, [Term::Tuple(tp)]) if exports.is_empty() => {
                for f in &tp.fields {
                    let name = f.name.clone().unwrap_or_default();
                    match &f.value {
                        FieldValue::Chain(fc) if fc.terms.len() == 1 && fc.match_pattern.is_none() => {
                            exports.push(def_shape(&name, &fc.terms[0], &defs_names))
                        }
                        FieldValue::Chain(fc) => {
                            let mut cx = Cx { defs: &defs_names, calls: vec![] };
                            let sk = chain(fc, &mut cx);
                            exports.push(format!("  {{ name := {}, param := \"\", binds := \"\", branches := [], skeleton := {} }}", q(&name), q(&sk)));
                        }
                        FieldValue::Spread(n) => exports.push(format!(
                            "  {{ name := {}, param := \"\", binds := \"\", branches := [], skeleton := {} }}",
                            q(&name),
                            q(&format!("...{}", n.clone().unwrap_or_default()))
                        )),
                    }
                }
            }
            _ => {
                let mut cx = Cx { defs: &defs_names, calls: vec![] };
                other.push(format!("  {}", q(&chain(c, &mut cx))));
            }
        }
    }
    let mut out = String::new();
    out.push_str("import QuiverModel.Core.NumShape\n");
    out.push_str("/-\nGENERATED by harness/src/bin/gen_numshape.rs from std/num.qv (parsed with quiver_compiler::parse) — do not edit.\n-/\n");
    out.push_str("namespace QM.Generated\nopen QM.Num\n\n");
    out.push_str("def numShape : ModuleShape where\n");
    out.push_str(&format!("  aliases := [\n{}]\n", aliases.join(",\n")));
    out.push_str(&format!("  defs := [\n{}]\n", defs.join(",\n")));
    out.push_str(&format!("  exports := [\n{}]\n", exports.join(",\n")));
    out.push_str(&format!("  other := [\n{}]\n", other.join(",\n")));
    out.push_str("\nend QM.Generated\n");
    let path = format!("{}/QuiverModel/Generated/NumShape.lean", qverif::lean_dir());
    if std::fs::read_to_string(&path).ok().as_deref() != Some(out.as_str()) {
        std::fs::create_dir_all(std::path::Path::new(&path).parent().unwrap()).unwrap();
        std::fs::write(&path, out).expect("write NumShape.lean");
        println!("gen_numshape: wrote {path} ({} definitions, {} exports)", defs.len(), exports.len());
    } else {
        println!("gen_numshape: {path} up to date ({} definitions, {} exports)", defs.len(), exports.len());
    }
}
