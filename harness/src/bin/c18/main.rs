//! C18 — the front end is total: any text yields a program or a located error.
//!
//! Robustness search on the implementation (`quiver_compiler::parse`, then `Compiler::compile` on
//! what the parser accepts) over arbitrary Unicode text, prefixes and single-token edits of corpus
//! programs, grammar-generated near-valid programs and bracket nesting up to depth 100. The cases
//! run in a child process (this binary with `--child`), one line of protocol per case, so that a
//! hang (no answer within the per-case limit) or a crash (stack overflow, abort) is observed by the
//! parent, reported, and the search resumes after the offending case.
//! String literals, error spans and `detect_error_kind` are compared with the Lean model `qm_c18`.
mod inputs;
mod typeport;
#[path = "../c17/astutil.rs"]
#[allow(dead_code)]
mod astutil;
#[path = "../c17/srcgen.rs"]
#[allow(dead_code)]
mod srcgen;
#[path = "../c17/strings.rs"]
#[allow(dead_code)]
mod strings;

use qverif::{Ev, Model, Opts, Rng, catch};
use serde_json::json;
use std::collections::HashMap;
use std::io::{BufRead, BufReader, Write};
use std::process::{Command, Stdio};
use std::sync::Mutex;
use std::sync::mpsc;
use std::time::Duration;

static LAST_PANIC_AT: Mutex<String> = Mutex::new(String::new());

/// Cases of the deep-parenthesis stream per run (each costs the per-case time limit while finding
/// C18-F1 is open).
const DEEP_PAREN_CASES: usize = 2;

fn install_hook() {
    std::panic::set_hook(Box::new(|info| {
        let at = info.location().map(|l| format!("{}:{}", l.file().rsplit('/').next().unwrap_or(""), l.line())).unwrap_or_default();
        *LAST_PANIC_AT.lock().unwrap() = at;
    }));
}

fn corpus() -> Vec<String> {
    let mut v: Vec<String> = srcgen::corpus_all().into_iter().map(|(_, s)| s).filter(|s| s.len() < 4000).collect();
    // regression inputs of this property
    if let Ok(d) = std::fs::read_dir("/verif/corpus/C18") {
        let mut files: Vec<_> = d.filter_map(|e| e.ok()).map(|e| e.path()).collect();
        files.sort();
        for f in files {
            if let Ok(t) = std::fs::read_to_string(&f) {
                v.push(t);
            }
        }
    }
    v
}

/// Regression inputs (run first, as cases 0..k).
fn regression() -> Vec<String> {
    let mut v = vec![];
    if let Ok(d) = std::fs::read_dir("/verif/corpus/C18") {
        let mut files: Vec<_> = d.filter_map(|e| e.ok()).map(|e| e.path()).collect();
        files.sort();
        for f in files {
            if let Ok(t) = std::fs::read_to_string(&f) {
                v.push(t);
            }
        }
    }
    v
}

/// Case `i` of the run: (stream name, source). Deterministic in (seed, i).
fn gen_case(seed: u64, i: u64, corpus: &[String], regr: &[String]) -> (String, String) {
    if (i as usize) < regr.len() {
        return ("regression".into(), regr[i as usize].clone());
    }
    let mut r = Rng::for_case(seed ^ 0xC18, i);
    if (i as usize) < regr.len() + DEEP_PAREN_CASES {
        return ("deep-parens".into(), inputs::deep_parens(&mut r));
    }
    let base = &corpus[r.usize(corpus.len())];
    match r.below(27) {
        25 | 26 => {
            let (s, how) = inputs::dispatch_program(&mut r);
            (format!("dispatch-{how}"), s)
        }
        21..=24 => {
            let (s, how) = if r.chance(1, 4) { inputs::generic_calls(&mut r) } else { inputs::typed_program(&mut r) };
            (format!("types-{how}"), s)
        }
        20 => {
            let (s, how) = inputs::numeric(&mut r, base);
            (format!("number-{how}"), s)
        }
        0..=2 => ("arbitrary".into(), inputs::arbitrary(&mut r)),
        3..=6 => ("prefix".into(), inputs::prefix(&mut r, base)),
        7..=12 => {
            let (s, how) = inputs::token_edit(&mut r, base);
            (format!("token-{how}"), s)
        }
        13..=16 => {
            let (s, how) = inputs::near_valid(&mut r);
            (format!("grammar-{how}"), s)
        }
        17 => {
            if r.chance(1, 2) {
                ("corpus-crlf".into(), srcgen::to_crlf(base))
            } else {
                let (s, how) = inputs::numeric(&mut r, base);
                (format!("number-{how}"), s)
            }
        }
        18 if r.chance(1, 3) => ("deep-type-parens".into(), inputs::deep_type_parens(&mut r)),
        _ => {
            let (s, d) = inputs::nesting(&mut r, 5);
            (format!("nesting-{}", if d >= 90 { "90-100" } else if d >= 50 { "50-89" } else { "1-49" }), s)
        }
    }
}

/// The source with the type parameters of every generic function (`#<'a, 'b>[…] { … }`, up to the
/// first `}` after its head) renamed to names of their own (`'a_own0`, `'a_own1`, …).
fn rename_first_generic(src: &str) -> Option<String> {
    let mut out = String::new();
    let mut rest = src;
    let mut k = 0;
    while let Some(start) = rest.find("#<'") {
        let close = start + rest[start..].find('>')?;
        let names: Vec<String> = rest[start + 2..close].split(',').map(|n| n.trim().trim_start_matches('\'').to_string()).collect();
        if names.is_empty() || names.iter().any(|n| n.is_empty() || !n.chars().all(|c| c.is_ascii_alphanumeric() || c == '_')) {
            return None;
        }
        let end = start + rest[start..].find('}').map(|e| e + 1)?;
        let mut body = rest[start..end].to_string();
        for n in &names {
            let mut renamed = String::new();
            let pat = format!("'{n}");
            let mut r = body.as_str();
            while let Some(p) = r.find(&pat) {
                let after = &r[p + pat.len()..];
                renamed.push_str(&r[..p]);
                if after.chars().next().is_some_and(|c| c.is_ascii_alphanumeric() || c == '_') {
                    renamed.push_str(&pat);
                } else {
                    renamed.push_str(&format!("'{n}_own{k}"));
                }
                r = after;
            }
            renamed.push_str(r);
            body = renamed;
        }
        out.push_str(&rest[..start]);
        out.push_str(&body);
        rest = &rest[end..];
        k += 1;
    }
    if k == 0 {
        return None;
    }
    out.push_str(rest);
    Some(out)
}

/// One case, in-process: the outcome line (without the case number).
fn run_case(src: &str, b: &qverif::run::Builtins) -> String {
    LAST_PANIC_AT.lock().unwrap().clear();
    let parsed = catch(|| quiver_compiler::parse(src));
    match parsed {
        Err(p) => format!("V parse-panic at={} msg={}", LAST_PANIC_AT.lock().unwrap(), p.lines().next().unwrap_or("").replace(' ', "_")),
        Ok(Err(e)) => {
            let kind = format!("{:?}", e.kind);
            let kind = kind.split(['(', ' ', '{']).next().unwrap_or("").to_string();
            match e.span {
                None => format!("V error-without-position kind={kind}"),
                Some(s) => {
                    if s.offset + s.length > src.len() || s.offset > src.len() {
                        format!("V span-out-of-bounds kind={kind} offset={} length={} len={}", s.offset, s.length, src.len())
                    } else if !src.is_char_boundary(s.offset) || !src.is_char_boundary(s.offset + s.length) {
                        format!("V span-not-on-char-boundary kind={kind} offset={} length={}", s.offset, s.length)
                    } else {
                        format!("E {} {} {} {} {kind}", s.offset, s.line, s.column, s.length)
                    }
                }
            }
        }
        Ok(Ok(_)) => {
            let modules: HashMap<Vec<String>, String> = HashMap::new();
            match qverif::run::compile_source(src, &modules, b) {
                Ok(_) => "C ok".into(),
                Err(qverif::run::FrontError::Compile(_)) => "C compile-error".into(),
                Err(qverif::run::FrontError::Parse(_)) => "C parse-error-second-time".into(),
                Err(qverif::run::FrontError::Panic(p)) => {
                    format!("V compile-panic at={} msg={}", LAST_PANIC_AT.lock().unwrap(), p.lines().next().unwrap_or("").replace(' ', "_"))
                }
            }
        }
    }
}

fn child(opts: &Opts) {
    install_hook();
    let arg = |name: &str| -> Option<String> {
        opts.extra.iter().position(|x| x == name).and_then(|i| opts.extra.get(i + 1).cloned())
    };
    let b = qverif::run::builtins();
    let out = std::io::stdout();
    if let Some(n) = arg("--types-debug") {
        let mut hist: std::collections::BTreeMap<String, (u32, String)> = Default::default();
        for i in 0..n.parse::<u64>().unwrap() {
            let mut r = Rng::for_case(opts.seed ^ 0x77, i);
            let (src, how) = inputs::typed_program(&mut r);
            if how != "as-generated" {
                continue;
            }
            let modules: HashMap<Vec<String>, String> = HashMap::new();
            let out = match qverif::run::compile_source(&src, &modules, &b) {
                Ok(_) => "ok".to_string(),
                Err(e) => format!("{e:?}").chars().take(90).collect(),
            };
            let key: String = out.chars().take(60).collect();
            let e = hist.entry(key).or_insert((0, src.clone()));
            e.0 += 1;
        }
        let mut v: Vec<_> = hist.into_iter().collect();
        v.sort_by_key(|(_, (n, _))| std::cmp::Reverse(*n));
        for (k, (n, src)) in v.iter().take(25) {
            println!("{n:5} {k}\n      e.g. {}", src.replace('\n', " ⏎ "));
        }
        return;
    }
    if let Some(i) = arg("--show") {
        let corpus = corpus();
        let regr = regression();
        let (stream, src) = gen_case(opts.seed, i.parse().unwrap(), &corpus, &regr);
        println!("{stream}\n{src}");
        return;
    }
    if let Some(f) = arg("--probe-file") {
        let src = std::fs::read_to_string(f).unwrap();
        let r = run_case(&src, &b);
        let mut o = out.lock();
        writeln!(o, "R 0 {r}").unwrap();
        o.flush().unwrap();
        return;
    }
    let from: u64 = arg("--from").unwrap().parse().unwrap();
    let to: u64 = arg("--to").unwrap().parse().unwrap();
    let corpus = corpus();
    let regr = regression();
    for i in from..to {
        let (_, src) = gen_case(opts.seed, i, &corpus, &regr);
        {
            let mut o = out.lock();
            writeln!(o, "B {i}").unwrap();
            o.flush().unwrap();
        }
        let r = run_case(&src, &b);
        let mut o = out.lock();
        writeln!(o, "R {i} {r}").unwrap();
        o.flush().unwrap();
    }
    let mut o = out.lock();
    writeln!(o, "DONE").unwrap();
    o.flush().unwrap();
}

enum Probe {
    Line(String),
    Timeout,
    Crash(String),
}

/// Run one source in a fresh child with a time limit.
fn probe(src: &str, limit: Duration) -> Probe {
    let dir = format!("{}/tmp", qverif::evidence_dir());
    let _ = std::fs::create_dir_all(&dir);
    let path = format!("{dir}/c18-probe-{}.qv", std::process::id());
    std::fs::write(&path, src).unwrap();
    let exe = std::env::current_exe().unwrap();
    let mut ch = Command::new(exe)
        .args(["--child", "--probe-file", &path])
        .stdout(Stdio::piped())
        .stderr(Stdio::null())
        .spawn()
        .expect("spawn probe child");
    let stdout = ch.stdout.take().unwrap();
    let (tx, rx) = mpsc::channel();
    std::thread::spawn(move || {
        let mut rd = BufReader::new(stdout);
        let mut line = String::new();
        if rd.read_line(&mut line).unwrap_or(0) > 0 {
            let _ = tx.send(line.trim_end().to_string());
        }
    });
    let r = match rx.recv_timeout(limit) {
        Ok(l) => Probe::Line(l.splitn(3, ' ').nth(2).unwrap_or("").to_string()),
        Err(mpsc::RecvTimeoutError::Timeout) => {
            let _ = ch.kill();
            Probe::Timeout
        }
        Err(mpsc::RecvTimeoutError::Disconnected) => {
            let st = ch.wait().map(|s| format!("{s}")).unwrap_or_default();
            Probe::Crash(st)
        }
    };
    let _ = ch.kill();
    let _ = ch.wait();
    let _ = std::fs::remove_file(&path);
    r
}

/// ddmin over characters with an arbitrary predicate and an evaluation budget.
fn shrink(src: &str, pred: &mut dyn FnMut(&str) -> bool, mut budget: usize) -> String {
    let mut cur: Vec<char> = src.chars().collect();
    let mut chunk = (cur.len() / 2).max(1);
    while chunk >= 1 && budget > 0 {
        let mut i = 0;
        let mut improved = false;
        while i < cur.len() && budget > 0 {
            let cand: Vec<char> = cur.iter().enumerate().filter(|(k, _)| *k < i || *k >= i + chunk).map(|(_, c)| *c).collect();
            budget -= 1;
            let s: String = cand.iter().collect();
            if cand.len() < cur.len() && pred(&s) {
                cur = cand;
                improved = true;
            } else {
                i += chunk;
            }
        }
        if !improved {
            if chunk == 1 {
                break;
            }
            chunk /= 2;
        }
    }
    cur.iter().collect()
}

fn violation_signature(outcome: &str) -> String {
    // "V <kind> at=<file:line> msg=…" → kind + panic site; other kinds: kind only
    let mut it = outcome.split(' ');
    let _v = it.next();
    let kind = it.next().unwrap_or("");
    let at = outcome.split(' ').find(|t| t.starts_with("at=")).unwrap_or("");
    if at.is_empty() { format!("robust kind={kind}") } else { format!("robust kind={kind} {at}") }
}

fn main() {
    let opts = Opts::parse();
    if opts.has_flag("--child") {
        child(&opts);
        return;
    }
    install_hook();
    let mut ev = Ev::new("C18", &opts);
    ev.rule = "robustness: arbitrary Unicode text, character-boundary prefixes and single-token \
               deletions/duplications/substitutions/swaps of corpus programs (test suite, std, examples, \
               spec), grammar-generated programs with one injected error, bracket nesting 1..100 in term, \
               type and pattern position (closed, truncated, mirrored); non-trivial when the input is \
               non-empty; distinct by input text. string literals: generated single-/multi-line literals in \
               term and pattern position against the model's scan+decode"
        .into();
    let limit = Duration::from_secs(opts.tier.pick(5, 10));
    if let Some(p) = &opts.replay {
        let j: serde_json::Value = serde_json::from_str(&std::fs::read_to_string(p).unwrap()).unwrap();
        let src = j["replay"]["source"].as_str().unwrap_or("");
        println!("source: {src:?}");
        match probe(src, limit) {
            Probe::Line(l) => println!("outcome: {l}"),
            Probe::Timeout => println!("outcome: no answer within {limit:?}"),
            Probe::Crash(s) => println!("outcome: child crashed ({s})"),
        }
        std::process::exit(0);
    }
    let mut model = Model::spawn(opts.model.as_ref().expect("--model"));
    let b = qverif::run::builtins();

    // ---- robustness search in a child process ----------------------------------------------------
    let corpus = corpus();
    let regr = regression();
    ev.set_extra("corpus_sources", json!(corpus.len()));
    ev.set_extra("regression_sources", json!(regr.len()));
    let cases_override: Option<u64> = opts.extra.iter().position(|x| x == "--cases").and_then(|i| opts.extra.get(i + 1)).and_then(|x| x.parse().ok());
    let total: u64 = regr.len() as u64 + DEEP_PAREN_CASES as u64 + cases_override.unwrap_or(opts.tier.pick(14_000u64, 250_000u64));
    let verbose = opts.has_flag("--verbose");
    let t_start = std::time::Instant::now();
    let exe = std::env::current_exe().unwrap();
    let mut next: u64 = 0;
    let mut restarts = 0u64;
    while next < total {
        let mut ch = Command::new(&exe)
            .args(["--child", "--seed", &opts.seed.to_string(), "--tier", opts.tier.name(), "--from", &next.to_string(), "--to", &total.to_string()])
            .stdout(Stdio::piped())
            .stderr(Stdio::null())
            .spawn()
            .expect("spawn child");
        let stdout = ch.stdout.take().unwrap();
        let (tx, rx) = mpsc::channel::<String>();
        let reader = std::thread::spawn(move || {
            let rd = BufReader::new(stdout);
            for line in rd.lines() {
                let Ok(line) = line else { break };
                if tx.send(line).is_err() {
                    break;
                }
            }
        });
        let mut current: Option<u64> = None;
        let mut done = false;
        loop {
            match rx.recv_timeout(limit) {
                Ok(line) => {
                    if line == "DONE" {
                        done = true;
                        break;
                    }
                    let mut it = line.splitn(3, ' ');
                    let tag = it.next().unwrap_or("");
                    let i: u64 = it.next().and_then(|x| x.parse().ok()).unwrap_or(0);
                    let rest = it.next().unwrap_or("").to_string();
                    if tag == "B" {
                        current = Some(i);
                        continue;
                    }
                    // result of case i
                    current = None;
                    next = i + 1;
                    if verbose && i % 500 == 0 {
                        eprintln!("[{:.1}s] case {i}", t_start.elapsed().as_secs_f64());
                    }
                    let (stream, src) = gen_case(opts.seed, i, &corpus, &regr);
                    ev.case(&src, !src.is_empty());
                    ev.hit(&format!("robust:stream:{stream}"));
                    let tag2 = rest.split(' ').next().unwrap_or("");
                    if stream.starts_with("types-") || stream.starts_with("dispatch-") {
                        ev.hit(&format!("robust:types-stream:{}", match tag2 { "C" => rest.as_str(), "E" => "parse-error", _ => "violation" }));
                    }
                    match tag2 {
                        "C" => ev.hit(&format!("robust:outcome:parse-ok:{}", rest.split(' ').nth(1).unwrap_or(""))),
                        "E" => {
                            let f: Vec<&str> = rest.split(' ').collect();
                            let kind = f.get(5).copied().unwrap_or("");
                            ev.hit(&format!("robust:outcome:parse-error:{kind}"));
                            // span arithmetic and detect_error_kind against the model (sampled)
                            if src.len() < 3000 && (i % 3 == 0) {
                                let off: usize = f[1].parse().unwrap_or(0);
                                let want = model.ask(&format!("span {} {off}", strings::hx(&src)));
                                let w: Vec<&str> = want.split(' ').collect();
                                let line_col_ok = w.len() == 4 && w[1] == f[2] && w[2] == f[3];
                                let len_ok = kind == "HexMalformed" || (w.len() == 4 && w[3] == f[4]);
                                ev.hit("robust:span-vs-model");
                                if !(line_col_ok && len_ok) {
                                    ev.violation(
                                        "span kind=differs-from-model",
                                        &format!("error span of {src:?}: implementation (offset line column length) = {} {} {} {} but the model gives {want}", f[1], f[2], f[3], f[4]),
                                        json!({"broken": "correspondence model<->impl on SourceSpan::from_span", "source": src, "impl": rest, "model": want}),
                                        false,
                                    );
                                }
                                let detected = ["UnterminatedString", "UnterminatedTuple", "InvalidFunctionBody", "UnterminatedBlock", "MissingClosingParen", "ExpectedPipe", "UnexpectedEndOfInput"];
                                if detected.contains(&kind) {
                                    let want = model.ask(&format!("detect {}", strings::hx(&src)));
                                    ev.hit("robust:detect-vs-model");
                                    if want != kind {
                                        ev.violation(
                                            "detect kind=differs-from-model",
                                            &format!("detect_error_kind on {src:?}: implementation {kind}, model {want}"),
                                            json!({"broken": "correspondence model<->impl on detect_error_kind", "source": src, "impl": kind, "model": want}),
                                            false,
                                        );
                                    }
                                }
                            }
                        }
                        "V" => {
                            ev.hit(&format!("robust:violation:{}", rest.split(' ').nth(1).unwrap_or("")));
                            let sig = violation_signature(&rest);
                            // shrink in-process (panics are caught; bounds are pure checks)
                            let small = if ev.counters.get(&format!("robust:shrunk:{sig}")).is_some() {
                                src.clone()
                            } else {
                                ev.hit(&format!("robust:shrunk:{sig}"));
                                let mut pred = |s: &str| violation_signature(&run_case(s, &b)) == sig && run_case(s, &b).starts_with("V");
                                shrink(&src, &mut pred, 1500)
                            };
                            let out2 = run_case(&small, &b);
                            ev.violation(
                                &sig,
                                &format!("front end on {small:?} (stream {stream}): {out2}"),
                                json!({"source": small, "outcome": out2, "original_source": src, "stream": stream}),
                                true,
                            );
                        }
                        _ => {}
                    }
                    ev.sample_sparse(i, 40_000, || json!({"stream": stream, "source": src.chars().take(200).collect::<String>(), "outcome": rest}));
                }
                Err(mpsc::RecvTimeoutError::Timeout) => {
                    // hang
                    let _ = ch.kill();
                    let i = current.unwrap_or(next);
                    let (stream, src) = gen_case(opts.seed, i, &corpus, &regr);
                    if verbose {
                        eprintln!("[{:.1}s] TIMEOUT case {i} stream {stream}: {:?}", t_start.elapsed().as_secs_f64(), src.chars().take(120).collect::<String>());
                    }
                    ev.case(&src, true);
                    ev.hit(&format!("robust:stream:{stream}"));
                    ev.hit("robust:violation:timeout");
                    // cause: does the hang go away when the suspected construct is replaced by a
                    // plain bracket of the same depth?
                    let unparen: String = src.chars().map(|c| match c { '(' => '[', ')' => ']', c => c }).collect();
                    let unspawn = src.replace("@{", "{").replace("! [", "[");
                    // `(@t)` -> `(#t)`: a function type in the same place (parsed once per level)
                    let unprocess = src.replace("(@", "(#");
                    let fast = |s: &str| !matches!(probe(s, Duration::from_secs(3)), Probe::Timeout);
                    let cause = if unprocess != src && fast(&unprocess) {
                        "nested-process-type"
                    } else if unparen != src && fast(&unparen) {
                        // type position (repaired 33df1c7: must not happen again) or or-pattern
                        if src.contains('\'') {
                            "nested-parentheses-in-type"
                        } else {
                            "nested-parentheses-in-pattern"
                        }
                    } else if unspawn != src && fast(&unspawn) {
                        "unclosed-spawn-or-select-nest"
                    } else {
                        "unexplained"
                    };
                    let sig = format!("robust kind=timeout cause={cause}");
                    if verbose {
                        eprintln!("[{:.1}s] classified {sig}", t_start.elapsed().as_secs_f64());
                    }
                    // an explained hang on a generated nest needs no shrinking; otherwise a few probes
                    let small = if cause != "unexplained" {
                        src.clone()
                    } else {
                        let mut pred = |s: &str| matches!(probe(s, Duration::from_secs(2)), Probe::Timeout);
                        shrink(&src, &mut pred, 10)
                    };
                    let parens = small.chars().filter(|c| *c == '(').count();
                    ev.violation(
                        &sig,
                        &format!("front end does not answer within {limit:?} on an input of {} chars with {parens} opening parentheses (stream {stream}): {:?}", small.chars().count(), small.chars().take(160).collect::<String>()),
                        json!({"source": small, "original_source": src, "stream": stream}),
                        true,
                    );
                    next = i + 1;
                    current = None;
                    break;
                }
                Err(mpsc::RecvTimeoutError::Disconnected) => break,
            }
        }
        let status = ch.wait().map(|s| format!("{s}")).unwrap_or_default();
        if verbose {
            eprintln!("[{:.1}s] child ended: {status}", t_start.elapsed().as_secs_f64());
        }
        let _ = reader.join();
        if verbose {
            eprintln!("[{:.1}s] reader joined", t_start.elapsed().as_secs_f64());
        }
        if done {
            break;
        }
        if let Some(i) = current {
            // the child died while working on case i: crash (stack overflow / abort)
            let (stream, src) = gen_case(opts.seed, i, &corpus, &regr);
            ev.hit("robust:violation:crash");
            let crashes = ev.counters.get("robust:violation:crash").copied().unwrap_or(0)
                - ev.counters.get("robust:known-crash").copied().unwrap_or(0);
            let small = if crashes > 1 {
                src.clone()
            } else {
                let mut pred = |s: &str| matches!(probe(s, Duration::from_secs(5)), Probe::Crash(_));
                shrink(&src, &mut pred, 40)
            };
            let nest = small.chars().filter(|c| "[{(".contains(*c)).count();
            // cause: a generic function applied inside another generic function that uses the SAME
            // type-parameter names (repair test: give the first generic function names of its own);
            // the repaired program tells whether the crashing one is well typed
            let sig = match rename_first_generic(&src) {
                Some(renamed) => match probe(&renamed, Duration::from_secs(5)) {
                    Probe::Line(a) if a.contains("C ok") => "robust kind=crash cause=generic-call-shared-type-parameter-names program=well-typed".to_string(),
                    Probe::Line(a) if a.contains("C compile-error") => "robust kind=crash cause=generic-call-shared-type-parameter-names program=ill-typed".to_string(),
                    _ => "robust kind=crash".to_string(),
                },
                None => "robust kind=crash".to_string(),
            };
            let known = ev.is_known(&sig);
            ev.violation(
                &sig,
                &format!("front end crashes the process ({status}) on an input of {} chars with {} opening brackets (stream {stream}): {:?}", small.chars().count(), nest, small.chars().take(200).collect::<String>()),
                json!({"source": small, "status": status, "original_source": src, "stream": stream}),
                true,
            );
            if known {
                ev.hit("robust:known-crash");
                next = i + 1;
                continue;
            }
            ev.hit("robust:unknown-crash");
            next = i + 1;
            if crashes >= 20 {
                // the property is plainly violated; restarting a child per crashing case would take
                // the rest of the time budget
                ev.hit("robust:search-aborted-after-20-crashes");
                break;
            }
        } else if next < total {
            // child ended between cases without DONE: restart where we are
            restarts += 1;
            if restarts > 50 {
                break;
            }
        }
    }
    // ---- string literals against the model (in-process; after the search, and not at all when the
    // search saw the process die: the same input class would take this process down too) ----------
    if ev.counters.contains_key("robust:unknown-crash") {
        ev.hit("string:skipped-after-crash");
    } else {
        strings::part_decode(&mut ev, &mut model, &opts);
    }
    typeport::part_types(&mut ev, &mut model, &opts);
    ev.set_extra("child_restarts", json!(restarts));
    ev.set_extra("model_requests", json!(model.requests));
    std::process::exit(ev.finish());
}
