//! C18 / C17 — the TYPE-EXPRESSION sub-language: correspondence between the type grammar of
//! `parser.rs` / the type printer of `format.rs` and the Lean model M-Parse
//! (`lean/QuiverModel/Core/Parse/Type.lean`, theorems in `Theorems/C18Types.lean`).
//!
//! (a) generated type ASTs (every constructor, depth ≤ 6, well-formed and deliberately ill-formed):
//!     real `format_program` on the one-alias program vs the model's `fmtAlias`; real `parse` on that
//!     text vs the model's `programVerdict`; for ASTs the model calls well-formed (`WFType`, the
//!     hypothesis of the round-trip theorem) the statement of the theorem is evaluated on the real
//!     code: the re-read AST is the original.
//! (b) malformed stream: one or two token-level edits of a printed alias (delete / duplicate / swap /
//!     substitute / insert a token, unbalanced bracket, stray `|`, `->` without result, comments and
//!     line breaks inside the type, truncation), with or without a sentinel behind it: the real
//!     parser's verdict (AST, or error offset and kind) vs the model's verdict.
//! (c) every type alias of the corpora (std modules, spec blocks, test-suite sources, examples) on
//!     its ORIGINAL text, and every `Type` node anywhere in their ASTs through (a).
//!
//! The real type parsers are private; they are observed through `parse` on `'t = <type>`, whose
//! result the model predicts as far as the alias grammar decides it (see `programVerdict`).
use crate::astutil;
use crate::srcgen;
use qverif::{Ev, Model, Opts, Rng, catch};
use quiver_compiler::ast::*;
use serde_json::json;

/// Generated and mutated inputs never nest parentheses deeper than this. Since /repo 33df1c7 the
/// parenthesised type forms are parsed once per level, since 1d93429 also the receive position of
/// `(@t -> t)` (stream `deep-type-parens` nests all of them 30-60 deep). The cap only bounds the
/// cost of the MODEL's old-grammar side and of shrinking.
const MAX_PAREN_DEPTH: usize = 8;

fn hx(s: &str) -> String {
    if s.is_empty() { "-".into() } else { qverif::hex(s.as_bytes()) }
}
fn unhx(s: &str) -> String {
    String::from_utf8_lossy(&qverif::unhex(s)).to_string()
}

// ---- canonical S-expressions (same format as Driver/TypeCommon.lean) -------------------------------

fn sx_name(s: &str) -> String {
    format!("h{}", qverif::hex(s.as_bytes()))
}
fn sx_opt_name(s: &Option<String>) -> String {
    match s {
        Some(s) => sx_name(s),
        None => "_".into(),
    }
}
fn spaced(xs: impl Iterator<Item = String>) -> String {
    xs.map(|x| format!(" {x}")).collect()
}
pub fn sx_ty(t: &Type) -> String {
    match t {
        Type::Primitive(PrimitiveType::Int) => "(prim int)".into(),
        Type::Primitive(PrimitiveType::Bin) => "(prim bin)".into(),
        Type::Primitive(PrimitiveType::Ref) => "(prim ref)".into(),
        Type::Tuple(tt) => format!("(tuple {} {}{})", sx_opt_name(&tt.name), if tt.is_partial { 1 } else { 0 }, spaced(tt.fields.iter().map(sx_field))),
        Type::Function(f) => format!("(fn {} {})", sx_ty(&f.input), sx_ty(&f.output)),
        Type::Union(u) => format!("(union{})", spaced(u.types.iter().map(sx_ty))),
        Type::Intersection(ts) => format!("(inter{})", spaced(ts.iter().map(sx_ty))),
        Type::Identifier { name, arguments } => format!("(ident {}{})", sx_name(name), spaced(arguments.iter().map(sx_ty))),
        Type::Cycle(None) => "(cycle _)".into(),
        Type::Cycle(Some(n)) => format!("(cycle {n})"),
        Type::Process(p) => format!(
            "(proc {} {})",
            p.receive_type.as_ref().map(|t| sx_ty(t)).unwrap_or("_".into()),
            p.return_type.as_ref().map(|t| sx_ty(t)).unwrap_or("_".into())
        ),
        Type::Resource(n) => format!("(res {})", sx_name(n)),
        Type::ModuleType { module, member, arguments } => format!(
            "(mod ({}) {}{})",
            module.iter().map(|m| sx_name(m)).collect::<Vec<_>>().join(" "),
            sx_opt_name(member),
            spaced(arguments.iter().map(sx_ty))
        ),
        Type::SelfDefault { arguments } => format!("(self{})", spaced(arguments.iter().map(sx_ty))),
    }
}
fn sx_field(f: &FieldType) -> String {
    match f {
        FieldType::Field { name, type_def } => format!("(field {} {})", sx_opt_name(name), sx_ty(type_def)),
        FieldType::Spread { identifier, type_arguments } => format!("(spread {}{})", sx_opt_name(identifier), spaced(type_arguments.iter().map(sx_ty))),
    }
}

#[derive(Clone, Debug)]
pub struct AliasAst {
    name: Option<String>,
    params: Vec<String>,
    ty: Type,
}
fn sx_alias(a: &AliasAst) -> String {
    format!("(alias {} ({}) {})", sx_opt_name(&a.name), a.params.iter().map(|p| sx_name(p)).collect::<Vec<_>>().join(" "), sx_ty(&a.ty))
}
fn alias_of_statement(s: &Statement) -> Option<AliasAst> {
    match s {
        Statement::TypeAlias { name, type_parameters, type_definition, .. } => Some(AliasAst { name: name.clone(), params: type_parameters.clone(), ty: type_definition.clone() }),
        _ => None,
    }
}
fn program_of(a: &AliasAst) -> Program {
    Program { statements: vec![Statement::TypeAlias { name: a.name.clone(), name_span: Spanned(None), type_parameters: a.params.clone(), type_definition: a.ty.clone() }] }
}

// ---- generator ------------------------------------------------------------------------------------

const IDENTS: &[&str] = &["a", "t", "x1", "a_b", "ok?", "go!", "p?!", "int", "bin", "ref", "inta", "r_E9", "zz_", "list", "u"];
const TUPLE_NAMES: &[&str] = &["A", "Foo", "X_1", "Ab9", "Nil", "Some", "B_", "Z"];
/// names outside the lexer's languages (only for ill-formed ASTs: the printer must still agree)
const WILD_NAMES: &[&str] = &["", "a b", "é", "Foo", "a", "x?!?", "1a", "_x", "A-b", "a'", "T<"];

struct Gen<'a> {
    r: &'a mut Rng,
    /// probability (in 1/64) of an ill-formed choice at each node
    wild: u64,
}

impl Gen<'_> {
    fn ident(&mut self) -> String {
        if self.r.chance(self.wild, 64) { self.r.pick(WILD_NAMES).to_string() } else { self.r.pick(IDENTS).to_string() }
    }
    fn tuple_name(&mut self) -> String {
        if self.r.chance(self.wild, 64) { self.r.pick(WILD_NAMES).to_string() } else { self.r.pick(TUPLE_NAMES).to_string() }
    }
    fn args(&mut self, d: u32) -> Vec<Type> {
        if d == 0 || self.r.chance(3, 5) {
            vec![]
        } else {
            (0..self.r.range(1, 3)).map(|_| self.ty(d - 1)).collect()
        }
    }
    fn field(&mut self, d: u32, allow_bare_spread: bool) -> FieldType {
        match self.r.below(10) {
            0 => {
                if allow_bare_spread || self.r.chance(self.wild, 64) {
                    let wild_args = self.r.chance(self.wild, 64);
                    FieldType::Spread { identifier: None, type_arguments: if wild_args { vec![self.ty(0)] } else { vec![] } }
                } else {
                    FieldType::Spread { identifier: Some(self.ident()), type_arguments: vec![] }
                }
            }
            1 => FieldType::Spread { identifier: Some(self.ident()), type_arguments: self.args(d) },
            2..=5 => FieldType::Field { name: Some(self.ident()), type_def: self.ty(d.saturating_sub(1)) },
            _ => FieldType::Field { name: None, type_def: self.ty(d.saturating_sub(1)) },
        }
    }
    fn tuple(&mut self, d: u32) -> Type {
        let n = if d == 0 { self.r.below(2) } else { self.r.below(4) };
        let shape = self.r.below(8);
        match shape {
            // 'alias[..., x: T]
            0 => {
                let name = self.ident();
                let mut fields: Vec<FieldType> = (0..n).map(|_| self.field(d, false)).collect();
                let at = self.r.usize(fields.len() + 1);
                if !self.r.chance(self.wild, 64) {
                    fields.insert(at, FieldType::Spread { identifier: Some(if self.r.chance(3, 4) { name.clone() } else { self.ident() }), type_arguments: self.args(d) });
                }
                let is_partial = self.r.chance(self.wild, 128);
                Type::Tuple(TupleType { name: Some(name), fields, is_partial })
            }
            // Name[...] / Name
            1 | 2 => Type::Tuple(TupleType { name: Some(self.tuple_name()), fields: (0..n).map(|_| self.field(d, true)).collect(), is_partial: false }),
            // [...]
            3 | 4 => Type::Tuple(TupleType { name: None, fields: (0..n).map(|_| self.field(d, true)).collect(), is_partial: false }),
            // Name(...)
            5 => Type::Tuple(TupleType { name: Some(self.tuple_name()), fields: (0..n).map(|_| self.field(d, true)).collect(), is_partial: true }),
            // (x: T, ...)
            _ => {
                let mut fields: Vec<FieldType> = (0..n).map(|_| self.field(d, true)).collect();
                let named = fields.iter().any(|f| matches!(f, FieldType::Field { name: Some(_), .. }));
                if !fields.is_empty() && !named && !self.r.chance(self.wild, 64) {
                    let at = self.r.usize(fields.len() + 1);
                    fields.insert(at, FieldType::Field { name: Some(self.ident()), type_def: self.ty(d.saturating_sub(1)) });
                }
                Type::Tuple(TupleType { name: None, fields, is_partial: true })
            }
        }
    }
    fn many(&mut self, d: u32) -> Vec<Type> {
        let n = if self.r.chance(self.wild, 64) { self.r.below(2) } else { 2 + self.r.below(3) };
        (0..n).map(|_| self.ty(d)).collect()
    }
    pub fn ty(&mut self, d: u32) -> Type {
        let leaf = d == 0;
        let k = if leaf { self.r.below(8) } else { self.r.below(20) };
        match k {
            0 => Type::Primitive(match self.r.below(3) { 0 => PrimitiveType::Int, 1 => PrimitiveType::Bin, _ => PrimitiveType::Ref }),
            1 => Type::Identifier { name: self.ident(), arguments: vec![] },
            2 => Type::Cycle(match self.r.below(6) { 0 | 1 => None, 2 => Some(0), 3 => Some(self.r.below(12) as usize), 4 => Some(usize::MAX), _ => Some(self.r.next() as usize) }),
            3 => Type::Resource(self.tuple_name()),
            4 => Type::Process(ProcessType { receive_type: None, return_type: None }),
            5 => Type::SelfDefault { arguments: vec![] },
            6 => Type::ModuleType { module: (0..if self.r.chance(self.wild, 64) { 0 } else { self.r.range(1, 3) }).map(|_| self.ident()).collect(), member: if self.r.chance(1, 2) { Some(self.ident()) } else { None }, arguments: vec![] },
            7 | 8 | 9 => self.tuple(d),
            10 | 11 => Type::Union(UnionType { types: self.many(d - 1) }),
            12 => Type::Intersection(self.many(d - 1)),
            13 | 14 => Type::Function(FunctionType { input: Box::new(self.ty(d - 1)), output: Box::new(self.ty(d - 1)) }),
            15 => Type::Identifier { name: self.ident(), arguments: self.args(d) },
            16 => {
                let recv = if self.r.chance(2, 3) { Some(Box::new(self.ty(d - 1))) } else { None };
                let ret = if self.r.chance(1, 2) { Some(Box::new(self.ty(d - 1))) } else { None };
                Type::Process(ProcessType { receive_type: recv, return_type: ret })
            }
            17 => Type::ModuleType { module: (0..self.r.range(1, 3)).map(|_| self.ident()).collect(), member: if self.r.chance(1, 2) { Some(self.ident()) } else { None }, arguments: self.args(d) },
            18 => Type::SelfDefault { arguments: self.args(d) },
            _ => self.tuple(d),
        }
    }
    fn alias(&mut self, d: u32) -> AliasAst {
        let name = if self.r.chance(1, 8) { None } else { Some(self.ident()) };
        let params = if self.r.chance(2, 3) { vec![] } else { (0..self.r.range(1, 3)).map(|_| self.ident()).collect() };
        AliasAst { name, params, ty: self.ty(d) }
    }
}

fn ctor_name(t: &Type) -> &'static str {
    match t {
        Type::Primitive(_) => "primitive",
        Type::Tuple(tt) => match (tt.is_partial, &tt.name) {
            (true, None) => "tuple-partial-unnamed",
            (true, Some(_)) => "tuple-partial-named",
            (false, None) => "tuple-unnamed",
            (false, Some(n)) if n.starts_with(|c: char| c.is_ascii_lowercase()) => "tuple-alias-named",
            (false, Some(_)) => "tuple-named",
        },
        Type::Function(_) => "function",
        Type::Union(_) => "union",
        Type::Intersection(_) => "intersection",
        Type::Identifier { arguments, .. } => if arguments.is_empty() { "identifier" } else { "identifier-applied" },
        Type::Cycle(None) => "cycle",
        Type::Cycle(Some(_)) => "cycle-n",
        Type::Process(p) => match (&p.receive_type, &p.return_type) {
            (None, None) => "process",
            (Some(_), None) => "process-recv",
            (None, Some(_)) => "process-ret",
            (Some(_), Some(_)) => "process-recv-ret",
        },
        Type::Resource(_) => "resource",
        Type::ModuleType { .. } => "module-type",
        Type::SelfDefault { .. } => "self-default",
    }
}

/// Visit every node of a type (constructor counters, depth).
fn walk_ty(t: &Type, depth: usize, f: &mut dyn FnMut(&Type, usize)) {
    f(t, depth);
    let sub = |ts: &[Type], f: &mut dyn FnMut(&Type, usize)| {
        for x in ts {
            walk_ty(x, depth + 1, f)
        }
    };
    match t {
        Type::Tuple(tt) => {
            for fld in &tt.fields {
                match fld {
                    FieldType::Field { type_def, .. } => walk_ty(type_def, depth + 1, f),
                    FieldType::Spread { type_arguments, .. } => sub(type_arguments, f),
                }
            }
        }
        Type::Function(ft) => {
            walk_ty(&ft.input, depth + 1, f);
            walk_ty(&ft.output, depth + 1, f);
        }
        Type::Union(u) => sub(&u.types, f),
        Type::Intersection(ts) => sub(ts, f),
        Type::Identifier { arguments, .. } | Type::ModuleType { arguments, .. } | Type::SelfDefault { arguments } => sub(arguments, f),
        Type::Process(p) => {
            if let Some(r) = &p.receive_type {
                walk_ty(r, depth + 1, f)
            }
            if let Some(r) = &p.return_type {
                walk_ty(r, depth + 1, f)
            }
        }
        _ => {}
    }
}

fn paren_depth(s: &str) -> usize {
    let (mut d, mut m) = (0usize, 0usize);
    for c in s.chars() {
        if c == '(' {
            d += 1;
            m = m.max(d);
        } else if c == ')' {
            d = d.saturating_sub(1);
        }
    }
    m
}

// ---- the real code ----------------------------------------------------------------------------------

#[derive(Debug, Clone, PartialEq)]
enum Impl {
    /// `Ok(program)`: the S-expression of the first statement when it is an alias, the number of statements
    Ok { first_alias: Option<String>, statements: usize },
    Err { offset: usize, length: usize, kind: String },
    ErrNoSpan { kind: String },
    Panic(String),
}

fn kind_name(k: &quiver_compiler::parser::ErrorKind) -> String {
    let s = format!("{k:?}");
    s.split(['(', ' ', '{']).next().unwrap_or("").to_string()
}

fn run_impl(src: &str) -> Impl {
    match catch(|| quiver_compiler::parse(src)) {
        Err(p) => Impl::Panic(p.lines().next().unwrap_or("").to_string()),
        Ok(Ok(prog)) => Impl::Ok { first_alias: prog.statements.first().and_then(alias_of_statement).map(|a| sx_alias(&a)), statements: prog.statements.len() },
        Ok(Err(e)) => match e.span {
            Some(s) => Impl::Err { offset: s.offset, length: s.length, kind: kind_name(&e.kind) },
            None => Impl::ErrNoSpan { kind: kind_name(&e.kind) },
        },
    }
}

/// Does the real parser's result agree with the model's verdict? `Err(why)` when not.
fn agree(src: &str, imp: &Impl, verdict: &str, model: &mut Model) -> Result<&'static str, String> {
    let mut it = verdict.splitn(2, ' ');
    let tag = it.next().unwrap_or("");
    let rest = it.next().unwrap_or("");
    match tag {
        "alias-only" => match imp {
            Impl::Ok { first_alias: Some(a), statements: 1 } if a == rest => Ok("alias-only"),
            _ => Err(format!("model: the program is exactly the alias {rest}")),
        },
        "alias-then-err" => {
            let (a, off) = rest.rsplit_once(' ').unwrap_or((rest, ""));
            let off: usize = off.parse().unwrap_or(usize::MAX);
            let _ = a;
            match imp {
                Impl::Err { offset, kind, .. } if *offset == off => {
                    // nom code Eof → `detect_error_kind(source)`
                    let want = model.ask(&format!("detect {}", hx(src)));
                    if &want == kind { Ok("alias-then-err") } else { Err(format!("model: error kind {want} (detect_error_kind) at offset {off}")) }
                }
                _ => Err(format!("model: the alias ends and nothing can follow: error exactly at offset {off}")),
            }
        }
        "alias-then-more" => {
            let (a, off) = rest.rsplit_once(' ').unwrap_or((rest, ""));
            let off: usize = off.parse().unwrap_or(usize::MAX);
            match imp {
                Impl::Ok { first_alias: Some(x), statements } if x == a && *statements >= 1 => Ok("alias-then-more:ok"),
                Impl::Err { offset, .. } if *offset >= off => Ok("alias-then-more:err"),
                _ => Err(format!("model: first statement is the alias {a}, the next item starts at offset {off}")),
            }
        }
        "not-alias" => match imp {
            Impl::Ok { first_alias: Some(_), .. } => Err(format!("model: type_alias fails at the start ({rest})")),
            Impl::Ok { .. } => Ok("not-alias:ok-expression"),
            Impl::Err { .. } => Ok("not-alias:err"),
            _ => Err("model: not an alias".into()),
        },
        _ => Err(format!("model answered {verdict}")),
    }
}

/// The C18 oracle on the real parser's answer (independent of the model).
fn oracle(src: &str, imp: &Impl) -> Option<String> {
    match imp {
        Impl::Panic(m) => Some(format!("parse-panic msg={}", m.replace(' ', "_"))),
        Impl::ErrNoSpan { kind } => Some(format!("error-without-position kind={kind}")),
        Impl::Err { offset, length, kind } => {
            if offset + length > src.len() {
                Some(format!("span-out-of-bounds kind={kind}"))
            } else if !src.is_char_boundary(*offset) || !src.is_char_boundary(offset + length) {
                Some(format!("span-not-on-char-boundary kind={kind}"))
            } else {
                None
            }
        }
        Impl::Ok { .. } => None,
    }
}

/// ddmin over characters, keeping `pred`.
fn shrink(src: &str, pred: &mut dyn FnMut(&str) -> bool, mut budget: usize) -> String {
    let mut cur: Vec<char> = src.chars().collect();
    let mut chunk = (cur.len() / 2).max(1);
    while chunk >= 1 && budget > 0 {
        let mut i = 0;
        let mut progressed = false;
        while i < cur.len() && budget > 0 {
            let mut cand = cur.clone();
            cand.drain(i..(i + chunk).min(cand.len()));
            budget -= 1;
            let s: String = cand.iter().collect();
            if pred(&s) {
                cur = cand;
                progressed = true;
            } else {
                i += chunk;
            }
        }
        if chunk == 1 && !progressed {
            break;
        }
        if !progressed {
            chunk /= 2;
        }
    }
    cur.into_iter().collect()
}

/// The four entry points of `quiver_compiler::parser::verif` against the model's `ptype` / `pbase`
/// / `pfio` / `pinline`: the AST and the number of bytes consumed, or the byte offset and nom code
/// of the error (and that it is an `Error`, not a `Failure`: the type grammar has no `cut`).
fn check_hook(ev: &mut Ev, model: &mut Model, stream: &str, text: &str) {
    use quiver_compiler::parser::verif;
    let entries: [(&str, &str, fn(&str) -> verif::TypeParse); 4] = [
        ("type_definition", "ptype", verif::type_definition),
        ("base_type", "pbase", verif::base_type),
        ("function_input_type", "pfio", verif::function_input_type),
        ("inline_type_expression", "pinline", verif::inline_type_expression),
    ];
    for (name, req, f) in entries {
        let real = match catch(|| f(text)) {
            Err(p) => {
                ev.violation(&format!("types hook-panic entry={name}"), &format!("{name} panics on {text:?}: {p}"), json!({"source": text, "entry": name, "stream": stream}), true);
                continue;
            }
            Ok(Ok((t, used))) => format!("ok {} {used}", sx_ty(&t)),
            Ok(Err((off, code, failure))) => format!("err {off} {code}{}", if failure { " FAILURE" } else { "" }),
        };
        let want = model.ask(&format!("{req} {}", hx(text)));
        ev.hit(&format!("types:hook:{name}:{}", real.split(' ').next().unwrap_or("")));
        if let Some(code) = real.strip_prefix("err ").and_then(|r| r.split(' ').nth(1)) {
            ev.hit(&format!("types:hook-error-code:{code}"));
        }
        if real != want {
            let mut pred = |s: &str| {
                if paren_depth(s) > MAX_PAREN_DEPTH + 2 {
                    return false;
                }
                let r = match catch(|| f(s)) {
                    Ok(Ok((t, used))) => format!("ok {} {used}", sx_ty(&t)),
                    Ok(Err((off, code, failure))) => format!("err {off} {code}{}", if failure { " FAILURE" } else { "" }),
                    Err(_) => return false,
                };
                r != model.ask(&format!("{req} {}", hx(s)))
            };
            let small = shrink(text, &mut pred, 500);
            let r2 = match catch(|| f(&small)) {
                Ok(Ok((t, used))) => format!("ok {} {used}", sx_ty(&t)),
                Ok(Err((off, code, failure))) => format!("err {off} {code}{}", if failure { " FAILURE" } else { "" }),
                Err(p) => format!("panic {p}"),
            };
            let w2 = model.ask(&format!("{req} {}", hx(&small)));
            ev.violation(
                &format!("types kind=hook-differs-from-model entry={name}"),
                &format!("{name} on {small:?} (stream {stream}): implementation `{r2}`, model `{w2}`"),
                json!({"broken": format!("correspondence model<->impl on parser::verif::{name} (M-Parse {req})"), "source": small, "original_source": text, "impl": r2, "model": w2, "stream": stream}),
                false,
            );
        }
    }
}

/// One text through the real parser and the model; reports on disagreement. Returns the real result.
fn check_text(ev: &mut Ev, model: &mut Model, stream: &str, src: &str) -> Impl {
    let imp = run_impl(src);
    if let Some(sig) = oracle(src, &imp) {
        let mut pred = |s: &str| oracle(s, &run_impl(s)).map(|x| x.split(' ').next() == sig.split(' ').next()).unwrap_or(false);
        let small = shrink(src, &mut pred, 400);
        ev.violation(&format!("types {sig}"), &format!("front end on {small:?} (stream {stream}): {:?}", run_impl(&small)), json!({"source": small, "original_source": src, "stream": stream}), true);
        return imp;
    }
    let verdict = model.ask(&format!("palias {}", hx(src)));
    match agree(src, &imp, &verdict, model) {
        Ok(how) => {
            ev.hit(&format!("types:verdict:{how}"));
            if let Some(code) = verdict.strip_prefix("not-alias ").and_then(|r| r.split(' ').nth(1)) {
                ev.hit(&format!("types:alias-error-code:{code}"));
            }
            if let Impl::Err { kind, .. } = &imp {
                ev.hit(&format!("types:impl-error-kind:{kind}"));
            }
        }
        Err(_) => {
            let mut pred = |s: &str| {
                if paren_depth(s) > MAX_PAREN_DEPTH + 2 {
                    return false;
                }
                let i = run_impl(s);
                if oracle(s, &i).is_some() {
                    return false;
                }
                let v = model.ask(&format!("palias {}", hx(s)));
                agree(s, &i, &v, model).is_err()
            };
            let small = shrink(src, &mut pred, 600);
            let i2 = run_impl(&small);
            let v2 = model.ask(&format!("palias {}", hx(&small)));
            let why = agree(&small, &i2, &v2, model).err().unwrap_or_default();
            ev.violation(
                "types kind=parse-differs-from-model",
                &format!("type grammar on {small:?} (stream {stream}): implementation {i2:?}; {why}"),
                json!({"broken": "correspondence model<->impl on type_alias/type_definition (M-Parse programVerdict)", "source": small, "original_source": src, "impl": format!("{i2:?}"), "model": v2, "stream": stream}),
                false,
            );
        }
    }
    imp
}

/// (a): one alias AST through printer, parser and the round-trip statement. Returns the real text.
fn check_alias(ev: &mut Ev, model: &mut Model, stream: &str, a: &AliasAst) -> Option<String> {
    let sx = sx_alias(a);
    let prog = program_of(a);
    let text = match catch(|| quiver_compiler::format_program(&prog, "")) {
        Ok(t) => t,
        Err(p) => {
            ev.violation("types format-panic", &format!("format_program panics on the alias {sx}: {p}"), json!({"alias": sx, "stream": stream}), true);
            return None;
        }
    };
    ev.case(&text, true);
    let m = model.ask(&format!("fmt-alias {sx}"));
    let mtext = m.strip_prefix("s:").map(unhx);
    if mtext.as_deref() != Some(text.as_str()) {
        ev.violation(
            "types kind=print-differs-from-model",
            &format!("format_program on {sx} (stream {stream}): implementation {text:?}, model {:?}", mtext.unwrap_or(m.clone())),
            json!({"broken": "correspondence model<->impl on render_type / statement_doc (M-Parse fmtAlias)", "alias": sx, "impl": text, "model": m, "stream": stream}),
            false,
        );
        return Some(text);
    }
    ev.hit("types:print-agrees");
    if text.contains('\n') && text.trim_end().contains('\n') {
        ev.hit("types:print-broken-layout");
    }
    if paren_depth(&text) > MAX_PAREN_DEPTH {
        ev.hit("types:skipped-reparse-paren-depth");
        return Some(text);
    }
    let imp = check_text(ev, model, stream, &text);
    // the round-trip statement on the real code, for ASTs satisfying the theorem's hypothesis
    let wf = model.ask(&format!("wf-alias {sx}")) == "1";
    ev.hit(if wf { "types:ast-wellformed" } else { "types:ast-illformed" });
    if wf {
        // C18Types.alias_statement_layout_decided evaluated on the implementation: the formatted
        // statement is the flat line, or — exactly when the right-hand side is a union and the flat
        // line is longer than 100 characters — the one-member-per-line layout; plus a newline
        let flat = model.ask(&format!("flat-alias {sx}")).strip_prefix("s:").map(unhx);
        let broken = model.ask(&format!("broken-alias {sx}")).strip_prefix("s:").map(unhx);
        let breaks = broken.is_some() && flat.as_ref().map(|t| t.chars().count() > 100).unwrap_or(false);
        let want_text = if breaks { broken.clone() } else { flat.clone() }.map(|t| t + "\n");
        if want_text.as_deref() == Some(text.as_str()) {
            ev.hit(if breaks { "types:layout-broken" } else { "types:layout-flat" });
            if !breaks && text.chars().count() > 101 {
                ev.hit("types:layout-flat-longer-than-width");
            }
        } else {
            ev.violation(
                "types kind=layout-differs-from-theorem",
                &format!("format_program on the well-formed alias {sx} gives {text:?}; the theorem's layout is {want_text:?} (flat line {} characters) (stream {stream})", flat.as_ref().map(|t| t.chars().count()).unwrap_or(0)),
                json!({"broken": "C18Types.alias_statement_layout_decided evaluated on the implementation", "alias": sx, "text": text, "flat": flat, "broken_layout": broken, "stream": stream}),
                false,
            );
        }
        let want = sx.clone();
        let ok = matches!(&imp, Impl::Ok { first_alias: Some(x), statements: 1 } if *x == want);
        if ok {
            ev.hit("types:roundtrip-holds");
        } else {
            // explained by the known shape? (an argument-less reference named like a primitive is
            // printed `<'int>`, which `function_input_type`/`function_output_type` do not accept)
            let mut in_fn_position = false;
            walk_ty(&a.ty, 0, &mut |t, _| {
                if let Type::Function(f) = t {
                    for side in [&*f.input, &*f.output] {
                        if let Type::Identifier { name, arguments } = side {
                            if arguments.is_empty() && matches!(name.as_str(), "int" | "bin" | "ref") {
                                in_fn_position = true;
                            }
                        }
                    }
                }
            });
            let cause = if in_fn_position { "primitive-named-reference-in-function-position" } else { "unexplained" };
            ev.violation(
                &format!("types kind=roundtrip-fails cause={cause}"),
                &format!("the printed form {text:?} of the well-formed alias {sx} is re-read as {imp:?} (expected {want}) (stream {stream})"),
                json!({"broken": "C18Types.roundtrip evaluated on the implementation (format_program then parse)", "alias": sx, "text": text, "impl": format!("{imp:?}"), "expected": want, "stream": stream}),
                false,
            );
        }
    }
    Some(text)
}

// ---- (b) mutations ----------------------------------------------------------------------------------

fn tokens(s: &str) -> Vec<String> {
    let cs: Vec<char> = s.chars().collect();
    let mut out = vec![];
    let mut i = 0;
    while i < cs.len() {
        let c = cs[i];
        let word = |c: char| c.is_ascii_alphanumeric() || c == '_' || c == '?' || c == '!';
        if word(c) {
            let j = (i..cs.len()).find(|&j| !word(cs[j])).unwrap_or(cs.len());
            out.push(cs[i..j].iter().collect());
            i = j;
        } else if c.is_whitespace() {
            let j = (i..cs.len()).find(|&j| !cs[j].is_whitespace()).unwrap_or(cs.len());
            out.push(cs[i..j].iter().collect());
            i = j;
        } else if cs[i..].starts_with(&['.', '.', '.']) {
            out.push("...".into());
            i += 3;
        } else if cs[i..].starts_with(&['-', '>']) {
            out.push("->".into());
            i += 2;
        } else {
            out.push(c.to_string());
            i += 1;
        }
    }
    out
}

const POOL: &[&str] = &[
    "|", "&", "(", ")", "[", "]", "<", ">", ",", ":", "->", "@", "#", "^", "'", "...", "\\", "%", ".", "/", " ", "\n", "\r\n", "\t", "\r",
    "// c\n", "//c", " // c\n  ", "x", "X", "'int", "'t", "9", "007", "18446744073709551615", "18446744073709551616", "=", ";", "?", "!", "é", "_", "-", "-> ", " ->", "| ", " |",
    ", ", ",,", "()", "[]", "<'t>", "(@", "@-> ", "x: ", "x:", "Foo", "Foo(", "'a[", "=>", "~>", "\"", "{", "}", "$", "0x", "1.5",
];

fn mutate(r: &mut Rng, text: &str) -> (String, String) {
    let body = text.trim_end_matches('\n');
    let mut toks = tokens(body);
    // the first tokens are `'`, name, …, `=`; most edits go behind the `=`
    let eq = toks.iter().position(|t| t == "=").map(|p| p + 1).unwrap_or(0);
    let n = toks.len();
    let pos = |r: &mut Rng| if n > eq && r.chance(9, 10) { eq + r.usize(n - eq) } else { r.usize(n.max(1)) };
    let kind;
    match r.below(12) {
        0 => {
            kind = "delete";
            let p = pos(r);
            if p < toks.len() {
                toks.remove(p);
            }
        }
        1 => {
            kind = "duplicate";
            let p = pos(r);
            if p < toks.len() {
                let t = toks[p].clone();
                toks.insert(p, t);
            }
        }
        2 => {
            kind = "swap";
            let p = pos(r);
            if p + 1 < toks.len() {
                toks.swap(p, p + 1);
            }
        }
        3 | 4 => {
            kind = "substitute";
            let p = pos(r);
            if p < toks.len() {
                toks[p] = r.pick(POOL).to_string();
            }
        }
        5 | 6 => {
            kind = "insert";
            let p = pos(r);
            toks.insert(p.min(toks.len()), r.pick(POOL).to_string());
        }
        7 => {
            kind = "unbalance";
            let idx: Vec<usize> = toks.iter().enumerate().filter(|(_, t)| ["(", ")", "[", "]", "<", ">"].contains(&t.as_str())).map(|(i, _)| i).collect();
            if idx.is_empty() || r.chance(1, 3) {
                let p = pos(r);
                toks.insert(p.min(toks.len()), r.pick(&["(", ")", "[", "]", "<", ">"]).to_string());
            } else {
                toks.remove(*r.pick(&idx));
            }
        }
        8 => {
            kind = "trivia-inside";
            let k = 1 + r.usize(3);
            for _ in 0..k {
                let p = pos(r);
                toks.insert(p.min(toks.len()), r.pick(&[" ", "\n", "\n  ", " // c\n", "//c\n", "\t", "\r\n", " //\n", "\r"]).to_string());
            }
        }
        9 => {
            kind = "truncate";
            let cs: Vec<char> = body.chars().collect();
            let cut = r.usize(cs.len() + 1);
            let s: String = cs[..cut].iter().collect();
            toks = vec![s];
        }
        10 => {
            kind = "stray-operator";
            let p = pos(r);
            toks.insert(p.min(toks.len()), r.pick(&["|", " | ", "&", " & ", "->", " -> ", "| |", " -> -> "]).to_string());
        }
        _ => {
            kind = "two-edits";
            for _ in 0..2 {
                let p = pos(r);
                match r.below(3) {
                    0 if p < toks.len() => {
                        toks.remove(p);
                    }
                    1 => toks.insert(p.min(toks.len()), r.pick(POOL).to_string()),
                    _ if p < toks.len() => toks[p] = r.pick(POOL).to_string(),
                    _ => {}
                }
            }
        }
    }
    let mut s: String = toks.concat();
    let tail = match r.below(8) {
        0 | 1 => " ;",
        2 => ";",
        3 => "\n",
        4 => "\n;",
        5 => " // end",
        _ => "",
    };
    s.push_str(tail);
    (kind.to_string(), s)
}

/// Fifth exponential form (repaired by /repo 1d93429; kept as a regression witness: with the repair
/// it counts `types:receive-nest-not-exponential`): nesting in the RECEIVE position
/// of a parenthesised process type, `(@(@(@'a -> 'r) -> 'r) -> 'r)`. The partial-type attempt reads
/// the receive type through `type_definition`, fails at `->`, and `paren_process_type` reads it
/// again: two parses per level. Exhibited by timing two depths four levels apart (factor 16).
fn receive_nest_witness(ev: &mut Ev) {
    let nest = |d: usize| {
        let mut t = String::from("'a");
        for _ in 0..d {
            t = format!("(@{t} -> 'r)");
        }
        format!("'t = {t}")
    };
    let time = |src: &str| {
        let t0 = std::time::Instant::now();
        let _ = run_impl(src);
        t0.elapsed().as_secs_f64()
    };
    let (lo, hi) = (11usize, 15usize);
    let (a, b) = (time(&nest(lo)), time(&nest(hi)));
    ev.case(&nest(hi), true);
    ev.hit("types:stream:receive-nest-witness");
    ev.set_extra("types_receive_nest_seconds", json!({"depth_11": a, "depth_15": b}));
    if b > 8.0 * a && b > 0.02 {
        ev.violation(
            "types kind=exponential-parse-time cause=process-receive-nesting",
            &format!("parse time doubles per level of `(@t -> t)` nesting in receive position: depth {lo} {a:.4} s, depth {hi} {b:.4} s (depth 30 would take days); valid input"),
            json!({"source": nest(hi), "seconds_depth_11": a, "seconds_depth_15": b, "witness_that_times_out": nest(24)}),
            true,
        );
    } else {
        ev.hit("types:receive-nest-not-exponential");
    }
}

/// the text behind the alias's ` = ` (the type as the type parsers see it)
fn type_part(src: &str) -> Option<&str> {
    let i = src.find('=')?;
    Some(src[i + 1..].trim_start_matches([' ', '\t', '\n', '\r']))
}

// ---- entry point ------------------------------------------------------------------------------------

pub fn part_types(ev: &mut Ev, model: &mut Model, opts: &Opts) {
    let budget: u64 = opts.extra.iter().position(|x| x == "--type-cases").and_then(|i| opts.extra.get(i + 1)).and_then(|x| x.parse().ok()).unwrap_or(opts.tier.pick(2_500u64, 40_000u64));
    let mut texts: Vec<String> = vec![];
    let t0 = std::time::Instant::now();

    // fixed regression inputs (kept in the source: they are part of the check)
    for src in ["'box<'int> = Box[<'int>]\nf = #'box<'bin> { $ }\n#{ Box[0xff] ~> f }", "'t = Foo[]\n(x) = A[x: 1]\nx", "'t = #(<'int>) -> (<'bin>)", "'t = <'int>", "'t = Foo[]\n(x) = y", "'t = ((((('int)))))", "'t = (@-> 'a)", "'t = 'a[...]", "' = ^18446744073709551616", "'t<'a, 'b> =\n  | A[x: 'a]\n  | B(y: #'a -> 'b) // c\n  | ^1 & 'u", "'t = ( 'int // c\n)", "'t = (x: 'int // c\n)", "'t = Foo ('int)", "'t = [f: #@ -> @, '%a/b.c<'>]"] {
        ev.case(src, true);
        ev.hit("types:stream:fixed");
        let imp = check_text(ev, model, "fixed", src);
        if let Some(t) = type_part(src) {
            check_hook(ev, model, "fixed", t);
        }
        if let Impl::Ok { first_alias: Some(_), .. } = imp {
            texts.push(src.to_string());
            // and the round trip of what was read
            if let Ok(Ok(prog)) = catch(|| quiver_compiler::parse(src)) {
                if let Some(a) = prog.statements.first().and_then(alias_of_statement) {
                    check_alias(ev, model, "fixed", &a);
                }
            }
        }
    }

    // deep nests of the four parenthesised type forms that 33df1c7 made linear: must answer at once
    for (di, depth) in [30usize, 45, 60].into_iter().enumerate() {
        for form in 0..7 {
            let mut t = String::from("'a");
            for level in 0..depth {
                t = match if form == 6 { (level + di) % 6 } else { form } {
                    0 => format!("({t})"),
                    1 => format!("(#{t} -> 'b)"),
                    2 => format!("({t} | 'c)"),
                    3 => format!("({t}, y: 'b)"),
                    // the receive and the return position of a parenthesised process type (1d93429)
                    4 => format!("(@{t} -> 'r)"),
                    _ => format!("(@-> {t})"),
                };
            }
            let src = format!("'t = {t}");
            ev.case(&src, true);
            ev.hit("types:stream:deep-type-parens");
            let t0 = std::time::Instant::now();
            let imp = run_impl(&src);
            let ms = t0.elapsed().as_millis();
            if ms > 2_000 || !matches!(imp, Impl::Ok { first_alias: Some(_), statements: 1 }) {
                ev.violation(
                    "types kind=deep-type-parens-slow-or-rejected",
                    &format!("a valid type nested {depth} parentheses deep (form {form}) took {ms} ms and gave {}", format!("{imp:?}").chars().take(80).collect::<String>()),
                    json!({"source": src, "ms": ms as u64, "depth": depth, "form": form}),
                    true,
                );
            } else {
                ev.hit("types:deep-type-parens-fast");
                // the model is the grammar of 1d93429 (`parseTypeG`, proved equal to the original
                // grammar: receive_factored_eq), linear in every one of these forms: all of them go
                // through the full model comparison
                check_text(ev, model, "deep-type-parens", &src);
                if form == 4 || form == 6 {
                    ev.hit("types:deep-receive-nest-model-compared");
                }
            }
        }
    }
    receive_nest_witness(ev);
    // parenthesised process forms and their near misses (the forms patch C18-fixes/04 re-routes)
    for i in 0..opts.tier.pick(600u64, 6_000u64) {
        let mut r = Rng::for_case(opts.seed ^ 0x7479_7065_5f70, i);
        let mut g = Gen { r: &mut r, wild: 0 };
        let a = catch(|| quiver_compiler::format_program(&program_of(&AliasAst { name: Some("t".into()), params: vec![], ty: g.ty(2) }), "")).unwrap_or_default();
        let b = catch(|| quiver_compiler::format_program(&program_of(&AliasAst { name: Some("t".into()), params: vec![], ty: g.ty(2) }), "")).unwrap_or_default();
        let (a, b) = (type_part(&a).unwrap_or("'a").trim_end().to_string(), type_part(&b).unwrap_or("'b").trim_end().to_string());
        if a.contains('\n') || b.contains('\n') {
            continue;
        }
        let sp = |r: &mut Rng| r.pick(&["", " ", "  ", "\n", " // c\n", "\t"]).to_string();
        let (s1, s2, s3, s4, s5) = (sp(g.r), sp(g.r), sp(g.r), sp(g.r), sp(g.r));
        let t = match g.r.below(14) {
            0 => format!("(@{a} -> {b})"),
            1 => format!("(@-> {b})"),
            2 => format!("(@{s1}->{s2}{b})"),
            3 => format!("(@{a}{s1}->{s2}{b})"),
            4 => format!("({s1}@{a} -> {b})"),
            5 => format!("(@{s1}{a} -> {b})"),
            6 => format!("(@{a} -> {b}{s1})"),
            7 => format!("(@{a} & {b} -> 'r)"),
            8 => format!("(@{a} | {b} -> 'r)"),
            9 => format!("(@{a} -> {b}, x: 'c)"),
            10 => format!("(@(@{a} -> {b}) -> (@-> (@{b} -> {a})))"),
            11 => format!("(@{a}{s3},{s4}x: {b}{s5})"),
            12 => format!("(@{a} ->)"),
            _ => format!("(@{a}{s1})"),
        };
        if paren_depth(&t) > MAX_PAREN_DEPTH {
            continue;
        }
        let src = format!("'t = {t}");
        ev.case(&src, true);
        ev.hit("types:stream:process-forms");
        check_text(ev, model, "process-forms", &src);
        check_hook(ev, model, "process-forms", &t);
    }

    // (a) generated ASTs
    for i in 0..budget {
        let mut r = Rng::for_case(opts.seed ^ 0x7479_7065_5f61, i);
        let wild = match r.below(4) { 0 => 6, 1 => 1, _ => 0 };
        let mut depth = r.below(7) as u32;
        let a = loop {
            let a = Gen { r: &mut r, wild }.alias(depth);
            // keep the parenthesis nesting of the printed form small
            let probe = catch(|| quiver_compiler::format_program(&program_of(&a), "")).unwrap_or_default();
            if paren_depth(&probe) <= MAX_PAREN_DEPTH || depth == 0 {
                break a;
            }
            depth -= 1;
        };
        let stream = if wild > 0 { "gen-wild" } else { "gen-wellformed" };
        ev.hit(&format!("types:stream:{stream}"));
        let mut maxd = 0;
        let mut hits: Vec<&'static str> = vec![];
        walk_ty(&a.ty, 0, &mut |t, d| {
            maxd = maxd.max(d);
            hits.push(ctor_name(t));
        });
        for h in hits {
            ev.hit(&format!("types:ctor:{h}"));
        }
        ev.hit(&format!("types:ast-depth:{maxd}"));
        if let Some(text) = check_alias(ev, model, stream, &a) {
            ev.sample_sparse(i, 5_000, || json!({"stream": stream, "alias": sx_alias(&a), "text": text}));
            if paren_depth(&text) <= MAX_PAREN_DEPTH {
                if let Some(t) = type_part(&text) {
                    check_hook(ev, model, stream, t.trim_end_matches('\n'));
                }
                texts.push(text);
            }
        }
        if ev.violation_count() > 25 {
            ev.hit("types:aborted-after-25-violations");
            return;
        }
    }

    ev.set_extra("types_wall_s_generated", json!(t0.elapsed().as_secs_f64()));
    // (c) corpus: aliases on their original text; every type node through (a)
    let mut corpus_types = 0u64;
    let mut corpus_aliases = 0u64;
    for (label, src) in srcgen::corpus_all() {
        if src.len() > 60_000 {
            continue;
        }
        let Ok(Ok(prog)) = catch(|| quiver_compiler::parse(&src)) else { continue };
        let mut found: Vec<Type> = vec![];
        for st in &prog.statements {
            if let Statement::TypeAlias { name_span, type_definition, .. } = st {
                found.push(type_definition.clone());
                if let Some(sp) = name_span.get() {
                    // the alias and some of what follows it (both sides see the same text)
                    let mut end = (sp.offset + 6000).min(src.len());
                    while !src.is_char_boundary(end) {
                        end -= 1;
                    }
                    let suffix = &src[sp.offset..end];
                    if paren_depth(suffix.lines().take(40).collect::<Vec<_>>().join("\n").as_str()) <= MAX_PAREN_DEPTH + 1 {
                        corpus_aliases += 1;
                        ev.case(&(label.as_str(), sp.offset), true);
                        ev.hit("types:stream:corpus-alias-original-text");
                        check_text(ev, model, "corpus-alias", suffix);
                        if suffix.len() < 400 {
                            texts.push(suffix.to_string());
                        }
                    }
                }
            }
        }
        let in_terms = std::cell::RefCell::new(Vec::<Type>::new());
        astutil::visit(
            &prog,
            &mut |t| {
                if let Term::Function(f) = t {
                    in_terms.borrow_mut().extend(f.parameter_type.iter().cloned());
                    in_terms.borrow_mut().extend(f.return_type.iter().cloned());
                }
            },
            &mut |m| match m {
                Match::Type(t) | Match::As(t, _, _) => in_terms.borrow_mut().push(t.clone()),
                _ => {}
            },
        );
        found.extend(in_terms.into_inner());
        for t in found {
            corpus_types += 1;
            ev.hit("types:stream:corpus-type-node");
            walk_ty(&t, 0, &mut |t, _| ev.hit(&format!("types:corpus-ctor:{}", ctor_name(t))));
            let a = AliasAst { name: Some("t".into()), params: vec![], ty: t };
            // everything the real parser returns satisfies the model's WFType (parseType_wf)
            if model.ask(&format!("wf-alias {}", sx_alias(&a))) != "1" {
                ev.violation(
                    "types kind=parser-output-not-wellformed",
                    &format!("a type in {label} parsed by the implementation is not WFType: {}", sx_alias(&a)),
                    json!({"broken": "C18Types.parseType_wf evaluated on the implementation", "alias": sx_alias(&a), "source_label": label}),
                    false,
                );
            }
            check_alias(ev, model, "corpus-type", &a);
        }
    }
    ev.set_extra("types_corpus_type_nodes", json!(corpus_types));
    ev.set_extra("types_corpus_aliases", json!(corpus_aliases));

    ev.set_extra("types_wall_s_generated_and_corpus", json!(t0.elapsed().as_secs_f64()));
    // (b) malformed stream over the texts collected above
    if !texts.is_empty() {
        for i in 0..budget * 3 {
            let mut r = Rng::for_case(opts.seed ^ 0x7479_7065_5f62, i);
            let base = r.pick(&texts).clone();
            let (kind, src) = mutate(&mut r, &base);
            if paren_depth(&src) > MAX_PAREN_DEPTH + 1 || src.len() > 2_000 {
                ev.hit("types:mutation-skipped-size");
                continue;
            }
            ev.case(&src, true);
            ev.hit("types:stream:mutated");
            ev.hit(&format!("types:mutation:{kind}"));
            let imp = check_text(ev, model, &format!("mutated-{kind}"), &src);
            if let Some(t) = type_part(&src) {
                check_hook(ev, model, &format!("mutated-{kind}"), t);
            }
            // whatever the real parser accepts as an alias is WFType and round-trips
            if let Impl::Ok { first_alias: Some(_), .. } = &imp {
                if let Ok(Ok(prog)) = catch(|| quiver_compiler::parse(&src)) {
                    if let Some(a) = prog.statements.first().and_then(alias_of_statement) {
                        if model.ask(&format!("wf-alias {}", sx_alias(&a))) != "1" {
                            ev.violation(
                                "types kind=parser-output-not-wellformed",
                                &format!("{src:?} is parsed by the implementation to an alias that is not WFType: {}", sx_alias(&a)),
                                json!({"broken": "C18Types.parseType_wf evaluated on the implementation", "alias": sx_alias(&a), "source": src}),
                                false,
                            );
                        } else if i % 4 == 0 {
                            check_alias(ev, model, "mutated-accepted", &a);
                        }
                    }
                }
            }
            ev.sample_sparse(i, 20_000, || json!({"stream": format!("mutated-{kind}"), "source": src, "impl": format!("{imp:?}")}));
            if ev.violation_count() > 25 {
                ev.hit("types:aborted-after-25-violations");
                return;
            }
        }
    }
    ev.set_extra("types_wall_s", json!(t0.elapsed().as_secs_f64()));
}
