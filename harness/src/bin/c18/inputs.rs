//! Input texts for the robustness search.
use qverif::Rng;

/// Split a source into coarse tokens (identifier/number runs, whitespace runs, string literals by
/// the naive quote rule, single punctuation characters). Concatenating them gives the source back.
pub fn tokens(src: &str) -> Vec<String> {
    let cs: Vec<char> = src.chars().collect();
    let mut out = vec![];
    let mut i = 0;
    while i < cs.len() {
        let c = cs[i];
        let start = i;
        if c.is_alphanumeric() || c == '_' {
            while i < cs.len() && (cs[i].is_alphanumeric() || cs[i] == '_') {
                i += 1;
            }
        } else if c.is_whitespace() {
            while i < cs.len() && cs[i].is_whitespace() {
                i += 1;
            }
        } else if c == '"' {
            i += 1;
            while i < cs.len() && cs[i] != '"' {
                if cs[i] == '\\' {
                    i += 1;
                }
                i += 1;
            }
            i = (i + 1).min(cs.len());
        } else if c == '/' && i + 1 < cs.len() && cs[i + 1] == '/' {
            while i < cs.len() && cs[i] != '\n' {
                i += 1;
            }
        } else if (c == '=' || c == '~' || c == '-') && i + 1 < cs.len() && cs[i + 1] == '>' {
            i += 2;
        } else {
            i += 1;
        }
        out.push(cs[start..i].iter().collect());
    }
    out
}

pub const SUBST: &[&str] = &[
    "[", "]", "{", "}", "(", ")", "\"", "\"\"\"", "=>", "~>", "->", "|", ",", "=", "'", "#", "@", "!", "&", "^", ".", "..", "...", "0x", "0xf",
    "0xzz", "-", "1/0", "1.", "1.5", "-0", "\\", "//", "%", "$", "~", "*", "_", "?", ":", ";", "<", ">", "é", "日", "\0", "\u{feff}", "\r", "\n", "\t",
    "'int", "'bin", "__integer_add__", "__nope__", "%num", "%nope", "\"{", "}\"", "\"\\", "\\\"", "\"\"\"\n", "999999999999999999999999999999999999",
    "A", "a", "x?", "x!", "^~", "@~", "!x", "&x", "=x", "=_", "=()", "#'int", "#<'t>", "'t", "<'t>", "(@", "@->",
];

const ALPHA: &[&str] = &[
    "a", "b", "x", "f", "A", "B", "0", "1", "9", " ", " ", "\n", "\t", "\r", "[", "]", "{", "}", "(", ")", "\"", "\"", "\\", "'", "#", "@", "!",
    "&", "^", "~", "=", ">", "<", "|", ",", ".", ":", "/", "-", "_", "?", "*", "%", "$", "+", ";", "`", "é", "日", "😀", "\u{a0}", "\u{2028}",
    "\u{0}", "\u{7f}", "\u{feff}", "\u{10ffff}", "\u{d7ff}", "\u{e000}", "0x", "=>", "~>", "//", "\"\"\"", "...",
];

/// G1 — arbitrary Unicode text.
pub fn arbitrary(r: &mut Rng) -> String {
    let cap = if r.chance(1, 10) { 400 } else { 60 };
    let n = r.usize(cap);
    let mut s = String::new();
    for _ in 0..n {
        if r.chance(1, 12) {
            // any scalar value
            let v = loop {
                let x = r.below(0x110000) as u32;
                if let Some(c) = char::from_u32(x) {
                    break c;
                }
            };
            s.push(v);
        } else {
            s.push_str(*r.pick(ALPHA));
        }
    }
    s
}

/// G2 — a prefix of a corpus program (on a character boundary).
pub fn prefix(r: &mut Rng, src: &str) -> String {
    let cs: Vec<char> = src.chars().collect();
    if cs.is_empty() {
        return String::new();
    }
    let k = r.usize(cs.len() + 1);
    cs[..k].iter().collect()
}

/// G3 — one token deleted / duplicated / substituted / swapped with its neighbour.
pub fn token_edit(r: &mut Rng, src: &str) -> (String, &'static str) {
    let mut ts = tokens(src);
    if ts.is_empty() {
        return (String::new(), "empty");
    }
    let k = r.usize(ts.len());
    let how = match r.below(8) {
        0 | 1 => {
            ts.remove(k);
            "delete"
        }
        2 | 3 => {
            let t = ts[k].clone();
            ts.insert(k, t);
            "duplicate"
        }
        4 | 5 | 6 => {
            ts[k] = r.pick(SUBST).to_string();
            "substitute"
        }
        _ => {
            if k + 1 < ts.len() {
                ts.swap(k, k + 1);
            }
            "swap"
        }
    };
    (ts.concat(), how)
}

// ---- G4: a small grammar of Quiver, then one injected error ------------------------------------

fn ident(r: &mut Rng) -> String {
    r.pick(&["x", "y", "f", "g", "acc", "n", "list", "p", "value_1", "ok?", "go!"]).to_string()
}

fn ty(r: &mut Rng, d: usize) -> String {
    if d == 0 {
        return r.pick(&["'int", "'bin", "'t", "'", "[]", "A", "'ref"]).to_string();
    }
    match r.below(9) {
        0 => format!("[{}, {}]", ty(r, d - 1), ty(r, d - 1)),
        1 => format!("P[x: {}, y: {}]", ty(r, d - 1), ty(r, d - 1)),
        2 => format!("({} | {})", ty(r, d - 1), ty(r, d - 1)),
        3 => format!("(#{} -> {})", ty(r, d - 1), ty(r, d - 1)),
        4 => format!("'list<{}>", ty(r, d - 1)),
        5 => format!("(x: {})", ty(r, d - 1)),
        6 => format!("@{}", ty(r, d - 1)),
        7 => format!("({} & {})", ty(r, d - 1), ty(r, d - 1)),
        _ => ty(r, 0),
    }
}

fn pattern(r: &mut Rng, d: usize) -> String {
    if d == 0 {
        return r.pick(&["x", "_", "1", "0xff", "\"s\"", "*", "A", "&y", "'int", "()"]).to_string();
    }
    match r.below(8) {
        0 => format!("[{}, {}]", pattern(r, d - 1), pattern(r, d - 1)),
        1 => format!("P[a: {}]", pattern(r, d - 1)),
        2 => format!("(a, b: {})", pattern(r, d - 1)),
        3 => format!("({} | {})", pattern(r, d - 1), pattern(r, d - 1)),
        4 => format!("({})z", ty(r, 1)),
        5 => "P*".into(),
        6 => "\"\"\"\n  text\n  \"\"\"".into(),
        _ => pattern(r, 0),
    }
}

fn term(r: &mut Rng, d: usize) -> String {
    if d == 0 {
        return match r.below(14) {
            0 => r.range(-5, 300).to_string(),
            1 => "0x00ff".into(),
            2 => "\"text\"".into(),
            3 => ident(r),
            4 => "$".into(),
            5 => "~".into(),
            6 => "[]".into(),
            7 => "__integer_add__".into(),
            8 => "%num.add".into(),
            9 => "1.5".into(),
            10 => "2/3".into(),
            11 => "A".into(),
            12 => format!("{}.0", ident(r)),
            _ => "^".into(),
        };
    }
    match r.below(16) {
        0 | 1 => format!("[{}, {}]", chain(r, d - 1), chain(r, d - 1)),
        2 => format!("P[a: {}, b: {}]", chain(r, d - 1), chain(r, d - 1)),
        3 => format!("{{ {} }}", seq(r, d - 1)),
        4 => format!("{{ | {} => {} | {} }}", seq(r, d - 1), seq(r, d - 1), seq(r, d - 1)),
        5 => format!("#{} {{ {} }}", ty(r, 1), seq(r, d - 1)),
        6 => format!("#{{ {} }}", seq(r, d - 1)),
        7 => format!("={}", pattern(r, 2)),
        8 => format!("\"a{{ {} }}b\\n\"", chain(r, d - 1)),
        9 => format!("\"\"\"\n  line {{ {} }}\n    more\\s\n  \"\"\"", chain(r, d - 1)),
        10 => format!("@{{ {} }}", seq(r, d - 1)),
        11 => format!("! [{}, {}]", chain(r, d - 1), chain(r, d - 1)),
        12 => format!("&{}", ident(r)),
        13 => format!("~[..., {}]", chain(r, d - 1)),
        14 => format!("#<'t>[{}, 't] -> {}", ty(r, 1), ty(r, 1)),
        _ => term(r, 0),
    }
}

fn chain(r: &mut Rng, d: usize) -> String {
    let n = 1 + r.usize(3);
    let mut s = String::new();
    if r.chance(1, 5) {
        s.push_str(&format!("{} = ", pattern(r, 1)));
    }
    for i in 0..n {
        if i > 0 {
            s.push_str(if r.chance(1, 2) { " ~> " } else { " " });
        }
        s.push_str(&term(r, d));
    }
    s
}

fn seq(r: &mut Rng, d: usize) -> String {
    let n = 1 + r.usize(3);
    (0..n).map(|_| chain(r, d)).collect::<Vec<_>>().join(if r.chance(1, 2) { ", " } else { "\n" })
}

pub fn grammar(r: &mut Rng) -> String {
    let mut s = String::new();
    for _ in 0..r.usize(3) {
        match r.below(6) {
            // a generic alias whose parameter is named like a primitive, referenced as `<'int>`
            3 => {
                let p = *r.pick(&["int", "bin", "ref", "t"]);
                match r.below(3) {
                    0 => s.push_str(&format!("'fn{}<'{p}> = #(<'{p}>) -> (<'{p}>)\n", r.below(3))),
                    1 => s.push_str(&format!("'pr{}<'{p}> = (@(<'{p}>) -> (<'{p}>))\ng = #(<'{p}>) {{ $ }}\n", r.below(3))),
                    _ => s.push_str(&format!("'box{}<'{p}> = Box[<'{p}>, {}]\n", r.below(3), ty(r, 1))),
                }
            }
            // an alias ending in a tuple name (empty named tuple type), then a `(`-initial statement
            4 => {
                s.push_str(&format!("'e{} = {}\n", r.below(3), r.pick(&["Foo[]", "Foo", "A | Foo[]", "[Foo[]] | Bar"])));
                if r.chance(2, 3) {
                    s.push_str(&format!("{} = A[x: 1]\n", r.pick(&["(x)", "()", "(x: 1)", "('int)z", "(a | b)"])));
                }
            }
            5 => s.push_str(&format!("f{} = #'box0<{}> {{ $ }}\n", r.below(3), ty(r, 1))),
            0 => s.push_str(&format!("'alias{} = {}\n", r.below(3), ty(r, 3))),
            1 => s.push_str(&format!("'u<'t> = A | B['t] | {}\n", ty(r, 2))),
            _ => s.push_str("// comment\n"),
        }
    }
    let d = 1 + r.usize(4);
    s.push_str(&seq(r, d));
    s
}

/// G4 — a grammar-generated program with one injected error (or none).
pub fn near_valid(r: &mut Rng) -> (String, &'static str) {
    let g = grammar(r);
    match r.below(5) {
        0 => (g, "as-generated"),
        1 => (prefix(r, &g), "prefix"),
        _ => token_edit(r, &g),
    }
}

/// Does this opener contribute a level of one of the constructs whose parse time doubles per level
/// (finding C18-F1)? Since 33df1c7 the parenthesised TYPE forms are parsed once per level — and with
/// them the parenthesised or-patterns, whose time went into the type alternative tried first —
/// and since 1d93429 so is the process type `(@…` nested in receive position; the two term forms
/// whose *unclosed* nests back-track (`@{ @{ @{ …`, `! [! [! [ …`) still double.
fn is_slow(open: &str) -> bool {
    open.starts_with("@{") || open.starts_with("! [")
}

/// G5 — bracket nesting up to depth 100 (the property's bound), closed, truncated or mismatched.
/// `paren_cap` bounds how many of the levels may be of a form whose parse time doubles with every
/// level (known finding C18-F1, see `is_slow`), so the general stream stays below the hang threshold
/// and a separate small stream (`deep_parens`) exhibits the finding. Parenthesised types (repaired
/// 33df1c7) are NOT capped: they nest up to depth 100 here and must answer at once.
pub fn nesting(r: &mut Rng, paren_cap: usize) -> (String, usize) {
    let depth = match r.below(6) {
        0 => 100,
        1 => 99,
        2 => 50 + r.usize(50),
        _ => 1 + r.usize(100),
    };
    let kinds: &[(&str, &str)] = &[
        ("[", "]"), ("{ ", " }"), ("#{ ", " }"), ("P[a: ", "]"), ("[1, ", "]"), ("x { | ", " }"), ("\"{ ", " }\""), ("@{ ", " }"),
        ("! [", "]"), ("{ a => ", " }"), ("f [", "] g"), ("~[..., ", "]"),
    ];
    let tkinds: &[(&str, &str)] = &[("[", "]"), ("(", ")"), ("P[x: ", "]"), ("'list<", ">"), ("(#", " -> 'int)"), ("(x: ", ")"), ("(@", ")"), ("('int | ", ")"), ("P(x: ", ")")];
    let pkinds: &[(&str, &str)] = &[("[", "]"), ("P[a: ", "]"), ("(a: ", ")"), ("(", " | 1)"), ("[_, ", "]"), ("P(a: ", ")")];
    let (table, head, leaf): (&[(&str, &str)], &str, &str) = match r.below(4) {
        0 => (tkinds, "'t = ", "'int"),
        1 => (pkinds, "=", "x"),
        _ => (kinds, "", "1"),
    };
    let uniform = r.chance(1, 2);
    let k0 = r.usize(table.len());
    let mut open = String::from(head);
    let mut close = String::new();
    let mut parens = 0;
    for _ in 0..depth {
        let (mut o, mut c) = if uniform { table[k0] } else { table[r.usize(table.len())] };
        if is_slow(o) {
            if parens >= paren_cap {
                (o, c) = table[0];
            } else {
                parens += 1;
            }
        }
        open.push_str(o);
        close.insert_str(0, c);
    }
    let full = format!("{open}{leaf}{close}");
    let s = match r.below(6) {
        0 => open,                                         // nothing closed
        1 => format!("{open}{leaf}"),                      // leaf, nothing closed
        2 => prefix(r, &full),                             // truncated somewhere
        3 => full.chars().rev().collect(),                 // mirrored
        _ => full,
    };
    (s, depth)
}

/// Nesting beyond the hang threshold of the constructs of finding C18-F1 that still double per level.
pub fn deep_parens(r: &mut Rng) -> String {
    let depth = 30 + r.usize(71);
    match r.below(2) {
        0 => format!("{}1", "@{ ".repeat(depth)),
        _ => format!("{}1", "! [".repeat(depth)),
    }
}

/// The parenthesised type forms repaired by 33df1c7, at depths far beyond the old hang threshold
/// (18 levels took 8 s): closed, unclosed, and in the three positions a type can stand in.
pub fn deep_type_parens(r: &mut Rng) -> String {
    let depth = 30 + r.usize(71);
    let forms: &[(&str, &str)] = &[
        ("(", ")"), ("(#", " -> 'int)"), ("('bin | ", ")"), ("(x: ", ")"), ("P(x: ", ")"), ("(#'int -> ", ")"), ("('int & ", ")"),
        // process types, nested in the receive position (repaired 1d93429)
        ("(@", ")"), ("(@", " -> 'int)"),
    ];
    let uniform = r.chance(2, 3);
    let k0 = r.usize(forms.len());
    let (mut open, mut close) = (String::new(), String::new());
    for _ in 0..depth {
        let (o, c) = if uniform { forms[k0] } else { forms[r.usize(forms.len())] };
        open.push_str(o);
        close.insert_str(0, c);
    }
    let ty = match r.below(5) {
        0 => format!("{open}'int"),
        1 => format!("{open}'int{}", &close[..close.len() / 2]),
        _ => format!("{open}'int{close}"),
    };
    match r.below(6) {
        0 => format!("f = #{ty} {{ $ }}"),
        1 => format!("x ~> =({ty})z"),
        // the or-pattern forms (their time went into the type alternative that is tried first)
        2 => format!("x ~> ={}y{}", "(".repeat(depth), " | 1)".repeat(depth)),
        3 => format!("{}x{} = 1", "(a | ".repeat(depth), ")".repeat(depth)),
        _ => format!("'t = {ty}"),
    }
}

/// G7 — generic functions calling generic functions (seeded trial C18-6: `unify` looped on a
/// self-binding that only appears after resolution): 1–3 levels, every function generic over the SAME
/// 2–3 type-parameter names, parameters that are bare variables or unions mentioning a variable,
/// each level handing its arguments on in a PERMUTED order, a final call with int / binary values.
/// Most instances are well typed (the unions absorb the values), the rest must be compile errors.
pub fn generic_calls(r: &mut Rng) -> (String, &'static str) {
    let names: &[&str] = if r.chance(1, 5) { &["t", "u", "v"] } else { &["a", "b", "c"] };
    let nvars = 2 + r.usize(2);
    let vars = &names[..nvars];
    let arity = nvars + r.usize(2);
    let levels = 1 + r.usize(3);
    let header = format!("#<{}>", vars.iter().map(|v| format!("'{v}")).collect::<Vec<_>>().join(", "));
    let mut stmts = vec![];
    for l in 0..levels {
        let params: Vec<String> = (0..arity)
            .map(|p| {
                let v = if p < nvars && r.chance(3, 4) { vars[p] } else { vars[r.usize(nvars)] };
                match if p < nvars { r.below(4) } else { 2 + r.below(5) } {
                    0..=2 => format!("'{v}"),
                    3 => format!("'{v} | 'bin"),
                    4 => format!("'{v} | 'bin | 'int"),
                    5 => "'int".to_string(),
                    _ => format!("'{v} | 'int"),
                }
            })
            .collect();
        let body = if l == 0 {
            format!("{{ ${} }}", r.usize(arity))
        } else {
            let mut perm: Vec<usize> = (0..arity).collect();
            match r.below(4) {
                0 => {}                                   // straight through
                1 => perm.swap(0, 1),                     // the first two crosswise
                _ => r.shuffle(&mut perm),
            }
            format!("{{ [{}] f{} }}", perm.iter().map(|i| format!("${i}")).collect::<Vec<_>>().join(", "), l - 1)
        };
        stmts.push(format!("f{l} = {header}[{}] {body}", params.join(", ")));
    }
    let vals: Vec<&str> = (0..arity).map(|_| *r.pick(&["1", "0x00", "0x01", "7", "0xff"])).collect();
    stmts.push(format!("[{}] f{}", vals.join(", "), levels - 1));
    (stmts.join(if r.chance(1, 2) { ", " } else { "\n" }), "generic-calls")
}

/// Numbers at and beyond the machine-integer boundaries, as decimal text.
pub fn big_number(r: &mut Rng) -> String {
    match r.below(14) {
        0 => "18446744073709551615".into(),                 // usize::MAX
        1 => "18446744073709551616".into(),                 // usize::MAX + 1
        2 => "9223372036854775807".into(),                  // isize::MAX
        3 => "9223372036854775808".into(),
        4 => "4294967295".into(),
        5 => "4294967296".into(),
        6 => "340282366920938463463374607431768211456".into(), // 2^128
        7 => "9".repeat(1 + r.usize(60)),
        8 => "0".repeat(1 + r.usize(40)),
        9 => format!("{}1", "0".repeat(r.usize(30))),
        10 => "99999999999999999999999999".into(),
        11 => "2147483648".into(),
        12 => "65536".into(),
        _ => "1".repeat(200 + r.usize(2000)),
    }
}

/// G6 — a huge number in every numeric position of the grammar (accessor indices, `$N`, tuple
/// indices, select timeouts, process references, integer / decimal / fraction / hex literals and
/// patterns, type cycles), or in place of a numeric token of a corpus program.
pub fn numeric(r: &mut Rng, base: &str) -> (String, &'static str) {
    let n = big_number(r);
    let m = big_number(r);
    match r.below(22) {
        0 => (format!("$.{n}"), "accessor"),
        1 => (format!("${n}"), "param-index"),
        2 => (format!("x.{n}.{m}"), "accessor"),
        3 => (format!("~.{n}"), "accessor"),
        4 => (format!("%num.{n}"), "accessor"),
        5 => (format!("!{n}"), "select-timeout"),
        6 => (format!("! [{n}, p]"), "select-timeout"),
        7 => (format!("@{n}"), "process-ref"),
        8 => (format!("!@{n}"), "process-ref"),
        9 => (format!("{n}"), "integer"),
        10 => (format!("-{n}"), "integer"),
        11 => (format!("{n}.{m}"), "decimal"),
        12 => (format!("{n}/{m}"), "fraction"),
        13 => (format!("-{n}/{m}"), "fraction"),
        14 => (format!("0x{}", if n.len() % 2 == 0 { n.clone() } else { format!("0{n}") }), "hex"),
        15 => (format!("x ~> ={n}"), "pattern-integer"),
        16 => (format!("x ~> ={n}.{m}"), "pattern-decimal"),
        17 => (format!("x ~> ={n}/{m}"), "pattern-fraction"),
        18 => (format!("'t = [^{n}]"), "type-cycle"),
        19 => (format!("#{{ $.{n} }}"), "accessor"),
        20 => (format!("&x.{n}"), "accessor"),
        _ => {
            // replace one numeric token of a corpus program
            let mut ts = tokens(base);
            let idx: Vec<usize> = ts.iter().enumerate().filter(|(_, t)| !t.is_empty() && t.chars().all(|c| c.is_ascii_digit())).map(|(i, _)| i).collect();
            if idx.is_empty() {
                return (format!("[{n}, {m}]"), "integer");
            }
            let k = idx[r.usize(idx.len())];
            ts[k] = n;
            (ts.concat(), "corpus-number")
        }
    }
}

// ---- G7: the type language through the compiler ---------------------------------------------------
// Parser-accepted, mostly type-correct programs made of type aliases (generic, recursive, unions,
// tuples with positional and named fields, partial types, type spreads over aliases in tuple AND
// partial types, intersections, function and process types) used in alias, parameter, return,
// pattern and receive positions, with at most one mutation (unresolved alias, missing field name,
// duplicate field, wrong type-argument arity, constructor-less cycle, spread of a non-tuple).

pub struct Alias {
    name: String,
    arity: usize,
    /// does it resolve to tuple-like types only (a sensible spread target)?
    tuple_like: bool,
    /// a single tuple/partial whose fields are all named (the ordinary spread target)
    all_named: bool,
}

fn alias_ref(r: &mut Rng, a: &Alias, generic_param: bool) -> String {
    if a.arity == 0 {
        format!("'{}", a.name)
    } else {
        let arg = if generic_param && r.chance(1, 2) { "'e".to_string() } else { r.pick(&["'int", "'bin", "[]", "A"]).to_string() };
        format!("'{}<{}>", a.name, arg)
    }
}

fn field_name(r: &mut Rng) -> &'static str {
    *r.pick(&["x", "y", "z", "tag", "head", "tail", "value"])
}

fn tleaf(r: &mut Rng, aliases: &[Alias], generic_param: bool) -> String {
    match r.below(12) {
        0..=2 => "'int".into(),
        3 => "'bin".into(),
        4 => "[]".into(),
        5 => "A".into(),
        6 => "'ref".into(),
        7 if generic_param => "'e".into(),
        _ => {
            if aliases.is_empty() {
                "'int".into()
            } else {
                let a = &aliases[r.usize(aliases.len())];
                alias_ref(r, a, generic_param)
            }
        }
    }
}

fn spread(r: &mut Rng, aliases: &[Alias], generic_param: bool) -> Option<String> {
    // mostly the ordinary case (all-named single tuple), sometimes positional / union / anything
    let strict = !r.chance(1, 4);
    let c: Vec<&Alias> = aliases.iter().filter(|a| if strict { a.all_named } else { a.tuple_like || r.chance(1, 6) }).collect();
    if c.is_empty() {
        return None;
    }
    let a = c[r.usize(c.len())];
    Some(format!("...{}", alias_ref(r, a, generic_param)))
}

/// A tuple-like type (tuple / named tuple / partial, possibly with a spread).
fn ttuple(r: &mut Rng, aliases: &[Alias], d: usize, gp: bool) -> String {
    let sub = |r: &mut Rng| if d == 0 { tleaf(r, aliases, gp) } else { gen_type(r, aliases, d - 1, gp) };
    let named = |r: &mut Rng| format!("{}: {}", field_name(r), sub(r));
    match r.below(16) {
        0 => format!("[{}, {}]", sub(r), sub(r)),
        1 => format!("[{}, {}]", named(r), named(r)),
        2 => format!("P[{}]", sub(r)),
        3 => format!("Q[{}, {}]", named(r), named(r)),
        4 => format!("({})", named(r)),
        5 => format!("P({}, {})", named(r), named(r)),
        6 => "()".into(),
        7 => format!("[{}, {}]", sub(r), named(r)),
        // spreads
        8 => match spread(r, aliases, gp) { Some(s) => format!("[{s}, {}]", named(r)), None => format!("[{}]", sub(r)) },
        9 => match spread(r, aliases, gp) { Some(s) => format!("R[{s}]"), None => "R".into() },
        10 => match spread(r, aliases, gp) { Some(s) => format!("({s}, {})", named(r)), None => format!("({})", named(r)) },
        11 => match spread(r, aliases, gp) { Some(s) => format!("P({s}, {})", named(r)), None => format!("P({})", named(r)) },
        12 => match spread(r, aliases, gp) { Some(s) => format!("[{}, {s}]", sub(r)), None => format!("[{}]", sub(r)) },
        13 => {
            // 'alias[..., extra]
            let c: Vec<&Alias> = aliases.iter().filter(|a| a.tuple_like && a.arity == 0).collect();
            if c.is_empty() { format!("[{}]", sub(r)) } else { format!("'{}[..., {}]", c[r.usize(c.len())].name, named(r)) }
        }
        14 => match (spread(r, aliases, gp), spread(r, aliases, gp)) { (Some(a), Some(b)) => format!("({a}, {b}, {})", named(r)), _ => "()".into() },
        _ => format!("P[{}, {}]", sub(r), sub(r)),
    }
}

pub fn gen_type(r: &mut Rng, aliases: &[Alias], d: usize, gp: bool) -> String {
    if d == 0 {
        return tleaf(r, aliases, gp);
    }
    match r.below(14) {
        0..=5 => ttuple(r, aliases, d, gp),
        6 => format!("({} | {})", gen_type(r, aliases, d - 1, gp), gen_type(r, aliases, d - 1, gp)),
        7 => format!("(A | B[{}] | {})", gen_type(r, aliases, d - 1, gp), ttuple(r, aliases, d - 1, gp)),
        8 => format!("({} & {})", ttuple(r, aliases, d - 1, gp), ttuple(r, aliases, d - 1, gp)),
        9 => format!("(#{} -> {})", gen_type(r, aliases, d - 1, gp), gen_type(r, aliases, d - 1, gp)),
        10 => format!("@{}", tleaf(r, aliases, gp)),
        11 => format!("(@{} -> {})", tleaf(r, aliases, gp), tleaf(r, aliases, gp)),
        12 => "(@-> 'int)".into(),
        _ => tleaf(r, aliases, gp),
    }
}

pub fn typed_program(r: &mut Rng) -> (String, &'static str) {
    let mut aliases: Vec<Alias> = vec![];
    let mut lines: Vec<String> = vec![];
    let n_alias = 1 + r.usize(5);
    for i in 0..n_alias {
        let name = format!("t{i}");
        let arity = if r.chance(1, 4) { 1 } else { 0 };
        let gp = arity == 1;
        let params = if gp { "<'e>" } else { "" };
        let mut all_named = false;
        let (body, tuple_like) = match r.below(12) {
            10 | 11 => {
                all_named = true;
                (format!("Rec[x: {}, y: {}]", tleaf(r, &aliases, gp), tleaf(r, &aliases, gp)), true)
            }
            // recursive union through a constructor
            0 => {
                let me = if gp { format!("'{name}<'e>") } else { format!("'{name}") };
                (format!("Nil | Cons[{}, {me}]", if gp { "'e" } else { "'int" }), true)
            }
            1 => (format!("A[{}] | B[x: {}] | C", tleaf(r, &aliases, gp), tleaf(r, &aliases, gp)), true),
            2 => (format!("Pair[{}, {}]", tleaf(r, &aliases, gp), tleaf(r, &aliases, gp)), true),
            3 => {
                all_named = true;
                (format!("Rec[x: {}, y: {}]", tleaf(r, &aliases, gp), tleaf(r, &aliases, gp)), true)
            }
            4 => {
                all_named = true;
                (format!("(x: {})", tleaf(r, &aliases, gp)), true)
            }
            5 | 6 => {
                let d = 1 + r.usize(2);
                (ttuple(r, &aliases, d, gp), true)
            }
            _ => {
                let d = 1 + r.usize(3);
                (gen_type(r, &aliases, d, gp), false)
            }
        };
        lines.push(format!("'{name}{params} = {body}"));
        aliases.push(Alias { name, arity, tuple_like, all_named });
    }
    let uses = 1 + r.usize(3);
    for k in 0..uses {
        let d = 1 + r.usize(3);
        let t = gen_type(r, &aliases, d, false);
        let u = gen_type(r, &aliases, 1, false);
        lines.push(match r.below(9) {
            0 => format!("f{k} = #{} {{ $ }}", if t.starts_with('(') || t.starts_with('\'') || t.starts_with('[') { t.clone() } else { format!("({t})") }),
            1 => format!("g{k} = #({t}) -> {} {{ $ }}", if u.starts_with('(') || u.starts_with('\'') || u.starts_with('[') { u.clone() } else { format!("({u})") }),
            2 => format!("h{k} = #'int {{ $ ~> =({t}) }}"),
            3 => format!("m{k} = #'int {{ ({t})z = $, z }}"),
            4 => format!("p{k} = @({t}) {{ $ }}"),
            5 => format!("r{k} = #{{ !#({t}) }}"),
            6 => format!("s{k} = #<'e>[({t}), 'e] -> 'e {{ $.1 }}"),
            7 => format!("w{k} = #({t}) {{ | =({u}) => 1 | 2 }}"),
            _ => format!("k{k} = #[({t}), ({u})] {{ $.0 }}"),
        });
    }
    let mut src = lines.join("\n");
    // at most one mutation
    let how = match r.below(12) {
        0 => {
            // unresolved alias
            if let Some(p) = src.find("'t") {
                src.replace_range(p..p + 3, "'nope");
            }
            "unresolved-alias"
        }
        1 => {
            // drop one field name (`x: ` → ``)
            let names = ["x: ", "y: ", "z: ", "tag: ", "head: ", "tail: ", "value: "];
            let hits: Vec<(usize, usize)> = names.iter().flat_map(|n| src.match_indices(n).map(|(i, m)| (i, m.len())).collect::<Vec<_>>()).collect();
            if !hits.is_empty() {
                let (i, l) = hits[r.usize(hits.len())];
                src.replace_range(i..i + l, "");
            }
            "missing-field-name"
        }
        2 => {
            // duplicate a named field
            if let Some(p) = src.find("x: ") {
                src.insert_str(p, "x: 'int, ");
            }
            "duplicate-field"
        }
        3 => {
            src = src.replace("<'int>", "<'int, 'bin>");
            "wrong-arity"
        }
        4 => {
            lines.push("'loop = 'loop".into());
            src = format!("'loop = 'loop\n{src}\nq = #'loop {{ $ }}");
            "constructorless-cycle"
        }
        5 => {
            src = format!("'aa = 'bb\n'bb = 'aa\n{src}\nq = #('aa) {{ $ }}");
            "mutual-cycle"
        }
        6 => {
            src = src.replacen("...'t", "...'int", 1);
            "spread-of-non-tuple"
        }
        7 => {
            // generic used without arguments / non-generic with arguments
            if src.contains("<'int>") { src = src.replacen("<'int>", "", 1) } else { src = src.replacen("'t0", "'t0<'int>", 1) }
            "wrong-arity"
        }
        _ => "as-generated",
    };
    (src, how)
}

// ---- G8: dispatch on a typed parameter -------------------------------------------------------------
// Function literals with a tuple parameter type whose branch patterns have an arity deliberately off
// by -1..+2 from the parameter's (same name / both unnamed), with nested tuple patterns in every
// position: statically dead branches through the compile half.

fn dpat(r: &mut Rng, d: usize) -> String {
    if d == 0 {
        return r.pick(&["a", "b", "_", "1", "0x00", "Nil", "[c]", "'int", "[]", "\"s\"", "x", "P[c]", "(y: c)"]).to_string();
    }
    match r.below(8) {
        0 => format!("[{}]", dpat(r, d - 1)),
        1 => format!("[{}, {}]", dpat(r, d - 1), dpat(r, d - 1)),
        2 => format!("P[{}]", dpat(r, d - 1)),
        3 => format!("Q[x: {}, y: {}]", dpat(r, d - 1), dpat(r, d - 1)),
        4 => format!("({} | {})", dpat(r, 0), dpat(r, 0)),
        5 => format!("(x: {})", dpat(r, d - 1)),
        _ => dpat(r, 0),
    }
}

pub fn dispatch_program(r: &mut Rng) -> (String, &'static str) {
    let n = r.usize(4);
    let tys = ["'int", "'bin", "[]", "['int]", "P['int]", "(A | B['int])", "['int, 'int]", "Nil"];
    let named = r.chance(1, 3);
    let with_field_names = r.chance(1, 4);
    let fields: Vec<String> = (0..n)
        .map(|i| if with_field_names { format!("f{i}: {}", r.pick(&tys)) } else { r.pick(&tys).to_string() })
        .collect();
    let name = if named { "T" } else { "" };
    let param = if n == 0 && named { "T".to_string() } else { format!("{name}[{}]", fields.join(", ")) };
    let param = if r.chance(1, 8) { format!("({param} | Nil)") } else { param };
    let branches = 1 + r.usize(3);
    let mut bs = vec![];
    let mut how = "arity-exact";
    for _ in 0..branches {
        let delta: i64 = *r.pick(&[0, 0, 0, 1, 1, 2, -1, 3]);
        if delta != 0 {
            how = "arity-off";
        }
        let m = (n as i64 + delta).max(0) as usize;
        let pats: Vec<String> = (0..m)
            .map(|i| {
                let d = r.usize(3);
                let p = dpat(r, d);
                if with_field_names && r.chance(3, 4) { format!("f{i}: {p}") } else { p }
            })
            .collect();
        let pname = if named && !r.chance(1, 6) { "T" } else if r.chance(1, 8) { "U" } else { "" };
        let pat = if m == 0 && !pname.is_empty() { pname.to_string() } else { format!("{pname}[{}]", pats.join(", ")) };
        bs.push(format!("={pat} => {}", r.below(9)));
    }
    let body = if bs.len() == 1 && r.chance(1, 2) { format!("{{ {} }}", bs[0]) } else { format!("{{ | {} }}", bs.join(" | ")) };
    let src = match r.below(4) {
        0 => format!("f = #{param} {body}"),
        1 => format!("f = #{param} {body}\nx = {name}[] ~> f"),
        2 => format!("'p = {param}\nf = #'p {body}"),
        _ => format!("g = #{{ #{param} {body} }}"),
    };
    (src, how)
}
