//! The C06 oracle evaluated directly on a real `Executor` between time slices.
use qverif::run::Exec;
use std::collections::{HashMap, HashSet};

/// Shadow copy of the bytes of every slot, taken when the slot became reachable.
#[derive(Default)]
pub struct Shadow {
    pub bytes: HashMap<usize, Vec<u8>>,
    pub slots_seen: u64,
    pub max_reachable: usize,
    pub reuse_seen: u64,
    was_freed: HashSet<usize>,
}

/// Canonical heap view: multiset of (bytes, count, reachable) over un-freed slots + pool sizes.
pub fn canon_view(ex: &Exec) -> String {
    let v = ex.verif_heap_view();
    let reach = ex.reachable_heap_indices();
    let mut es: Vec<String> = vec![];
    for i in 0..v.refcounts.len() {
        if v.freed[i] {
            continue;
        }
        es.push(format!("{}:{}:{}", qverif::hex(&v.bytes[i]), v.refcounts[i], if reach.contains(&i) { 1 } else { 0 }));
    }
    es.sort();
    format!("view=({}) free={} pending={} size={}", es.join(" "), v.free.len(), v.pending_free.len(), v.refcounts.len())
}

/// All clauses of the property that can be read off an executor that is between time slices.
/// Returns `Err((kind, detail))` on the first violated clause.
pub fn check(ex: &Exec, sh: &mut Shadow) -> Result<(), (String, String)> {
    if let Err(e) = ex.check_refcounts() {
        let kind = if e.contains("reachable=false") { "leak" } else { "premature" };
        return Err((format!("check_refcounts-{kind}"), e));
    }
    let v = ex.verif_heap_view();
    let reach = ex.reachable_heap_indices();
    let n = v.refcounts.len();
    if v.freed.len() != n || v.bytes.len() != n {
        return Err(("shape".into(), format!("refcounts {} freed {} heap {}", n, v.freed.len(), v.bytes.len())));
    }
    for i in 0..n {
        let counted = v.refcounts[i] > 0;
        let live = reach.contains(&i);
        if counted != live {
            return Err((if counted { "leak".into() } else { "premature".into() }, format!("slot {i}: count {} reachable {live}", v.refcounts[i])));
        }
        if v.freed[i] && live {
            return Err(("use-after-free".into(), format!("slot {i} is freed and reachable")));
        }
        if v.freed[i] && v.refcounts[i] != 0 {
            return Err(("freed-counted".into(), format!("slot {i} freed with count {}", v.refcounts[i])));
        }
    }
    for r in &reach {
        if *r >= n {
            return Err(("dangling".into(), format!("reachable index {r} beyond heap {n}")));
        }
    }
    let mut seen = HashSet::new();
    for j in &v.free {
        if *j >= n || !v.freed[*j] {
            return Err(("free-not-freed".into(), format!("slot {j} in the reuse pool is not marked freed")));
        }
        if !seen.insert(*j) {
            return Err(("free-duplicate".into(), format!("slot {j} twice in the reuse pool")));
        }
        if reach.contains(j) {
            return Err(("free-reachable".into(), format!("slot {j} in the reuse pool is reachable")));
        }
    }
    for i in 0..n {
        if v.freed[i] && !seen.contains(&i) {
            return Err(("freed-not-in-pool".into(), format!("slot {i} is freed but not in the reuse pool")));
        }
    }
    for j in &v.pending_free {
        if *j >= n {
            return Err(("pending-range".into(), format!("pending_free entry {j} beyond heap {n}")));
        }
    }
    // content stability
    sh.bytes.retain(|k, _| reach.contains(k));
    for i in &reach {
        match sh.bytes.get(i) {
            Some(b) => {
                if *b != v.bytes[*i] {
                    return Err((
                        "bytes-changed".into(),
                        format!("slot {i} was {} and is now {} while reachable", qverif::hex(b), qverif::hex(&v.bytes[*i])),
                    ));
                }
            }
            None => {
                sh.bytes.insert(*i, v.bytes[*i].clone());
                sh.slots_seen += 1;
                if sh.was_freed.remove(i) {
                    sh.reuse_seen += 1;
                }
            }
        }
    }
    for i in 0..n {
        if v.freed[i] {
            sh.was_freed.insert(i);
        }
    }
    sh.max_reachable = sh.max_reachable.max(reach.len());
    Ok(())
}

/// After the system went idle: nothing unreachable keeps a count, and the queue drains at the
/// next step (`pending_free` may be non-empty now; `leftover` reports un-freed unreachable slots
/// that are not queued either — stranded allocations).
pub fn stranded(ex: &Exec) -> Vec<usize> {
    let v = ex.verif_heap_view();
    let reach = ex.reachable_heap_indices();
    let pend: HashSet<usize> = v.pending_free.iter().copied().collect();
    (0..v.refcounts.len()).filter(|i| !v.freed[*i] && !reach.contains(i) && !pend.contains(i)).collect()
}

/// Is the repair of F17 (`release_dead_roots`) present in the source under test?
pub fn dead_roots_repaired() -> bool {
    std::fs::read_to_string(format!("{}/quiver-core/src/executor.rs", qverif::repo()))
        .map(|t| t.contains("fn release_dead_roots"))
        .unwrap_or(false)
}

fn mentions_heap(v: &quiver_core::value::Value) -> bool {
    use quiver_core::value::{Binary, Value};
    match v {
        Value::Binary(Binary::Heap(_)) => true,
        Value::Tuple(_, fs) | Value::Function(_, fs) => fs.iter().any(mentions_heap),
        _ => false,
    }
}

/// F17: heap binaries a FINISHED process still roots besides its result (operands beneath the
/// result, and - if it cannot be resumed - locals, mailbox, select state, awaited results).
/// Returns a description of the first such root.
pub fn dead_roots(ex: &Exec) -> Option<String> {
    for pid in ex.verif_process_ids() {
        let Some(p) = ex.get_process(pid) else { continue };
        if p.result.is_none() || !p.frames.is_empty() {
            continue;
        }
        if p.stack.iter().any(mentions_heap) {
            return Some(format!("finished process {pid}: {} operand(s) left on the stack hold heap binaries", p.stack.len()));
        }
        if p.persistent {
            continue;
        }
        if p.locals.iter().any(mentions_heap) {
            return Some(format!("finished process {pid}: locals hold heap binaries"));
        }
        if p.mailbox.iter().any(mentions_heap) {
            return Some(format!("finished process {pid}: {} unreceivable message(s) in the mailbox hold heap binaries", p.mailbox.len()));
        }
        if let Some(st) = &p.select_state
            && (st.sources.iter().any(mentions_heap) || st.receiving.iter().any(|(_, m)| mentions_heap(m)))
        {
            return Some(format!("finished process {pid}: select state holds heap binaries"));
        }
        if p.awaiting.values().flatten().any(mentions_heap) {
            return Some(format!("finished process {pid}: stored awaited results hold heap binaries"));
        }
    }
    None
}

/// Does the source under test have `SelectState.unanswered` (notes/C05-fixes/01: a select with
/// process sources waits for its await answers)?
pub fn select_waits() -> bool {
    std::fs::read_to_string(format!("{}/quiver-core/src/process.rs", qverif::repo()))
        .map(|t| t.contains("pub unanswered"))
        .unwrap_or(false)
}

/// `Executor::notify_pending` exists only with that repair. The inherent method wins over this
/// trait method when it exists; on a tree without it the call resolves here and does nothing.
pub trait NotifyPendingFallback {
    fn notify_pending(&mut self, _awaiter: usize, _awaited: usize) {}
}
impl NotifyPendingFallback for Exec {}
