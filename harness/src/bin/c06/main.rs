//! C06 — binary heap accounting is exact: no leak, no premature free, no aliasing damage.
//!
//! 1. regression corpus (/verif/corpus/C06/*.json): the reproducing programs of the repaired
//!    defects F7, F14, F15, F16 under many schedules;
//! 2. lock-step correspondence of M-Heap (`qm_c06`) with a real `Executor` on hand-made bytecode,
//!    one instruction per step, canonical heap view compared after every step;
//! 3. generated source programs under the deterministic simulator, quantum 1..3, random schedules,
//!    property oracle on the stepped executor after EVERY worker step, final values compared with a
//!    host-side shadow computation, reclamation checked after the system went idle.
mod lockstep;
mod oracle;
mod progs;
mod simrun;

use qverif::sim::Policy;
use qverif::{Ev, Model, Opts, Rng};
use serde_json::json;

fn run_sim_case(ev: &mut Ev, prog: &progs::Program, r: &mut Rng, schedules: usize, tag: &str) {
    for k in 0..schedules {
        let workers = 1 + r.usize(4);
        let quantum = *r.pick(&[Some(1usize), Some(1), Some(2), Some(3), None]);
        let policy = Policy::random(r, workers);
        let cfg = simrun::RunCfg { workers, quantum, policy, sched_seed: r.next(), max_steps: 400_000 };
        let out = qverif::catch(|| simrun::run(prog, &cfg));
        ev.hit(&format!("sim:family:{}", prog.family));
        ev.hit(&format!("sim:workers:{workers}"));
        ev.hit(&format!("sim:quantum:{}", quantum.map(|q| q.to_string()).unwrap_or("default".into())));
        match out {
            Ok(Ok(st)) => {
                if let Some(d) = &st.dead_roots {
                    ev.hit(&format!("sim:dead-roots:{}", prog.family));
                    ev.violation(
                        "oracle kind=dead-roots",
                        &format!("C06 F17: storage nothing can use any more is never reclaimed - {d}"),
                        json!({"kind": "sim", "family": prog.family, "lines": prog.lines, "workers": workers, "quantum": quantum, "sched_seed": cfg.sched_seed, "detail": d}),
                        true,
                    );
                }
                ev.add("sim:worker_steps_checked", st.worker_steps);
                ev.add("sim:slots_observed", st.slots_seen);
                ev.add("sim:slot_reuses_observed", st.reuse_seen);
                ev.add("sim:lines_evaluated", st.lines_done as u64);
                for o in &st.outcomes {
                    let k = o.split(':').next().unwrap_or("?");
                    ev.hit(&format!("sim:outcome:{k}"));
                }
                ev.case(&(tag, &prog.lines, k, cfg.sched_seed), st.slots_seen > 0);
                let lines = prog.lines.clone();
                let fam = prog.family;
                ev.sample_sparse(ev.evaluations, 97, || json!({"family": fam, "lines": lines, "workers": workers, "quantum": quantum, "outcomes": st.outcomes, "worker_steps": st.worker_steps, "slots": st.slots_seen}));
            }
            Ok(Err(f)) => {
                let sig = format!("oracle kind={} family={}", f.kind, prog.family);
                ev.violation(&sig, &format!("C06 {}: {}", f.kind, f.detail), f.replay, f.found);
            }
            Err(p) => {
                let sig = format!("harness-panic family={}", prog.family);
                ev.violation(&sig, &format!("panic outside a simulator step: {p}"), json!({"lines": prog.lines, "panic": p}), false);
            }
        }
    }
}

fn corpus(ev: &mut Ev, opts: &Opts) {
    let dir = "/verif/corpus/C06";
    let Ok(rd) = std::fs::read_dir(dir) else { return };
    let mut files: Vec<_> = rd.filter_map(|e| e.ok()).map(|e| e.path()).filter(|p| p.extension().map(|x| x == "json").unwrap_or(false)).collect();
    files.sort();
    for (fi, f) in files.iter().enumerate() {
        let Ok(text) = std::fs::read_to_string(f) else { continue };
        let Ok(j) = serde_json::from_str::<serde_json::Value>(&text) else { continue };
        let lines: Vec<String> = j["lines"].as_array().map(|a| a.iter().filter_map(|x| x.as_str().map(String::from)).collect()).unwrap_or_default();
        let expected: Vec<Option<String>> = j["expected"].as_array().map(|a| a.iter().map(|x| x.as_str().map(String::from)).collect()).unwrap_or_else(|| vec![None; lines.len()]);
        let family: &'static str = Box::leak(format!("corpus:{}", j["name"].as_str().unwrap_or("?")).into_boxed_str());
        let prog = progs::Program { family, lines, expected, confluent: true, must_reject: false };
        let schedules = j["schedules"].as_u64().unwrap_or(20) as usize;
        let mut r = Rng::for_case(opts.seed ^ 0xC06C, fi as u64);
        run_sim_case(ev, &prog, &mut r, opts.tier.pick(schedules, schedules * 5), "corpus");
    }
}

fn main() {
    qverif::quiet_panics();
    let opts = Opts::parse();
    let mut ev = Ev::new("C06", &opts);
    ev.rule = "a case is (a) one hand-made bytecode program driven in lock step (distinct by the model \
               request trace), or (b) one (source program, schedule) pair under the simulator (distinct by \
               program text + schedule seed); non-trivial when at least one heap slot was allocated and \
               observed reachable"
        .into();
    let b = qverif::run::builtins();

    // 1. regression corpus first
    corpus(&mut ev, &opts);

    // 2. lock-step correspondence
    if let Some(mp) = &opts.model {
        let mut model = Model::spawn(mp);
        let n = opts.tier.pick(3000u64, 40000);
        for i in 0..n {
            let mut r = Rng::for_case(opts.seed ^ 0x10C5, i);
            match lockstep::run_case(&mut r, &b, &mut model, &mut ev, i) {
                Ok(_) => {}
                Err((sig, detail, replay, found)) => {
                    ev.violation(&sig, &format!("C06 lock-step: {detail}"), replay, found);
                    // the model process keeps its state; re-synchronise on the next (init)
                }
            }
            if ev.violation_count() >= 3 {
                break;
            }
        }
        // 2b. the tail-recursive receive loop: N and 50 N iterations, same heap bound
        let n_small = 20usize;
        let n_large = opts.tier.pick(1000usize, 5000);
        let mut sizes = vec![];
        for (k, (n, store)) in [(n_small, false), (n_small, true), (n_large, false), (n_large, true)].into_iter().enumerate() {
            let mut r = Rng::for_case(opts.seed ^ 0x4EC7, k as u64);
            match lockstep::run_recv_loop(&mut r, &b, &mut model, &mut ev, n, store) {
                Ok(sz) => sizes.push(json!({"iterations": n, "store_variant": store, "max_heap_slots": sz})),
                Err((sig, detail, replay, found)) => ev.violation(&sig, &format!("C06 receive loop: {detail}"), replay, found),
            }
        }
        ev.set_extra("recv_loop", json!(sizes));
        ev.set_extra("model_requests", json!(model.requests));
    } else {
        ev.hit("lockstep:skipped-no-model");
    }

    // 2c. must-reject probe
    {
        let mut r = Rng::for_case(opts.seed ^ 0x9B0B, 0);
        run_sim_case(&mut ev, &progs::probe_tail_in_tuple(), &mut r, 1, "probe");
    }

    // 3. generated programs under the simulator
    let n = opts.tier.pick(1500u64, 12000);
    let schedules = opts.tier.pick(4usize, 16);
    for i in 0..n {
        let mut r = Rng::for_case(opts.seed ^ 0x51A1, i);
        let prog = progs::generate(&mut r);
        run_sim_case(&mut ev, &prog, &mut r, schedules, "gen");
        if ev.violation_count() >= 6 {
            break;
        }
    }
    std::process::exit(ev.finish());
}
